/-
C16 — Residual-adaptive refinement follows its schedule and never exceeds capacity.
Property theorems about `JinnsModel/RarSchedule.lean`, for every start iteration, period ≥ 1,
allocation sizes `n_start ≤ n`, `nt_start ≤ nt` (equal or not), selected sizes ≥ 1, the three
generator kinds and every number of iterations.
-/
import JinnsModel.RarSchedule
import JinnsModel.HoldsC16

namespace Jinns.Rar

/-! ### probability masks -/


@[simp] theorem length_prefixMask (n a : Nat) : (prefixMask n a).length = n := by
  simp [prefixMask]

@[simp] theorem length_setPrefix (p : List Bool) (k : Nat) : (setPrefix p k).length = p.length := by
  simp [setPrefix]

@[simp] theorem length_updSlice (p : List Bool) (off len : Nat) : (updSlice p off len).length = p.length := by
  simp [updSlice]

theorem getElem_prefixMask {n a j : Nat} (h : j < (prefixMask n a).length) :
    (prefixMask n a)[j] = decide (j < a) := by
  simp [prefixMask]

theorem setPrefix_prefixMask {n a k : Nat} (h : k ≤ a) : setPrefix (prefixMask n a) k = prefixMask n a := by
  apply List.ext_getElem
  · simp
  · intro j h1 h2
    simp only [setPrefix, List.getElem_mapIdx, getElem_prefixMask]
    split
    · simp; omega
    · rfl

theorem updSlice_prefixMask {n b off len : Nat} (h1 : off ≤ b) (h2 : off + len ≤ n) :
    updSlice (prefixMask n b) off len = prefixMask n (max b (off + len)) := by
  apply List.ext_getElem
  · simp
  · intro j hj1 hj2
    have hmin : min off (n - len) = off := by omega
    simp only [updSlice, List.getElem_mapIdx, getElem_prefixMask, length_prefixMask, hmin]
    split
    · simp; omega
    · simp; omega

theorem initMask_eq (n nStart : Nat) : initMask n nStart = prefixMask n nStart := by
  apply List.ext_getElem
  · simp [initMask]
  · intro j h1 h2
    simp [initMask, setPrefix, getElem_prefixMask]

theorem foriMask_prefixMask {n b nStart sel : Nat} (hb : nStart ≤ b) :
    ∀ m, nStart + m * sel ≤ n →
      foriMask nStart sel (prefixMask n b) m = prefixMask n (max b (nStart + m * sel)) := by
  intro m
  induction m with
  | zero => intro _; simp [foriMask]; congr 1; omega
  | succ m ih =>
    intro h
    have h' : nStart + m * sel ≤ n := by rw [Nat.succ_mul] at h; omega
    rw [foriMask, ih h', updSlice_prefixMask (by omega) (by rw [Nat.succ_mul] at h; omega)]
    congr 1
    rw [Nat.succ_mul]; omega

/-- **mask closed form**: from the mask with exactly the first `n_start + J·sel` entries non-zero, the
    `(J+1)`-th step produces the mask with exactly the first `n_start + (J+1)·sel` non-zero, provided
    the new set fits. -/
theorem maskStep_prefix {n nStart sel J : Nat} (h : nStart + (J + 1) * sel ≤ n) :
    maskStep (prefixMask n (nStart + J * sel)) nStart sel (J + 1) = prefixMask n (nStart + (J + 1) * sel) := by
  rw [maskStep, setPrefix_prefixMask (by omega), foriMask_prefixMask (by omega) _ h]
  congr 1
  rw [Nat.succ_mul]; omega

theorem prefixMask_succ (n a : Nat) : prefixMask (n + 1) a = prefixMask n a ++ [decide (n < a)] := by
  simp [prefixMask, List.range_succ]

theorem active_prefixMask_min (n a : Nat) : active (prefixMask n a) = min a n := by
  induction n with
  | zero => simp [active, prefixMask]
  | succ n ih =>
    unfold active at ih ⊢
    rw [prefixMask_succ, List.count_append, ih]
    by_cases h : n < a <;> simp [h] <;> omega

theorem zeros_add_active (p : List Bool) : zeros p + active p = p.length := by
  induction p with
  | nil => simp [zeros, active]
  | cons b t ih =>
    unfold zeros active at ih ⊢
    cases b <;> simp <;> omega

/-- a prefix mask has as many non-zero entries as its prefix is long -/
theorem active_prefixMask {n a : Nat} (h : a ≤ n) : active (prefixMask n a) = a := by
  rw [active_prefixMask_min]; omega

theorem zeros_prefixMask {n a : Nat} (h : a ≤ n) : zeros (prefixMask n a) = n - a := by
  have := zeros_add_active (prefixMask n a)
  rw [active_prefixMask h, length_prefixMask] at this
  omega


/-! ### the step condition -/

/-- hypotheses of the property: a period of at least one iteration, at least one selected point and
    an initial count within the allocation, for every store the generator owns -/
structure WF (c : Cfg) : Prop where
  every_pos  : 0 < c.every
  selT_pos   : c.kind.hasT = true → 0 < c.selT
  selX_pos   : c.kind.hasX = true → 0 < c.selX
  ntStart_le : c.kind.hasT = true → c.ntStart ≤ c.nt
  nStart_le  : c.kind.hasX = true → c.nStart ≤ c.n

/-- the probabilities are non-zero exactly on the prefix `n_start + steps·selected`, within the store -/
def MaskOK (c : Cfg) (s : St) : Prop :=
  (c.kind.hasT = true → s.pT = prefixMask c.nt (c.ntStart + s.steps * c.selT) ∧
      c.ntStart + s.steps * c.selT ≤ c.nt) ∧
  (c.kind.hasX = true → s.pX = prefixMask c.n (c.nStart + s.steps * c.selX) ∧
      c.nStart + s.steps * c.selX ≤ c.n)

theorem fits1_iff {n nStart sel J : Nat} (hs : 0 < sel) (hn : nStart ≤ n) :
    fits1 n nStart sel J = true ↔ J < cap1 n nStart sel := by
  unfold fits1 cap1
  rw [decide_eq_true_eq, Nat.lt_iff_add_one_le, Nat.le_div_iff_mul_le hs]
  omega

theorem le_cap1 {n nStart sel J : Nat} (hs : 0 < sel) (h : nStart + J * sel ≤ n) :
    J ≤ cap1 n nStart sel := by
  unfold cap1
  rw [Nat.le_div_iff_mul_le hs]; omega

/-- another full set fits iff fewer steps than the capacity have been done -/
theorem fits_iff_lt_cap {c : Cfg} (w : WF c) (J : Nat) : fits c J = true ↔ J < cap c := by
  unfold fits cap
  cases hk : c.kind <;> simp only [Kind.hasT, Kind.hasX, Bool.not_true, Bool.not_false, Bool.false_or,
    Bool.true_or, Bool.and_true, Bool.true_and, Bool.and_eq_true]
  · exact fits1_iff (w.selT_pos (by simp [hk, Kind.hasT])) (w.ntStart_le (by simp [hk, Kind.hasT]))
  · exact fits1_iff (w.selX_pos (by simp [hk, Kind.hasX])) (w.nStart_le (by simp [hk, Kind.hasX]))
  · rw [fits1_iff (w.selT_pos (by simp [hk, Kind.hasT])) (w.ntStart_le (by simp [hk, Kind.hasT])),
      fits1_iff (w.selX_pos (by simp [hk, Kind.hasX])) (w.nStart_le (by simp [hk, Kind.hasX]))]
    omega

theorem steps_le_cap_of_maskOK {c : Cfg} (w : WF c) {s : St} (m : MaskOK c s) : s.steps ≤ cap c := by
  unfold cap
  cases hk : c.kind <;> simp only
  · exact le_cap1 (w.selT_pos (by simp [hk, Kind.hasT])) (m.1 (by simp [hk, Kind.hasT])).2
  · exact le_cap1 (w.selX_pos (by simp [hk, Kind.hasX])) (m.2 (by simp [hk, Kind.hasX])).2
  · have h1 := le_cap1 (w.selT_pos (by simp [hk, Kind.hasT])) (m.1 (by simp [hk, Kind.hasT])).2
    have h2 := le_cap1 (w.selX_pos (by simp [hk, Kind.hasX])) (m.2 (by simp [hk, Kind.hasX])).2
    omega

/-- **the step condition of the code, in arithmetic**: with probabilities of prefix shape, the test on
    the number of zero probabilities is the test "another full set fits". -/
theorem proceed_iff {c : Cfg} {s : St} (m : MaskOK c s) (i : Nat) :
    proceed c s i = true ↔ c.start ≤ i ∧ c.every - 1 = s.fromLast ∧ fits c s.steps = true := by
  unfold proceed fits fits1
  have hT : c.kind.hasT = true → (decide (c.selT ≤ zeros s.pT) = decide (c.ntStart + (s.steps + 1) * c.selT ≤ c.nt)) := by
    intro h
    obtain ⟨e, l⟩ := m.1 h
    rw [e, zeros_prefixMask l, Nat.succ_mul]
    apply decide_eq_decide.2; omega
  have hX : c.kind.hasX = true → (decide (c.selX ≤ zeros s.pX) = decide (c.nStart + (s.steps + 1) * c.selX ≤ c.n)) := by
    intro h
    obtain ⟨e, l⟩ := m.2 h
    rw [e, zeros_prefixMask l, Nat.succ_mul]
    apply decide_eq_decide.2; omega
  cases h1 : c.kind.hasT <;> cases h2 : c.kind.hasX
  · simp
  · simp [hX h2, and_assoc]
  · simp [hT h1, and_assoc]
  · simp [hT h1, hX h2, and_assoc]


/-! ### arithmetic of the schedule -/

theorem mul_add_div_eq {k e r : Nat} (h : r < e) : (k * e + r) / e = k := by
  rw [Nat.mul_comm, Nat.mul_add_div (by omega), Nat.div_eq_of_lt h]; rfl

theorem mul_add_mod_eq {k e r : Nat} (h : r < e) : (k * e + r) % e = r := by
  rw [Nat.mul_add_mod', Nat.mod_eq_of_lt h]

theorem due_mono (c : Cfg) (i : Nat) : due c i ≤ due c (i + 1) := by
  unfold due
  by_cases h1 : i ≤ c.start
  · simp [h1]
  · have h2 : ¬ (i + 1 ≤ c.start) := by omega
    simp only [h1, h2, if_false]
    have : (i - c.start - 1) / c.every ≤ (i + 1 - c.start - 1) / c.every :=
      Nat.div_le_div_right (by omega)
    omega

/-- on a schedule point `i = start + m·every` exactly `m` schedule points precede `i` -/
theorem due_on_schedule {c : Cfg} (he : 0 < c.every) {i : Nat} (h1 : c.start ≤ i)
    (h2 : (i - c.start) % c.every = 0) : due c i = (i - c.start) / c.every := by
  unfold due
  by_cases h : i ≤ c.start
  · have : i - c.start = 0 := by omega
    simp [h, this]
  · simp only [h, if_false]
    have hd := Nat.div_add_mod (i - c.start) c.every
    rw [h2, Nat.add_zero] at hd
    generalize (i - c.start) / c.every = m at hd ⊢
    have hm : 0 < m := by
      rcases Nat.eq_zero_or_pos m with h0 | h0
      · subst h0; simp at hd; omega
      · exact h0
    obtain ⟨m', rfl⟩ : ∃ m', m = m' + 1 := ⟨m - 1, by omega⟩
    have e : i - c.start - 1 = m' * c.every + (c.every - 1) := by
      rw [← hd, Nat.mul_succ, Nat.mul_comm]; omega
    rw [e, mul_add_div_eq (by omega)]

/-! ### the invariant -/

/-- where the run stands before the trigger of iteration `i`:
    burn-in (counter parked at `every − 1`), on schedule (counter = `(i − start − 1) mod every`,
    steps = number of schedule points passed), or exhausted (no further set fits). -/
def Phase (c : Cfg) (i : Nat) (s : St) : Prop :=
  (i ≤ c.start ∧ s.steps = 0 ∧ s.fromLast = c.every - 1) ∨
  (c.start < i ∧ ∃ k r, i - c.start - 1 = k * c.every + r ∧ r < c.every ∧ s.steps = k + 1 ∧ s.fromLast = r) ∨
  (c.start < i ∧ fits c s.steps = false ∧ s.steps ≤ due c i)

def Inv (c : Cfg) (i : Nat) (s : St) : Prop := MaskOK c s ∧ Phase c i s

theorem maskOK_init {c : Cfg} (w : WF c) : MaskOK c (init c) := by
  unfold MaskOK init
  constructor
  · intro h; simp only [h, if_true, Nat.zero_mul, Nat.add_zero]; exact ⟨initMask_eq _ _, w.ntStart_le h⟩
  · intro h; simp only [h, if_true, Nat.zero_mul, Nat.add_zero]; exact ⟨initMask_eq _ _, w.nStart_le h⟩

theorem inv_init {c : Cfg} (w : WF c) : Inv c 0 (init c) :=
  ⟨maskOK_init w, Or.inl ⟨Nat.zero_le _, rfl, rfl⟩⟩

theorem maskOK_stepFalse {c : Cfg} {s : St} (m : MaskOK c s) (i : Nat) : MaskOK c (stepFalse c s i) := m

theorem maskOK_stepTrue {c : Cfg} {s : St} (m : MaskOK c s) (hf : fits c s.steps = true) :
    MaskOK c (stepTrue c s) := by
  unfold fits fits1 at hf
  unfold MaskOK stepTrue
  constructor
  · intro h
    obtain ⟨e, _⟩ := m.1 h
    have hfit : c.ntStart + (s.steps + 1) * c.selT ≤ c.nt := by simp [h] at hf; exact hf.1
    simp only [h, if_true]
    exact ⟨by rw [e]; exact maskStep_prefix hfit, hfit⟩
  · intro h
    obtain ⟨e, _⟩ := m.2 h
    have hfit : c.nStart + (s.steps + 1) * c.selX ≤ c.n := by simp [h] at hf; exact hf.2
    simp only [h, if_true]
    exact ⟨by rw [e]; exact maskStep_prefix hfit, hfit⟩

/-- the phase before iteration `i` decides the step: it happens iff `i` is a schedule point and
    another full set fits -/
theorem proceed_char {c : Cfg} (w : WF c) {i : Nat} {s : St} (h : Inv c i s) :
    proceed c s i = true ↔
      (c.start ≤ i ∧ (i - c.start) % c.every = 0) ∧ fits c s.steps = true := by
  rw [proceed_iff h.1]
  have he := w.every_pos
  rcases h.2 with ⟨h1, _, h3⟩ | ⟨h1, k, r, h2, h3, _, h5⟩ | ⟨h1, h2, _⟩
  · constructor
    · rintro ⟨a, _, b⟩
      have : i - c.start = 0 := by omega
      exact ⟨⟨a, by simp [this]⟩, b⟩
    · rintro ⟨⟨a, _⟩, b⟩; exact ⟨a, h3.symm, b⟩
  · have e : i - c.start = k * c.every + (r + 1) := by omega
    constructor
    · rintro ⟨a, b, d⟩
      refine ⟨⟨a, ?_⟩, d⟩
      have : r + 1 = c.every := by omega
      rw [e, this, ← Nat.succ_mul]; exact Nat.mul_mod_left _ _
    · rintro ⟨⟨a, b⟩, d⟩
      refine ⟨a, ?_, d⟩
      by_cases hr : r + 1 < c.every
      · rw [e, mul_add_mod_eq hr] at b; omega
      · omega
  · simp [h2]

theorem inv_trigger {c : Cfg} (w : WF c) {i : Nat} {s : St} (h : Inv c i s) :
    Inv c (i + 1) (trigger c s i) := by
  have he := w.every_pos
  unfold trigger
  by_cases hp : proceed c s i = true
  · rw [if_pos hp]
    have hc := (proceed_iff h.1 i).1 hp
    refine ⟨maskOK_stepTrue h.1 hc.2.2, ?_⟩
    rcases h.2 with ⟨h1, h2, _⟩ | ⟨h1, k, r, h2, h3, h4, h5⟩ | ⟨_, h2, _⟩
    · refine Or.inr (Or.inl ⟨by omega, 0, 0, ?_, he, ?_, rfl⟩)
      · have : i = c.start := by omega
        subst this; simp
      · simp [stepTrue, h2]
    · refine Or.inr (Or.inl ⟨by omega, k + 1, 0, ?_, he, ?_, rfl⟩)
      · have : r = c.every - 1 := by omega
        rw [Nat.succ_mul]; omega
      · simp [stepTrue, h4]
    · rw [hc.2.2] at h2; exact absurd h2 (by simp)
  · rw [if_neg hp]
    have hp' : proceed c s i = false := by simpa using hp
    refine ⟨maskOK_stepFalse h.1 i, ?_⟩
    have hchar := proceed_char w h
    rcases h.2 with ⟨h1, h2, h3⟩ | ⟨h1, k, r, h2, h3, h4, h5⟩ | ⟨h1, h2, h3⟩
    · by_cases hlt : i < c.start
      · exact Or.inl ⟨by omega, h2, by simp [stepFalse, h3]; omega⟩
      · -- i = start and no step: a full set does not fit
        have hi : i = c.start := by omega
        have hfit : fits c s.steps = false := by
          cases hf : fits c s.steps with
          | false => rfl
          | true => exact absurd (hchar.2 ⟨⟨by omega, by simp [hi]⟩, hf⟩) hp
        refine Or.inr (Or.inr ⟨by omega, by simpa [stepFalse] using hfit, ?_⟩)
        simp [stepFalse, h2]
    · have hdue : s.steps = due c i := by
        unfold due; rw [if_neg (by omega), h2, mul_add_div_eq h3, h4]
      by_cases hr : r + 1 < c.every
      · refine Or.inr (Or.inl ⟨by omega, k, r + 1, by omega, hr, by simpa [stepFalse] using h4, ?_⟩)
        simp [stepFalse, h5]; omega
      · have hon : (i - c.start) % c.every = 0 := by
          have e : i - c.start = (k + 1) * c.every := by rw [Nat.succ_mul]; omega
          rw [e]; exact Nat.mul_mod_left _ _
        have hfit : fits c s.steps = false := by
          cases hf : fits c s.steps with
          | false => rfl
          | true => exact absurd (hchar.2 ⟨⟨by omega, hon⟩, hf⟩) hp
        refine Or.inr (Or.inr ⟨by omega, by simpa [stepFalse] using hfit, ?_⟩)
        have := due_mono c i
        simp only [stepFalse]; omega
    · refine Or.inr (Or.inr ⟨by omega, by simpa [stepFalse] using h2, ?_⟩)
      have := due_mono c i
      simp only [stepFalse]; omega

/-- the invariant holds before every iteration of the loop -/
theorem inv_run {c : Cfg} (w : WF c) : ∀ n, Inv c n (runSchedule c n) := by
  intro n
  induction n with
  | zero => exact inv_init w
  | succ n ih => exact inv_trigger w ih


/-! ### the property theorems -/

/-- **no step before the start iteration** (whatever the configuration). -/
theorem no_step_before_start (c : Cfg) {i : Nat} (h : i < c.start) : stepsAt c i = false := by
  unfold stepsAt proceed
  have : decide (c.start ≤ i) = false := by simp; omega
  simp [this]

/-- **C16 schedule**: iteration `i` performs a refinement step **iff** `i = start + k·every` for
    some `k` (i.e. `start ≤ i` and `every ∣ i − start`) and `k` is below the capacity
    `min over the owned stores of ⌊(n − n_start)/selected⌋` — i.e. another full set fits. -/
theorem stepsAt_iff {c : Cfg} (w : WF c) (i : Nat) :
    stepsAt c i = true ↔
      c.start ≤ i ∧ (i - c.start) % c.every = 0 ∧ (i - c.start) / c.every < cap c := by
  have hinv := inv_run w i
  unfold stepsAt
  rw [proceed_char w hinv, fits_iff_lt_cap w]
  have hle := steps_le_cap_of_maskOK w hinv.1
  constructor
  · rintro ⟨⟨a, b⟩, d⟩
    refine ⟨a, b, ?_⟩
    have hdue := due_on_schedule w.every_pos a b
    rcases hinv.2 with ⟨h1, h2, _⟩ | ⟨h1, k, r, h2, h3, h4, _⟩ | ⟨_, h2, _⟩
    · have : i - c.start = 0 := by omega
      rw [this, Nat.zero_div]; omega
    · have : (runSchedule c i).steps = due c i := by
        unfold due; rw [if_neg (by omega), h2, mul_add_div_eq h3, h4]
      omega
    · have := (fits_iff_lt_cap w _).2 d
      rw [this] at h2; exact absurd h2 (by simp)
  · rintro ⟨a, b, d⟩
    refine ⟨⟨a, b⟩, ?_⟩
    have hdue := due_on_schedule w.every_pos a b
    rcases hinv.2 with ⟨h1, h2, _⟩ | ⟨h1, k, r, h2, h3, h4, _⟩ | ⟨_, h2, h3⟩
    · omega
    · have : (runSchedule c i).steps = due c i := by
        unfold due; rw [if_neg (by omega), h2, mul_add_div_eq h3, h4]
      omega
    · have hnot : ¬ ((runSchedule c i).steps < cap c) := by
        intro hlt
        have := (fits_iff_lt_cap w _).2 hlt
        rw [this] at h2; exact absurd h2 (by simp)
      omega

/-- **closed form of the step count**: before iteration `i` the number of steps done is the number
    of schedule points passed, capped by the capacity. -/
theorem steps_closed_form {c : Cfg} (w : WF c) (i : Nat) :
    (runSchedule c i).steps = min (due c i) (cap c) := by
  have hinv := inv_run w i
  have hle := steps_le_cap_of_maskOK w hinv.1
  rcases hinv.2 with ⟨h1, h2, _⟩ | ⟨h1, k, r, h2, h3, h4, _⟩ | ⟨_, h2, h3⟩
  · unfold due; rw [if_pos h1, h2]; omega
  · have : (runSchedule c i).steps = due c i := by
      unfold due; rw [if_neg (by omega), h2, mul_add_div_eq h3, h4]
    omega
  · have hnot : ¬ ((runSchedule c i).steps < cap c) := by
      intro hlt
      have := (fits_iff_lt_cap w _).2 hlt
      rw [this] at h2; exact absurd h2 (by simp)
    omega

/-- **the number of steps never exceeds the capacity** `min_stores ⌊(n − n_start)/selected⌋`. -/
theorem steps_le_cap {c : Cfg} (w : WF c) (i : Nat) : (runSchedule c i).steps ≤ cap c :=
  steps_le_cap_of_maskOK w (inv_run w i).1

/-- **after `J` steps exactly `nt_start + J·selected_t` time probabilities and
    `n_start + J·selected_x` space probabilities are non-zero**, independently, and they are the
    first ones. -/
theorem active_counts {c : Cfg} (w : WF c) (i : Nat) :
    let s := runSchedule c i
    (c.kind.hasT = true → s.pT = prefixMask c.nt (c.ntStart + s.steps * c.selT) ∧
        active s.pT = c.ntStart + s.steps * c.selT) ∧
    (c.kind.hasX = true → s.pX = prefixMask c.n (c.nStart + s.steps * c.selX) ∧
        active s.pX = c.nStart + s.steps * c.selX) := by
  have m := (inv_run w i).1
  constructor
  · intro h
    obtain ⟨e, l⟩ := m.1 h
    exact ⟨e, by rw [e]; exact active_prefixMask l⟩
  · intro h
    obtain ⟨e, l⟩ := m.2 h
    exact ⟨e, by rw [e]; exact active_prefixMask l⟩

/-- **the active count never exceeds the store.** -/
theorem active_le_store {c : Cfg} (w : WF c) (i : Nat) :
    (c.kind.hasT = true → active (runSchedule c i).pT ≤ c.nt) ∧
    (c.kind.hasX = true → active (runSchedule c i).pX ≤ c.n) := by
  have m := (inv_run w i).1
  have a := active_counts w i
  constructor
  · intro h; have := (a.1 h).2; have := (m.1 h).2; omega
  · intro h; have := (a.2 h).2; have := (m.2 h).2; omega

/-- **what happens once the capacity is exhausted**: from the first iteration before which a full
    set no longer fits, no step ever happens again; the step count and both probability patterns
    stay frozen (only the period counter keeps growing). -/
theorem exhausted_forever {c : Cfg} (w : WF c) {i : Nat}
    (h : fits c (runSchedule c i).steps = false) :
    ∀ d, stepsAt c (i + d) = false ∧
      (runSchedule c (i + d)).steps = (runSchedule c i).steps ∧
      (runSchedule c (i + d)).pT = (runSchedule c i).pT ∧
      (runSchedule c (i + d)).pX = (runSchedule c i).pX := by
  intro d
  induction d with
  | zero =>
    refine ⟨?_, rfl, rfl, rfl⟩
    unfold stepsAt
    cases hp : proceed c (runSchedule c i) i with
    | false => rfl
    | true =>
      have := ((proceed_iff (inv_run w i).1 i).1 hp).2.2
      rw [this] at h; exact absurd h (by simp)
  | succ d ih =>
    obtain ⟨h1, h2, h3, h4⟩ := ih
    have hs : runSchedule c (i + (d + 1)) = stepFalse c (runSchedule c (i + d)) (i + d) := by
      show trigger c (runSchedule c (i + d)) (i + d) = _
      unfold trigger; unfold stepsAt at h1; rw [h1]; rfl
    have hsteps : (runSchedule c (i + (d + 1))).steps = (runSchedule c i).steps := by
      rw [hs]; exact h2
    refine ⟨?_, hsteps, by rw [hs]; exact h3, by rw [hs]; exact h4⟩
    unfold stepsAt
    cases hp : proceed c (runSchedule c (i + (d + 1))) (i + (d + 1)) with
    | false => rfl
    | true =>
      have := ((proceed_iff (inv_run w (i + (d + 1))).1 _).1 hp).2.2
      rw [hsteps, h] at this; exact absurd this (by simp)

/-! ### the model's runs satisfy `Holds.C16` -/

open Jinns.Holds in
theorem roomAll_eq_fits (c : Cfg) (J : Nat) : roomAll c J = fits c J := by
  unfold roomAll fits roomFor fits1
  have e1 : (c.ntStart + J * c.selT + c.selT ≤ c.nt) = (c.ntStart + (J + 1) * c.selT ≤ c.nt) := by
    rw [Nat.succ_mul, Nat.add_assoc]
  have e2 : (c.nStart + J * c.selX + c.selX ≤ c.n) = (c.nStart + (J + 1) * c.selX ≤ c.n) := by
    rw [Nat.succ_mul, Nat.add_assoc]
  simp only [e1, e2]

open Jinns.Holds in
/-- the counting clauses of `Holds.C16`, for a state whose probabilities have the closed form -/
theorem c16Step_tail (c : Cfg) {s' : St} {J' : Nat} (hJ : J' = s'.steps)
    (hcT : c.kind.hasT = true → active s'.pT = c.ntStart + s'.steps * c.selT ∧
      c.ntStart + s'.steps * c.selT ≤ c.nt)
    (hcX : c.kind.hasX = true → active s'.pX = c.nStart + s'.steps * c.selX ∧
      c.nStart + s'.steps * c.selX ≤ c.n) :
    (if (s'.steps != J') = true then Except.error "step-count"
     else if (cntOver (if c.kind.hasT = true then some (active s'.pT) else none) c.nt ||
              cntOver (if c.kind.hasX = true then some (active s'.pX) else none) c.n) = true then
        Except.error "active-exceeds-store"
     else if cntBad (if c.kind.hasT = true then some (active s'.pT) else none)
                (c.ntStart + J' * c.selT) = true then Except.error "active-count-times"
     else if cntBad (if c.kind.hasX = true then some (active s'.pX) else none)
                (c.nStart + J' * c.selX) = true then Except.error "active-count-omega"
     else Except.ok J') = (Except.ok s'.steps : Except String Nat) := by
  subst hJ
  cases hkT : c.kind.hasT <;> cases hkX : c.kind.hasX
  · simp [cntOver, cntBad]
  · obtain ⟨e, l⟩ := hcX hkX
    simp [cntOver, cntBad, e]; omega
  · obtain ⟨e, l⟩ := hcT hkT
    simp [cntOver, cntBad, e]; omega
  · obtain ⟨e, l⟩ := hcT hkT
    obtain ⟨e2, l2⟩ := hcX hkX
    simp [cntOver, cntBad, e, e2]; omega

open Jinns.Holds in
/-- one iteration of the model passes the per-iteration clauses of `Holds.C16` -/
theorem c16Step_model {c : Cfg} (w : WF c) {i : Nat} {s : St} (h : Inv c i s) :
    c16Step c i s.steps (recOfObs c { stepped := proceed c s i, st := trigger c s i })
      = .ok (trigger c s i).steps := by
  have hchar := proceed_char w h
  have hnext := inv_trigger w h
  have hsteps : (trigger c s i).steps = if proceed c s i then s.steps + 1 else s.steps := by
    unfold trigger; split <;> simp [stepTrue, stepFalse]
  have hon : onSchedule c i = true ↔ (c.start ≤ i ∧ (i - c.start) % c.every = 0) := by
    unfold onSchedule; simp
  have hcT : c.kind.hasT = true → active (trigger c s i).pT = c.ntStart + (trigger c s i).steps * c.selT ∧
      c.ntStart + (trigger c s i).steps * c.selT ≤ c.nt := by
    intro hk; obtain ⟨e, l⟩ := hnext.1.1 hk; exact ⟨by rw [e]; exact active_prefixMask l, l⟩
  have hcX : c.kind.hasX = true → active (trigger c s i).pX = c.nStart + (trigger c s i).steps * c.selX ∧
      c.nStart + (trigger c s i).steps * c.selX ≤ c.n := by
    intro hk; obtain ⟨e, l⟩ := hnext.1.2 hk; exact ⟨by rw [e]; exact active_prefixMask l, l⟩
  unfold c16Step recOfObs
  simp only [roomAll_eq_fits]
  cases hp : proceed c s i with
  | true =>
    obtain ⟨hs, hf⟩ := hchar.1 hp
    have hon' := hon.2 hs
    have hlt : ¬ (i < c.start) := by omega
    simp only [hp, if_true] at hsteps
    simp only [hon', hf, hlt, decide_false, Bool.and_false, Bool.not_true, Bool.false_and,
      if_false, if_true, Bool.false_eq_true]
    exact c16Step_tail c (hsteps ▸ rfl) hcT hcX
  | false =>
    rw [hp] at hsteps
    have hnot : ¬ (onSchedule c i = true ∧ fits c s.steps = true) := by
      intro ⟨a, b⟩; have := hchar.2 ⟨hon.1 a, b⟩; rw [hp] at this; exact absurd this (by simp)
    have hguard : (onSchedule c i && fits c s.steps) = false := by
      cases h1 : onSchedule c i <;> cases h2 : fits c s.steps <;> simp_all
    simp only [Bool.false_eq_true, if_false] at hsteps
    simp only [Bool.false_and, Bool.not_false, Bool.true_and, hguard, if_false, Bool.false_eq_true]
    exact c16Step_tail c (hsteps ▸ rfl) hcT hcX

open Jinns.Holds in
theorem c16Scan_model {c : Cfg} (w : WF c) :
    ∀ (k i : Nat) (s : St), Inv c i s →
      c16Scan c i s.steps ((traceFrom c s i k).map (recOfObs c)) = none := by
  intro k
  induction k with
  | zero => intro i s _; simp [traceFrom, c16Scan]
  | succ k ih =>
    intro i s h
    simp only [traceFrom, List.map_cons, c16Scan, c16Step_model w h]
    exact ih (i + 1) (trigger c s i) (inv_trigger w h)

open Jinns.Holds in
/-- **every run of the model satisfies `Holds.C16`**, for every configuration within the
    property's hypotheses and every number of iterations. -/
theorem model_trace_holds {c : Cfg} (w : WF c) (nIter : Nat) :
    holdsC16 c ((trace c nIter).map (recOfObs c)) = none := by
  unfold holdsC16 trace
  have := c16Scan_model w nIter 0 (init c) (inv_init w)
  simpa [init] using this

open Jinns.Holds in
/-- every configuration `Holds.C16` counts as legal (hence: must not be rejected) is within the
    hypotheses of the theorems above -/
theorem legal_wf {c : Cfg} {sampT sampX bT bX dim : Nat} {ms : Bool}
    (h : legalCfg c sampT sampX bT bX dim ms = true) : WF c := by
  unfold legalCfg legalStore at h
  simp only [Bool.and_eq_true, Bool.or_eq_true, Bool.not_eq_true', decide_eq_true_eq] at h
  obtain ⟨⟨⟨_, he⟩, hT⟩, hX⟩ := h
  refine ⟨he, ?_, ?_, ?_, ?_⟩
  · intro k; rcases hT with h | h
    · rw [k] at h; exact absurd h (by simp)
    · omega
  · intro k; rcases hX with h | h
    · rw [k] at h; exact absurd h (by simp)
    · omega
  · intro k; rcases hT with h | h
    · rw [k] at h; exact absurd h (by simp)
    · omega
  · intro k; rcases hX with h | h
    · rw [k] at h; exact absurd h (by simp)
    · omega

/-! ### non-vacuity -/

/-- a non-stationary configuration with unequal initial counts: time capacity 4, space capacity 2 -/
def exCfg : Cfg :=
  { kind := .nonstatio, start := 2, every := 3, nt := 6, ntStart := 2, selT := 1, n := 8, nStart := 3, selX := 2 }

theorem exCfg_wf : WF exCfg :=
  ⟨by decide, fun _ => by decide, fun _ => by decide, fun _ => by decide, fun _ => by decide⟩

example : cap exCfg = 2 := by decide
/-- steps at 2 and 5 only: the third schedule point (8) finds the space store unable to take 2 more -/
example : (List.range 12).map (stepsAt exCfg) =
    [false, false, true, false, false, true, false, false, false, false, false, false] := by decide
example : (runSchedule exCfg 12).steps = 2 ∧ active (runSchedule exCfg 12).pT = 4 ∧
    active (runSchedule exCfg 12).pX = 7 := by decide
/-- the hypothesis of `exhausted_forever` is met from iteration 6 on -/
example : fits exCfg (runSchedule exCfg 6).steps = false := by decide
example : Inv exCfg 0 (init exCfg) := inv_init exCfg_wf
/-- an ODE configuration whose store is full from the start (capacity 0): never a step -/
def exFull : Cfg :=
  { kind := .ode, start := 1, every := 1, nt := 4, ntStart := 4, selT := 1, n := 0, nStart := 0, selX := 0 }
example : (List.range 6).map (stepsAt exFull) = [false, false, false, false, false, false] := by decide

open Jinns.Holds in
/-- `Holds.C16` is not vacuous: the run "first step one period late" (what the code did before the
    fix of `init_rar`) is rejected, and so is a probability count lagging one step behind. -/
example : holdsC16 { exCfg with kind := .ode } [
    { stepped := false, iterNb := 0, cntT := some 2, cntX := none },
    { stepped := false, iterNb := 0, cntT := some 2, cntX := none },
    { stepped := false, iterNb := 0, cntT := some 2, cntX := none }] = some "missed-step" := by decide
open Jinns.Holds in
example : holdsC16 { exCfg with kind := .ode } [
    { stepped := false, iterNb := 0, cntT := some 2, cntX := none },
    { stepped := false, iterNb := 0, cntT := some 2, cntX := none },
    { stepped := true, iterNb := 1, cntT := some 2, cntX := none }] = some "active-count-times" := by decide
open Jinns.Holds in
example : holdsC16 exCfg ((trace exCfg 12).map (recOfObs exCfg)) = none := model_trace_holds exCfg_wf 12
open Jinns.Holds in
example : legalCfg exCfg 3 4 2 2 1 false = true ∧ rejectedCheck (legalCfg exCfg 3 4 2 2 1 false) =
    some "valid-configuration-rejected" := by decide

/-! ### resumed runs: the counting clauses are a weakening of `Holds.C16` -/

theorem c16StepCounts_of_step {c : Cfg} {i J J' : Nat} {r : Jinns.Holds.Rec16}
    (h : Jinns.Holds.c16Step c i J r = .ok J') : Jinns.Holds.c16StepCounts c J r = .ok J' := by
  unfold Jinns.Holds.c16Step at h
  unfold Jinns.Holds.c16StepCounts
  grind

theorem c16ScanCounts_of_scan (c : Cfg) (tr : List Jinns.Holds.Rec16) :
    ∀ i J, Jinns.Holds.c16Scan c i J tr = none → Jinns.Holds.c16ScanCounts c J tr = none := by
  induction tr with
  | nil => intro _ _ _; rfl
  | cons r rs ih =>
    intro i J h
    unfold Jinns.Holds.c16Scan at h
    unfold Jinns.Holds.c16ScanCounts
    cases hs : Jinns.Holds.c16Step c i J r with
    | error e => rw [hs] at h; exact absurd h (by simp)
    | ok J' =>
      rw [hs] at h
      rw [c16StepCounts_of_step hs]
      exact ih _ _ h

/-- **every run that satisfies `Holds.C16` satisfies the counting clauses from any point on**, in
    particular the model's (by `model_trace_holds`): `holdsC16Resumed` asks nothing the property does not -/
theorem holdsC16Resumed_of_holds (c : Cfg) (tr : List Jinns.Holds.Rec16)
    (h : Jinns.Holds.holdsC16 c tr = none) : Jinns.Holds.holdsC16Resumed c 0 tr = none :=
  c16ScanCounts_of_scan c tr 0 0 h

end Jinns.Rar
