/-
C10 — Network wrappers (PINN / SPINN / HYPERPINN) honour their calling and output conventions.
Property theorems about `JinnsModel/Wrappers.lean` (and `Holds.C10`), for every network, transform,
slice, parameter value, input, number of dimensions, embedding size, number of outputs, batch size and
list of leaf shapes.
-/
import JinnsModel.Wrappers
import JinnsModel.HoldsC10
import Mathlib.Tactic.Ring
import Mathlib.Tactic.NormNum
import Mathlib.Algebra.BigOperators.Group.List.Basic
import Mathlib.Algebra.Order.Field.Rat

namespace Jinns.Wrappers
open Jinns.Holds

/-! ## PINN: composition order, trailing axis, calling conventions -/

variable {θ : Type}

def preSlice (net : θ → Vec → Vec) (inT : Vec → PArg θ → Except String Vec)
    (outT : Vec → Val → PArg θ → Except String Val) (inputs : Vec) (p : PArg θ) : Except String Val := do
  let z ← inT inputs p
  outT inputs (squeeze (net p.nn z)) p

/-- `eval_nn` = slice, then forced trailing axis, of the un-sliced value -/
theorem evalNN_eq_preSlice (net : θ → Vec → Vec) (inT : Vec → PArg θ → Except String Vec)
    (outT : Vec → Val → PArg θ → Except String Val) (sl : Option OutSlice) (inputs : Vec) (p : PArg θ) :
    evalNN net inT outT sl inputs p =
      (do let r ← preSlice net inT outT inputs p
          let s ← applySlice sl r
          pure (ensureTrailingAxis s)) := by
  unfold evalNN preSlice
  cases h : inT inputs p with
  | error e => rfl
  | ok z => simp [bind, Except.bind]

/-- **composition order**: with `z = input_transform(inputs, p)` and
    `r = output_transform(inputs, squeeze(net(z)), p)`, the wrapper returns `r[output_slice]` with a
    trailing axis — for every network, pair of transforms, slice, input and parameter argument. -/
theorem evalNN_composition (net : θ → Vec → Vec) (inT : Vec → PArg θ → Except String Vec)
    (outT : Vec → Val → PArg θ → Except String Val) (sl : Option OutSlice) (inputs : Vec) (p : PArg θ)
    (z : Vec) (r : Val) (hz : inT inputs p = .ok z) (hr : outT inputs (squeeze (net p.nn z)) p = .ok r) :
    evalNN net inT outT sl inputs p = (applySlice sl r).map ensureTrailingAxis := by
  unfold evalNN
  simp only [hz, bind, Except.bind, hr]
  cases applySlice sl r <;> rfl

/-- pure transforms, no slice -/
theorem evalNN_pure (net : θ → Vec → Vec) (f : Vec → PArg θ → Vec) (g : Vec → Val → PArg θ → Val)
    (inputs : Vec) (p : PArg θ) :
    evalNN net (fun i q => .ok (f i q)) (fun i o q => .ok (g i o q)) none inputs p
      = .ok (ensureTrailingAxis (g inputs (squeeze (net p.nn (f inputs p))) p)) := rfl

/-- a 0-d result becomes a length-one vector -/
theorem ensureTrailingAxis_of_scalar (a : Rat) : ensureTrailingAxis (.scalar a) = [a] := rfl

/-- **the output always has a component axis** (rank one, never a bare scalar): whatever the network,
    transforms and slice, a returned value is `ensureTrailingAxis s`; a 0-d `s` gives a length-one vector. -/
theorem evalNN_has_component_axis (net : θ → Vec → Vec) (inT : Vec → PArg θ → Except String Vec)
    (outT : Vec → Val → PArg θ → Except String Val) (sl : Option OutSlice) (inputs : Vec) (p : PArg θ)
    (v : Vec) (h : evalNN net inT outT sl inputs p = .ok v) :
    (Val.vec v).shape.length = 1 ∧
    ∃ s : Val, v = ensureTrailingAxis s ∧ (∀ a, s = .scalar a → v = [a]) ∧ (∀ w, s = .vec w → v = w) := by
  refine ⟨rfl, ?_⟩
  rw [evalNN_eq_preSlice] at h
  cases hp : preSlice net inT outT inputs p with
  | error e => simp [hp, bind, Except.bind] at h
  | ok r =>
    cases hs : applySlice sl r with
    | error e => simp [hp, hs, bind, Except.bind] at h
    | ok s =>
      simp [hp, hs, bind, Except.bind, pure, Except.pure] at h
      refine ⟨s, h.symm, ?_, ?_⟩
      · intro a ha; rw [← h, ha]; rfl
      · intro w hw; rw [← h, hw]; rfl

/-- A one-output network with the default transforms: the squeezed scalar gets its axis back. -/
theorem evalNN_one_output (net : θ → Vec → Vec) (inputs : Vec) (p : PArg θ) (y : Rat)
    (h : net p.nn inputs = [y]) :
    evalNN net (fun i _ => .ok i) (fun _ o _ => .ok o) none inputs p = .ok [y] := by
  simp [evalNN, h, squeeze, applySlice, ensureTrailingAxis, bind, Except.bind, pure, Except.pure]

/-! ### calling conventions -/

/-- **a scalar and a length-one time give the same result** (ODE wrappers) -/
theorem pinnCall_scalar_time_eq_length_one (net : θ → Vec → Vec)
    (inT : Vec → PArg θ → Except String Vec) (outT : Vec → Val → PArg θ → Except String Val)
    (sl : Option OutSlice) (t : Rat) (p : PArg θ) :
    pinnCall .ode net inT outT sl [.scalar t] p = pinnCall .ode net inT outT sl [.vec [t]] p := rfl

/-- ODE: the scalar time is lifted to a length-one vector -/
theorem pinnCall_ode_inputs (net : θ → Vec → Vec)
    (inT : Vec → PArg θ → Except String Vec) (outT : Vec → Val → PArg θ → Except String Val)
    (sl : Option OutSlice) (t : Rat) (p : PArg θ) :
    pinnCall .ode net inT outT sl [.scalar t] p = evalNN net inT outT sl [t] p := rfl

/-- stationary: the inputs are `x` -/
theorem pinnCall_statio_inputs (net : θ → Vec → Vec)
    (inT : Vec → PArg θ → Except String Vec) (outT : Vec → Val → PArg θ → Except String Val)
    (sl : Option OutSlice) (x : Vec) (p : PArg θ) :
    pinnCall .statio net inT outT sl [.vec x] p = evalNN net inT outT sl x p := rfl

/-- non-stationary: the inputs are `t ++ x` (time first) -/
theorem pinnCall_nonstatio_inputs (net : θ → Vec → Vec)
    (inT : Vec → PArg θ → Except String Vec) (outT : Vec → Val → PArg θ → Except String Val)
    (sl : Option OutSlice) (t x : Vec) (p : PArg θ) :
    pinnCall .nonstatio net inT outT sl [.vec t, .vec x] p = evalNN net inT outT sl (t ++ x) p := rfl

/-! ### bare network parameters -/

/-- **bare network parameters give the result of the full object whenever the transforms factor
    through `nn_params`** (i.e. return the same thing on `Params(nn, eq)` and on the bare `nn`). -/
theorem evalNN_bare_eq_full (net : θ → Vec → Vec)
    (inT : Vec → PArg θ → Except String Vec) (outT : Vec → Val → PArg θ → Except String Val)
    (sl : Option OutSlice) (inputs : Vec) (nn : θ) (eq : List (String × Val))
    (hin : ∀ i, inT i (.full nn eq) = inT i (.bare nn))
    (hout : ∀ i o, outT i o (.full nn eq) = outT i o (.bare nn)) :
    evalNN net inT outT sl inputs (.bare nn) = evalNN net inT outT sl inputs (.full nn eq) := by
  unfold evalNN
  simp only [hin, hout, PArg.nn]

theorem coef_factors (c : Coef) (h : c.needsEq = false) (inputs : Vec) (nn : θ) (eq : List (String × Val)) :
    c.eval inputs (PArg.full nn eq) = c.eval inputs (PArg.bare nn) := by
  cases c with
  | const c => rfl
  | eq k => simp [Coef.needsEq] at h
  | inp i => rfl

/-- in the transform family of the correspondence, a transform that does not mention `eq_params`
    factors through `nn_params` -/
theorem family_factors_through_nn (d : TDesc) (h : d.needsEq = false) (inputs : Vec) (o : Val)
    (nn : θ) (eq : List (String × Val)) :
    d.applyVal inputs o (PArg.full nn eq) = d.applyVal inputs o (PArg.bare nn) := by
  cases d with
  | id => rfl
  | affine a b =>
    simp only [TDesc.needsEq, Bool.or_eq_false_iff] at h
    simp only [TDesc.applyVal, coef_factors a h.1, coef_factors b h.2]

/-- hence bare = full for every wrapper call of the family without `eq_params` -/
theorem pinnCall_family_bare_eq_full (eqT : EqType) (net : θ → Vec → Vec) (inT outT : TDesc)
    (hi : inT.needsEq = false) (ho : outT.needsEq = false)
    (sl : Option OutSlice) (args : List Val) (nn : θ) (eq : List (String × Val)) :
    pinnCall eqT net inT.applyIn outT.applyOut sl args (.bare nn)
      = pinnCall eqT net inT.applyIn outT.applyOut sl args (.full nn eq) := by
  unfold pinnCall
  cases callInputs eqT args with
  | error e => rfl
  | ok inputs =>
    simp only [bind, Except.bind]
    apply evalNN_bare_eq_full
    · intro i; simp only [TDesc.applyIn, family_factors_through_nn inT hi]
    · intro i o; simp only [TDesc.applyOut, family_factors_through_nn outT ho]

/-- what happens when a transform needs `eq_params` and only the bare parameters are given:
    the `AttributeError` of `params.eq_params` reaches the caller -/
theorem bare_rejected_when_eq_params_needed (net : θ → Vec → Vec) (k : String) (b : Coef)
    (outT : Vec → Val → PArg θ → Except String Val) (sl : Option OutSlice) (inputs : Vec) (nn : θ) :
    evalNN net (TDesc.affine (.eq k) b).applyIn outT sl inputs (.bare nn) = .error eAttr := by
  simp [evalNN, TDesc.applyIn, TDesc.applyVal, Coef.eval, PArg.eqParams, bind, Except.bind]

theorem bare_rejected_when_output_needs_eq (net : θ → Vec → Vec) (k : String) (b : Coef)
    (inT : Vec → PArg θ → Except String Vec) (sl : Option OutSlice) (inputs z : Vec) (nn : θ)
    (hz : inT inputs (.bare nn) = .ok z) :
    evalNN net inT (TDesc.affine (.eq k) b).applyOut sl inputs (.bare nn) = .error eAttr := by
  simp [evalNN, hz, TDesc.applyOut, TDesc.applyVal, Coef.eval, PArg.eqParams, bind, Except.bind]

/-! ### shared outputs -/

/-- **shared-output wrappers are `outSlice_k ∘ common`**: when the un-sliced wrapper returns a genuine
    vector `c`, the wrapper with `output_slice = s` returns `c[s]` (with its trailing axis). -/
theorem shared_is_slice_of_common (net : θ → Vec → Vec)
    (inT : Vec → PArg θ → Except String Vec) (outT : Vec → Val → PArg θ → Except String Val)
    (s : OutSlice) (inputs : Vec) (p : PArg θ) (c : Vec) (hc : 2 ≤ c.length)
    (h : evalNN net inT outT none inputs p = .ok c) :
    evalNN net inT outT (some s) inputs p = (applySlice (some s) (.vec c)).map ensureTrailingAxis := by
  rw [evalNN_eq_preSlice] at h ⊢
  cases hp : preSlice net inT outT inputs p with
  | error e => simp [hp, bind, Except.bind] at h
  | ok r =>
    simp [hp, applySlice, bind, Except.bind, pure, Except.pure] at h
    cases r with
    | scalar a => simp [ensureTrailingAxis] at h; subst h; simp at hc
    | vec w =>
      simp [ensureTrailingAxis] at h; subst h
      simp only [bind, Except.bind]
      cases applySlice (some s) (.vec w) <;> rfl

/-! ### negative indices and bounds: Python semantics, legal selections are never empty -/

theorem sliceFT_length (v : List α) (a b : Nat) (hb : b ≤ v.length) : (sliceFT v a b).length = b - a := by
  unfold sliceFT
  simp only [List.length_take, List.length_drop]
  omega

theorem normBound_le (n : Nat) (i : Int) : normBound n i ≤ n := by
  unfold normBound
  split <;> omega

/-- a slice with Python semantics has `stop − start` elements (bounds normalised and clamped) -/
theorem pySlice_length (v : List α) (a b : Option Int) :
    (pySlice v a b).length =
      (match b with | none => v.length | some b => normBound v.length b)
        - (match a with | none => 0 | some a => normBound v.length a) := by
  unfold pySlice
  apply sliceFT_length
  cases b with
  | none => exact Nat.le_refl _
  | some b => exact normBound_le _ _

/-- a legal integer index (`-n ≤ i < n`, negative = from the end) reads an existing component -/
theorem pyIndex_legal (v : List α) (i : Int) (h : -(v.length : Int) ≤ i ∧ i < (v.length : Int)) :
    ∃ r, pyIndex v i = some r := by
  unfold pyIndex
  by_cases h0 : 0 ≤ i
  · have : i.toNat < v.length := by omega
    exact ⟨v[i.toNat], by simp [h0, this]⟩
  · have h1 : -i ≤ (v.length : Int) := by omega
    have : (i + (v.length : Int)).toNat < v.length := by omega
    exact ⟨v[(i + (v.length : Int)).toNat], by simp [h0, h1, this]⟩

/-- `v[-1]` is the last component -/
theorem pyIndex_neg_one (v : List α) (h : v ≠ []) : pyIndex v (-1) = v.getLast? := by
  unfold pyIndex
  have hl : 0 < v.length := List.length_pos_iff.2 h
  have e : ((-1 : Int) + (v.length : Int)).toNat = v.length - 1 := by omega
  have h1 : -(-1 : Int) ≤ (v.length : Int) := by omega
  simp only [show ¬ (0 : Int) ≤ -1 by omega, if_false, h1, if_true, e]
  rw [List.getLast?_eq_getElem?]

/-- **a legal selection of existing components is never empty**: an integer index drops the axis and
    the forced trailing axis gives a length-one vector; a slice with `start < stop` keeps `stop − start
    ≥ 1` components. -/
theorem applySlice_legal_nonempty (s : OutSlice) (v : Vec) (h : s.legal v.length = true) :
    ∃ r, applySlice (some s) (.vec v) = .ok r ∧ 1 ≤ (ensureTrailingAxis r).length := by
  cases s with
  | index i =>
    simp only [OutSlice.legal, decide_eq_true_eq] at h
    obtain ⟨r, hr⟩ := pyIndex_legal v i h
    exact ⟨.scalar r, by simp [applySlice, hr], by simp [ensureTrailingAxis]⟩
  | range a b =>
    simp only [OutSlice.legal, decide_eq_true_eq] at h
    refine ⟨.vec (pySlice v a b), rfl, ?_⟩
    simp only [ensureTrailingAxis, pySlice_length]
    cases a <;> cases b <;> simp only [] at h ⊢ <;> omega

/-- … hence the wrapper's output has a component axis of length ≥ 1 whenever the un-sliced value is
    a vector and the slice designates existing components. -/
theorem evalNN_legal_selection_nonempty (net : θ → Vec → Vec) (inT : Vec → PArg θ → Except String Vec)
    (outT : Vec → Val → PArg θ → Except String Val) (s : OutSlice) (inputs : Vec) (p : PArg θ) (w : Vec)
    (hp : preSlice net inT outT inputs p = .ok (.vec w)) (hs : s.legal w.length = true) :
    ∃ v, evalNN net inT outT (some s) inputs p = .ok v ∧ 1 ≤ v.length := by
  obtain ⟨r, hr, hlen⟩ := applySlice_legal_nonempty s w hs
  refine ⟨ensureTrailingAxis r, ?_, hlen⟩
  rw [evalNN_eq_preSlice]
  simp [hp, hr, bind, Except.bind, pure, Except.pure]

/-! ### SPINN -/

theorem foldl_add_eq_sum {α : Type} (f : α → Rat) (l : List α) (a : Rat) :
    l.foldl (fun acc z => acc + f z) a = a + (l.map f).sum := by
  induction l generalizing a with
  | nil => simp
  | cons x xs ih => simp [List.foldl_cons, ih, add_assoc]

theorem foldl_mul_eq_prod {α : Type} (g : α → Rat) (l : List α) (a : Rat) :
    l.foldl (fun p row => p * g row) a = a * (l.map g).prod := by
  induction l generalizing a with
  | nil => simp
  | cons x xs ih => simp [List.foldl_cons, ih, mul_assoc]

/-- the einsum `"az, bz, … -> ab…"` at one index tuple is `Σ_z Π_k rows_k[z]` -/
theorem einsumEntry_eq_sum_prod (R : Nat) (rows : List Vec) :
    einsumEntry R rows = ((List.range R).map (fun z => (rows.map (fun row => row.getD z 0)).prod)).sum := by
  unfold einsumEntry
  rw [foldl_add_eq_sum (fun z => rows.foldl (fun p row => p * row.getD z 0) 1)]
  simp only [zero_add]
  congr 1
  apply List.map_congr_left
  intro z _
  have := foldl_mul_eq_prod (fun row : Vec => row.getD z 0) rows 1
  simp only [one_mul] at this
  exact this

theorem block_getD (R m z : Nat) (hz : z < R) (row : Vec) :
    (block R m row).getD z 0 = row.getD (m * R + z) 0 := by
  unfold block sliceFT
  have e : (m + 1) * R - m * R = R := by rw [Nat.add_mul]; omega
  rw [e]
  simp only [List.getD_eq_getElem?_getD, List.getElem?_take, List.getElem?_drop, hz, if_true]

/-- entry `[idx…, m]` of the SPINN output: output `m` reads features `m·R + r`, `r < R` -/
theorem spinnEntry_formula (R : Nat) (feat : List (List Vec)) (idx : List Nat) (m : Nat) :
    spinnEntry R feat idx m =
      ((List.range R).map (fun r =>
        ((List.range feat.length).map (fun k =>
          ((feat.getD k []).getD (idx.getD k 0) []).getD (m * R + r) 0)).prod)).sum := by
  unfold spinnEntry
  rw [einsumEntry_eq_sum_prod]
  congr 1
  apply List.map_congr_left
  intro z hz
  have hz' : z < R := List.mem_range.1 hz
  unfold selectRows
  simp only [List.map_map]
  congr 1
  apply List.map_congr_left
  intro k _
  simp only [Function.comp, block_getD R m z hz']

theorem spinnFeatures_getD (nets : List (List Layer)) (pts : List Vec) (k i : Nat)
    (hk : k < nets.length) (hi : i < pts.length) :
    ((spinnFeatures nets pts).getD k []).getD i [] = mlpEval (nets.getD k []) [(pts.getD i []).getD k 0] := by
  unfold spinnFeatures
  simp [List.getD_eq_getElem?_getD, hk, hi]

theorem spinnFeatures_length (nets : List (List Layer)) (pts : List Vec) :
    (spinnFeatures nets pts).length = nets.length := by
  simp [spinnFeatures]

/-- **the SPINN output is the tensor grid `Σ_{r<R} Π_{k<d} f_k(x_k[idx_k])[m·R + r]`**, for every number
    of dimensions, embedding size, output index and batch. -/
theorem spinnEntry_eq_gridFormula (R : Nat) (nets : List (List Layer)) (pts : List Vec) (idx : List Nat)
    (m : Nat) (hidx : ∀ k, k < nets.length → idx.getD k 0 < pts.length) :
    spinnEntry R (spinnFeatures nets pts) idx m =
      gridFormula R nets.length (fun k z => mlpEval (nets.getD k []) [z])
        (fun k i => (pts.getD i []).getD k 0) idx m := by
  rw [spinnEntry_formula, spinnFeatures_length]
  unfold gridFormula
  congr 1
  apply List.map_congr_left
  intro r _
  congr 1
  apply List.map_congr_left
  intro k hk
  have hk' := List.mem_range.1 hk
  rw [spinnFeatures_getD nets pts k _ hk' (hidx k hk')]

/-- output `m` depends only on the `m`-th block of `R` features -/
theorem spinnEntry_reads_only_block (R : Nat) (feat feat' : List (List Vec)) (idx : List Nat) (m : Nat)
    (hlen : feat.length = feat'.length)
    (h : ∀ k i j, m * R ≤ j → j < (m + 1) * R →
      ((feat.getD k []).getD i []).getD j 0 = ((feat'.getD k []).getD i []).getD j 0) :
    spinnEntry R feat idx m = spinnEntry R feat' idx m := by
  rw [spinnEntry_formula, spinnEntry_formula, hlen]
  congr 1
  apply List.map_congr_left
  intro r hr
  have hr' := List.mem_range.1 hr
  congr 1
  apply List.map_congr_left
  intro k _
  apply h
  · omega
  · rw [Nat.add_mul]; omega

/-- the result has the trailing output axis: shape `(n,)*d + (M,)`, rank `d + 1` — the
    `len(res.shape) == self.d` branch never fires -/
theorem spinnEval_shape (d n M : Nat) :
    spinnShape d n M = List.replicate d n ++ [M] ∧ (spinnShape d n M).length = d + 1 := by
  unfold spinnShape
  simp

theorem allIdx_length (d n : Nat) : (allIdx d n).length = n ^ d := by
  induction d with
  | zero => simp [allIdx]
  | succ d ih =>
    simp only [allIdx, List.length_flatMap, List.length_map, ih]
    rw [List.map_const', List.sum_replicate]
    simp [pow_succ, Nat.mul_comm]

theorem allIdx_mem (d n : Nat) (idx : List Nat) (h : idx ∈ allIdx d n) :
    idx.length = d ∧ ∀ k, k < d → idx.getD k 0 < n := by
  induction d generalizing idx with
  | zero => simp [allIdx] at h; subst h; simp
  | succ d ih =>
    simp only [allIdx, List.mem_flatMap, List.mem_range, List.mem_map] at h
    obtain ⟨i, hi, t, ht, rfl⟩ := h
    obtain ⟨hl, hb⟩ := ih t ht
    refine ⟨by simp [hl], ?_⟩
    intro k hk
    cases k with
    | zero => simpa using hi
    | succ k => simpa using hb k (by omega)

/-- the grid has `n^d` index tuples and one slot per declared output -/
theorem spinnEval_length (R M n : Nat) (feat : List (List Vec)) :
    (spinnEval R M n feat).length = n ^ feat.length ∧ ∀ row ∈ spinnEval R M n feat, row.length = M := by
  unfold spinnEval
  refine ⟨by simp [allIdx_length], ?_⟩
  intro row hrow
  simp only [List.mem_map] at hrow
  obtain ⟨idx, _, rfl⟩ := hrow
  simp

/-- a SPINN has no transform: bare and full parameters always agree -/
theorem spinnCall_bare_eq_full (eqT : EqType) (R M : Nat) (t : Option (List Vec)) (x : List Vec)
    (nets : List (List Layer)) (eq : List (String × Val)) :
    spinnCall eqT R M t x (.bare nets) = spinnCall eqT R M t x (.full nets eq) := rfl

/-! ### HYPERPINN: split at the cumulative sizes, in leaf order -/

/-- `onp.cumsum`: the `k`-th split point is the total size of leaves `0..k` -/
theorem cumsum_split_points (sizes : List Nat) (acc : Nat) :
    cumsumFrom acc sizes = (List.range sizes.length).map (fun k => acc + (sizes.take (k + 1)).sum) := by
  induction sizes generalizing acc with
  | nil => rfl
  | cons a as ih =>
    simp only [cumsumFrom, List.length_cons, List.range_succ_eq_map, List.map_cons, List.map_map]
    rw [ih]
    refine congrArg₂ List.cons (by simp) ?_
    apply List.map_congr_left
    intro k _
    simp only [Function.comp, List.take_succ_cons, List.sum_cons]
    omega

theorem cumsumFrom_length (sizes : List Nat) (acc : Nat) : (cumsumFrom acc sizes).length = sizes.length := by
  induction sizes generalizing acc with
  | nil => rfl
  | cons a as ih => simp [cumsumFrom, ih]

theorem sliceFT_append_mid (pre d tl : Vec) :
    sliceFT (pre ++ d ++ tl) pre.length (pre.length + d.length) = d := by
  unfold sliceFT
  have : pre.length + d.length - pre.length = d.length := by omega
  rw [this, List.append_assoc, List.drop_left, List.take_left]

/-- `jnp.split` at `cumsum[:-1]` of the piece sizes cuts a concatenation back into its pieces
    (generalised to any offset `pre`). -/
theorem splitFrom_cumsum (d : Vec) (ds : List Vec) (pre : Vec) :
    splitFrom (pre ++ d ++ ds.flatten) pre.length
      (cumsumFrom pre.length (d.length :: ds.map List.length)).dropLast = d :: ds := by
  induction ds generalizing d pre with
  | nil =>
    simp [cumsumFrom, splitFrom]
  | cons d2 ds ih =>
    have hne : cumsumFrom (pre.length + d.length) (d2.length :: ds.map List.length) ≠ [] := by
      simp [cumsumFrom]
    simp only [List.map_cons]
    rw [cumsumFrom, List.dropLast_cons_of_ne_nil hne, splitFrom]
    congr 1
    · rw [List.flatten_cons]
      exact sliceFT_append_mid pre d _
    · have := ih d2 (pre ++ d)
      simp only [List.length_append] at this
      rw [List.flatten_cons, ← List.append_assoc (pre ++ d)]
      exact this

/-- **the split points are the cumulative sizes**: `jnp.split` at `cumsum[:-1]` of the piece sizes
    cuts a concatenation back into its pieces, for every non-empty list of pieces. -/
theorem jnpSplit_at_cumsum (pieces : List Vec) (hne : pieces ≠ []) :
    jnpSplit pieces.flatten (cumsumFrom 0 (pieces.map List.length)).dropLast = pieces := by
  cases pieces with
  | nil => exact absurd rfl hne
  | cons d ds =>
    have := splitFrom_cumsum d ds []
    simpa [jnpSplit] using this

theorem reshapeAll_ok (leaves : List Leaf) (hwf : ∀ l ∈ leaves, l.wf = true) :
    reshapeAll (leaves.map (·.shape)) (leaves.map (·.data)) = .ok leaves := by
  induction leaves with
  | nil => rfl
  | cons l ls ih =>
    have hl : l.data.length = l.shape.prod := by
      have := hwf l (List.mem_cons_self); simpa [Leaf.wf] using this
    have := ih (fun x hx => hwf x (List.mem_cons_of_mem _ hx))
    simp [reshapeAll, reshape, hl, this, bind, Except.bind, pure, Except.pure]

/-- **round trip**: for every list of leaves, `_hyper_to_pinn` applied to the concatenation of the
    flattened leaves (in leaf order) returns the leaves. -/
theorem hyperToPinn_roundtrip (leaves : List Leaf) (hne : leaves ≠ []) (hwf : ∀ l ∈ leaves, l.wf = true) :
    hyperToPinn (leaves.map (·.shape)) (leaves.flatMap (·.data)) = .ok leaves := by
  unfold hyperToPinn paramNb
  have hsz : (leaves.map (·.shape)).map List.prod = (leaves.map (·.data)).map List.length := by
    simp only [List.map_map]
    apply List.map_congr_left
    intro l hl
    have := hwf l hl
    simp [Leaf.wf] at this
    simp [Function.comp, this]
  rw [hsz, List.flatMap_def, jnpSplit_at_cumsum _ (by simpa using hne)]
  exact reshapeAll_ok leaves hwf

theorem splitInLeafOrder_shapes (shapes : List (List Nat)) (flat : Vec) :
    (splitInLeafOrder shapes flat).map (·.shape) = shapes := by
  induction shapes generalizing flat with
  | nil => rfl
  | cons s ss ih => simp [splitInLeafOrder, ih]

theorem splitInLeafOrder_data (shapes : List (List Nat)) (flat : Vec)
    (h : flat.length = (shapes.map List.prod).sum) :
    (splitInLeafOrder shapes flat).flatMap (·.data) = flat := by
  induction shapes generalizing flat with
  | nil => simp at h; simp [splitInLeafOrder, h]
  | cons s ss ih =>
    simp only [splitInLeafOrder, List.flatMap_cons]
    rw [ih (flat.drop s.prod) (by simp at h; simp; omega)]
    exact List.take_append_drop _ _

theorem splitInLeafOrder_wf (shapes : List (List Nat)) (flat : Vec)
    (h : flat.length = (shapes.map List.prod).sum) :
    ∀ l ∈ splitInLeafOrder shapes flat, l.wf = true := by
  induction shapes generalizing flat with
  | nil => simp [splitInLeafOrder]
  | cons s ss ih =>
    intro l hl
    simp only [splitInLeafOrder, List.mem_cons] at hl
    simp at h
    rcases hl with rfl | hl
    · simp [Leaf.wf]; omega
    · exact ih (flat.drop s.prod) (by simp; omega) l hl

/-- The hyper-network's output is split **in parameter-leaf order**: leaf `k` receives the next
    `prod shape_k` entries (whenever the output has the size `_get_param_nb` announced). -/
theorem hyperToPinn_eq_splitInLeafOrder (shapes : List (List Nat)) (flat : Vec) (hne : shapes ≠ [])
    (h : flat.length = (shapes.map List.prod).sum) :
    hyperToPinn shapes flat = .ok (splitInLeafOrder shapes flat) := by
  have := hyperToPinn_roundtrip (splitInLeafOrder shapes flat)
    (by intro hn; apply hne; rw [← splitInLeafOrder_shapes shapes flat, hn]; rfl)
    (splitInLeafOrder_wf shapes flat h)
  rwa [splitInLeafOrder_shapes, splitInLeafOrder_data shapes flat h] at this

/-- row-major reshape: the rows of `W`, flattened, reshape to `W` -/
theorem toMatrix_flatten (W : List Vec) (n : Nat) (h : ∀ row ∈ W, row.length = n) :
    toMatrix W.length n W.flatten = W := by
  induction W with
  | nil => rfl
  | cons row rest ih =>
    have hrow : row.length = n := h row List.mem_cons_self
    have ih' := ih (fun r hr => h r (List.mem_cons_of_mem _ hr))
    unfold toMatrix at ih' ⊢
    simp only [List.length_cons, List.range_succ_eq_map, List.map_cons, List.map_map, List.flatten_cons]
    refine congrArg₂ List.cons ?_ ?_
    · simp [← hrow]
    · conv => rhs; rw [← ih']
      apply List.map_congr_left
      intro i _
      simp only [Function.comp]
      have e : (i + 1) * n = row.length + i * n := by rw [Nat.add_mul, hrow]; omega
      rw [e, ← List.drop_drop, List.drop_left]

theorem flatten_length_of_rows (W : List Vec) (n : Nat) (h : ∀ row ∈ W, row.length = n) :
    W.flatten.length = W.length * n := by
  induction W with
  | nil => simp
  | cons row rest ih =>
    simp only [List.flatten_cons, List.length_append, List.length_cons]
    rw [ih (fun r hr => h r (List.mem_cons_of_mem _ hr)), h row List.mem_cons_self, Nat.add_mul]
    omega

theorem Layer.wf_linear {W : List Vec} {b : Vec} (h : (Layer.linear W b).wf = true) :
    W.length = b.length ∧ ∀ row ∈ W, row.length = (W.headD []).length := by
  simp only [Layer.wf, Bool.and_eq_true, beq_iff_eq, List.all_eq_true] at h
  exact h

/-- `eqx.combine` of the leaves of a network with its architecture gives the network back -/
theorem build_leavesOf (ls : List Layer) (h : ∀ l ∈ ls, l.wf = true) :
    build (ls.map Layer.spec) (leavesOf ls) = ls := by
  induction ls with
  | nil => rfl
  | cons l ls ih =>
    have ih' := ih (fun x hx => h x (List.mem_cons_of_mem _ hx))
    cases l with
    | act a => simp [Layer.spec, leavesOf, build, ih']
    | linear W b =>
      obtain ⟨h1, h2⟩ := Layer.wf_linear (h _ List.mem_cons_self)
      simp only [List.map_cons, Layer.spec, leavesOf, build, ih']
      rw [← h1, toMatrix_flatten W _ h2]

theorem leafShapes_spec (ls : List Layer) (h : ∀ l ∈ ls, l.wf = true) :
    leafShapes (ls.map Layer.spec) = (leavesOf ls).map (·.shape) := by
  induction ls with
  | nil => rfl
  | cons l ls ih =>
    have ih' := ih (fun x hx => h x (List.mem_cons_of_mem _ hx))
    cases l with
    | act a => simp [Layer.spec, leavesOf, leafShapes, ih']
    | linear W b =>
      obtain ⟨h1, _⟩ := Layer.wf_linear (h _ List.mem_cons_self)
      simp [Layer.spec, leavesOf, leafShapes, ih', h1]

theorem leavesOf_wf (ls : List Layer) (h : ∀ l ∈ ls, l.wf = true) : ∀ l ∈ leavesOf ls, l.wf = true := by
  induction ls with
  | nil => simp [leavesOf]
  | cons l ls ih =>
    have ih' := ih (fun x hx => h x (List.mem_cons_of_mem _ hx))
    cases l with
    | act a => simpa [leavesOf] using ih'
    | linear W b =>
      obtain ⟨_, h2⟩ := Layer.wf_linear (h _ List.mem_cons_self)
      intro x hx
      simp only [leavesOf, List.mem_cons] at hx
      rcases hx with rfl | rfl | hx
      · simp [Leaf.wf, flatten_length_of_rows W _ h2]
      · simp [Leaf.wf]
      · exact ih' x hx

/-- **The inner network is evaluated with the weights the hyper-network produced, read in
    parameter-leaf order**: if the hyper-network outputs the concatenation of the flattened leaves of
    `inner`, the HYPERPINN evaluates as the PINN around `inner`. -/
theorem hyperEvalNN_uses_leaf_order_weights (hyperparams : List String) (inner : List Layer)
    (hwf : ∀ l ∈ inner, l.wf = true) (hne : leavesOf inner ≠ [])
    (inT : Vec → PArg (List Layer) → Except String Vec)
    (outT : Vec → Val → PArg (List Layer) → Except String Val)
    (sl : Option OutSlice) (inputs : Vec) (hyperNet : List Layer) (eq : List (String × Val)) (hin : Vec)
    (h1 : hyperInput eq hyperparams = .ok hin)
    (h2 : mlpEval hyperNet hin = (leavesOf inner).flatMap (·.data)) :
    hyperEvalNN hyperparams (inner.map Layer.spec) inT outT sl inputs (.full hyperNet eq)
      = evalNN (fun _ z => mlpEval inner z) inT outT sl inputs (.full hyperNet eq) := by
  unfold hyperEvalNN
  simp only [PArg.eqParams, PArg.nn, h1, h2, bind, Except.bind, leafShapes_spec inner hwf,
    hyperToPinn_roundtrip (leavesOf inner) hne (leavesOf_wf inner hwf)]
  simp only [build_leavesOf inner hwf]

/-- the hyper-network input is the concatenation of the flattened designated parameters **in
    `hyperparams` list order** -/
theorem hyperInput_list_order (eq : List (String × Val)) (ks : List String) (f : String → Val)
    (h : ∀ k ∈ ks, lookupEq eq k = .ok (f k)) :
    hyperInput eq ks = .ok (ks.flatMap (fun k => (f k).flat)) := by
  induction ks with
  | nil => rfl
  | cons k ks ih =>
    have := ih (fun x hx => h x (List.mem_cons_of_mem _ hx))
    simp [hyperInput, h k List.mem_cons_self, this, bind, Except.bind, pure, Except.pure]

/-- a hyper-network needs `eq_params`: with bare parameters the `AttributeError` reaches the caller -/
theorem hyper_bare_rejected (hyperparams : List String) (innerSpec : List LayerSpec)
    (inT : Vec → PArg (List Layer) → Except String Vec)
    (outT : Vec → Val → PArg (List Layer) → Except String Val)
    (sl : Option OutSlice) (inputs : Vec) (nn : List Layer) :
    hyperEvalNN hyperparams innerSpec inT outT sl inputs (.bare nn) = .error eAttr := rfl

/-! ### the model's own trace satisfies `Holds.C10` -/


theorem firstSome_eq_none (l : List (Option String)) : firstSome l = none ↔ ∀ x ∈ l, x = none := by
  induction l with
  | nil => simp [firstSome]
  | cons a as ih =>
    cases a with
    | none => simp [firstSome, ih]
    | some s => simp [firstSome]

theorem checkValue_resObs (r m : Except String Vec) (h : ∀ v, r = .ok v → m = .ok v) :
    checkValue r (resObs m) = none := by
  cases r with
  | error e => rfl
  | ok v => rw [h v rfl]; simp [checkValue, resObs]

theorem mem_pairs {α : Type} (l : List α) (a b : α) (h : (a, b) ∈ pairs l) : a ∈ l ∧ b ∈ l := by
  induction l with
  | nil => simp [pairs] at h
  | cons x xs ih =>
    simp only [pairs, List.mem_append, List.mem_map] at h
    rcases h with ⟨y, hy, hxy⟩ | h
    · cases hxy; exact ⟨List.mem_cons_self, List.mem_cons_of_mem _ hy⟩
    · obtain ⟨h1, h2⟩ := ih h
      exact ⟨List.mem_cons_of_mem _ h1, List.mem_cons_of_mem _ h2⟩

theorem mem_zip_map_self {α β : Type} (l : List α) (f : α → β) (x : α × β) (h : x ∈ l.zip (l.map f)) :
    x.1 ∈ l ∧ x.2 = f x.1 := by
  induction l with
  | nil => simp at h
  | cons a as ih =>
    simp only [List.map_cons, List.zip_cons_cons, List.mem_cons] at h
    rcases h with rfl | h
    · exact ⟨List.mem_cons_self, rfl⟩
    · exact ⟨List.mem_cons_of_mem _ (ih h).1, (ih h).2⟩

/-- the three laws a convention `ref` must satisfy for its own trace to pass `holdsWrapper` -/
structure RefLaws (eqT : EqType) (bareAllowed : Bool)
    (ref : List Val → Bool → Option OutSlice → Except String Vec) : Prop where
  shared : ∀ args bare s c, ref args bare none = .ok c → 2 ≤ c.length →
    ref args bare (some s) = (applySlice (some s) (.vec c)).map ensureTrailingAxis
  sameInputs : ∀ a b i bare sl, callInputs eqT a = .ok i → callInputs eqT b = .ok i →
    ref a bare sl = ref b bare sl
  bareOk : bareAllowed = true → ∀ args sl, ref args true sl = ref args false sl

/-- a trace computed by `ref` (that agrees with the convention `spec` wherever `spec` defines a value
    and satisfies the three laws) passes `holdsWrapper` -/
theorem holdsWrapper_of_laws (eqT : EqType) (bareAllowed : Bool) (slices : List (Option OutSlice))
    (shared : Bool) (spec ref : List Val → Bool → Option OutSlice → Except String Vec)
    (sound : ∀ args bare sl v, spec args bare sl = .ok v → ref args bare sl = .ok v)
    (laws : RefLaws eqT bareAllowed ref) (calls : List (List Val × Bool)) :
    holdsWrapper eqT bareAllowed slices spec
      (calls.map (fun c => modelRec slices shared ref c.1 c.2)) = none := by
  unfold holdsWrapper
  rw [firstSome_eq_none]
  intro x hx
  simp only [List.mem_append, List.mem_map] at hx
  rcases hx with ((⟨c, ⟨ab, _, rfl⟩, rfl⟩ | ⟨c, ⟨ab, _, rfl⟩, rfl⟩) | ⟨c, ⟨ab, _, rfl⟩, rfl⟩) | ⟨pr, hpr, rfl⟩
  · -- value clause
    simp only [modelRec, List.length_map, bne_self_eq_false, Bool.false_eq_true, if_false]
    rw [firstSome_eq_none]
    intro y hy
    simp only [List.mem_map] at hy
    obtain ⟨⟨sl, o⟩, hmem, rfl⟩ := hy
    obtain ⟨_, ho⟩ := mem_zip_map_self _ _ _ hmem
    simp only at ho
    subst ho
    exact checkValue_resObs _ _ (sound _ _ _)
  · -- common wrapper
    simp only [modelRec]
    cases shared with
    | false => rfl
    | true => exact checkValue_resObs _ _ (sound _ _ _)
  · -- shared outputs are slices of the common wrapper
    simp only [checkShared, modelRec]
    cases shared with
    | false => rfl
    | true =>
      simp only [if_true]
      cases hr : ref ab.1 ab.2 none with
      | error e => rfl
      | ok cv =>
        simp only [resObs]
        by_cases hlen : cv.length < 2
        · simp [hlen]
        · simp only [hlen, decide_false, bne_self_eq_false, Bool.or_self, Bool.false_eq_true, if_false]
          rw [firstSome_eq_none]
          intro y hy
          simp only [List.mem_map] at hy
          obtain ⟨⟨sl, o⟩, hmem, rfl⟩ := hy
          obtain ⟨_, ho⟩ := mem_zip_map_self _ _ _ hmem
          simp only at ho
          subst ho
          cases sl with
          | none => rfl
          | some s =>
            simp only
            rw [laws.shared ab.1 ab.2 s cv hr (by omega)]
            cases applySlice (some s) (.vec cv) with
            | error e => rfl
            | ok r => simp [Except.map]
  · -- pairs of calls
    obtain ⟨a, b⟩ := pr
    obtain ⟨ha, hb⟩ := mem_pairs _ _ _ hpr
    simp only [List.mem_map] at ha hb
    obtain ⟨ca, _, rfl⟩ := ha
    obtain ⟨cb, _, rfl⟩ := hb
    simp only [checkPair, modelRec]
    cases hia : callInputs eqT ca.1 with
    | error e => rfl
    | ok ia =>
      cases hib : callInputs eqT cb.1 with
      | error e => rfl
      | ok ib =>
        simp only
        by_cases hne : ia = ib
        · subst hne
          simp only [bne_self_eq_false, Bool.false_eq_true, if_false]
          by_cases hbare : ca.2 = cb.2
          · have key : ∀ sl, ref ca.1 ca.2 sl = ref cb.1 cb.2 sl := by
              intro sl; rw [← hbare]; exact laws.sameInputs _ _ _ _ _ hia hib
            have houts : slices.map (fun sl => resObs (ref ca.1 ca.2 sl))
                = slices.map (fun sl => resObs (ref cb.1 cb.2 sl)) := by
              apply List.map_congr_left; intro sl _; rw [key]
            simp only [houts]
            simp [hbare]
          · have hb' : (ca.2 == cb.2) = false := by simpa using hbare
            simp only [hb', Bool.false_eq_true, if_false]
            by_cases hba : bareAllowed = true
            · have key : ∀ sl, ref ca.1 ca.2 sl = ref cb.1 cb.2 sl := by
                intro sl
                have h1 := laws.sameInputs ca.1 cb.1 ia
                have h2 := laws.bareOk hba
                cases hca : ca.2 <;> cases hcb : cb.2
                · exact absurd (hca.trans hcb.symm) hbare
                · rw [h2 cb.1 sl]; exact h1 _ _ hia hib
                · rw [h2 ca.1 sl]; exact h1 _ _ hia hib
                · exact absurd (hca.trans hcb.symm) hbare
              have houts : slices.map (fun sl => resObs (ref ca.1 ca.2 sl))
                  = slices.map (fun sl => resObs (ref cb.1 cb.2 sl)) := by
                apply List.map_congr_left; intro sl _; rw [key]
              simp only [houts]
              simp [hba]
            · simp [hba]
        · have : (ia != ib) = true := by simpa using hne
          simp [this]



theorem pinnCall_shared {θ : Type} (eqT : EqType) (net : θ → Vec → Vec)
    (inT : Vec → PArg θ → Except String Vec) (outT : Vec → Val → PArg θ → Except String Val)
    (s : OutSlice) (args : List Val) (p : PArg θ) (c : Vec) (hc : 2 ≤ c.length)
    (h : pinnCall eqT net inT outT none args p = .ok c) :
    pinnCall eqT net inT outT (some s) args p = (applySlice (some s) (.vec c)).map ensureTrailingAxis := by
  unfold pinnCall at h ⊢
  cases hi : callInputs eqT args with
  | error e => simp [hi, bind, Except.bind] at h
  | ok inputs =>
    simp only [hi, bind, Except.bind] at h ⊢
    exact shared_is_slice_of_common net inT outT s inputs p c hc h

theorem refPinn_laws (eqT : EqType) (net : List Layer) (inT outT : TDesc) (eq : List (String × Val)) :
    RefLaws eqT (!inT.needsEq && !outT.needsEq) (refPinn eqT net inT outT eq) where
  shared := by
    intro args bare s c h hc
    exact pinnCall_shared eqT _ _ _ s args _ c hc h
  sameInputs := by
    intro a b i bare sl ha hb
    simp only [refPinn, pinnCall, ha, hb]
  bareOk := by
    intro h args sl
    simp only [Bool.and_eq_true, Bool.not_eq_true'] at h
    simp only [refPinn, if_true, Bool.false_eq_true, if_false]
    exact pinnCall_family_bare_eq_full eqT _ inT outT h.1 h.2 sl args net eq

/-- **the PINN model satisfies `Holds.C10`** on every configuration and every list of calls -/
theorem holdsC10_model_pinn (eqT : EqType) (net : List Layer) (inT outT : TDesc) (eq : List (String × Val))
    (slices : List (Option OutSlice)) (shared : Bool) (calls : List (List Val × Bool)) :
    holdsWrapper eqT (!inT.needsEq && !outT.needsEq) slices (refPinn eqT net inT outT eq)
      (calls.map (fun c => modelRec slices shared (refPinn eqT net inT outT eq) c.1 c.2)) = none :=
  holdsWrapper_of_laws eqT _ slices shared _ _ (fun _ _ _ _ h => h) (refPinn_laws eqT net inT outT eq) calls

/-- whenever the convention (`refHyper`: weights split in leaf order) defines a value, the model of
    the code (`jnp.split` at `cumsum[:-1]`, reshape, combine) returns it -/
theorem refHyper_eq_model (eqT : EqType) (hyperparams : List String) (hyperNet : List Layer)
    (innerSpec : List LayerSpec) (hne : leafShapes innerSpec ≠ []) (inT outT : TDesc) (eq : List (String × Val))
    (args : List Val) (bare : Bool) (sl : Option OutSlice) (v : Vec)
    (h : refHyper eqT hyperparams hyperNet innerSpec inT outT eq args bare sl = .ok v) :
    modelHyper eqT hyperparams hyperNet innerSpec inT outT eq args bare sl = .ok v := by
  unfold refHyper at h
  unfold modelHyper hyperCall hyperEvalNN
  cases bare with
  | true => simp [bind, Except.bind, throw, throwThe, MonadExceptOf.throw] at h
  | false =>
    simp only [Bool.false_eq_true, if_false] at h ⊢
    cases hh : hyperInput eq hyperparams with
    | error e => simp [hh, bind, Except.bind] at h
    | ok hin =>
      by_cases hsz : (mlpEval hyperNet hin).length = ((leafShapes innerSpec).map List.prod).sum
      · simp only [hh, hsz, bne_self_eq_false, bind, Except.bind,
          Bool.false_eq_true, if_false] at h
        unfold pinnCall at h
        cases hi : callInputs eqT args with
        | error e => simp [hi, bind, Except.bind] at h
        | ok inputs =>
          simp only [hi, bind, Except.bind] at h
          simp only [PArg.eqParams, PArg.nn, hh, bind, Except.bind,
            hyperToPinn_eq_splitInLeafOrder _ _ hne hsz]
          exact h
      · have : ((mlpEval hyperNet hin).length != ((leafShapes innerSpec).map List.prod).sum) = true := by
          simpa using hsz
        simp [hh, this, bind, Except.bind, throw, throwThe, MonadExceptOf.throw] at h

theorem modelHyper_laws (eqT : EqType) (hyperparams : List String) (hyperNet : List Layer)
    (innerSpec : List LayerSpec) (inT outT : TDesc) (eq : List (String × Val)) :
    RefLaws eqT false (modelHyper eqT hyperparams hyperNet innerSpec inT outT eq) where
  shared := by
    intro args bare s c h hc
    unfold modelHyper hyperCall hyperEvalNN at h ⊢
    cases hi : callInputs eqT args with
    | error e => simp [hi, bind, Except.bind] at h
    | ok inputs =>
      simp only [hi, bind, Except.bind] at h ⊢
      cases he : (if bare = true then PArg.bare hyperNet else PArg.full hyperNet eq).eqParams with
      | error e => simp [he] at h
      | ok eqv =>
        simp only [he] at h ⊢
        cases hh : hyperInput eqv hyperparams with
        | error e => simp [hh] at h
        | ok hin =>
          simp only [hh] at h ⊢
          cases ht : hyperToPinn (leafShapes innerSpec)
              (mlpEval (if bare = true then PArg.bare hyperNet else PArg.full hyperNet eq).nn hin) with
          | error e => simp [ht] at h
          | ok leaves =>
            simp only [ht] at h ⊢
            exact shared_is_slice_of_common _ _ _ s inputs _ c hc h
  sameInputs := by
    intro a b i bare sl ha hb
    simp only [modelHyper, hyperCall, ha, hb]
  bareOk := by intro h; cases h

/-- **the HYPERPINN model satisfies `Holds.C10`** -/
theorem holdsC10_model_hyper (eqT : EqType) (hyperparams : List String) (hyperNet : List Layer)
    (innerSpec : List LayerSpec) (hne : leafShapes innerSpec ≠ []) (inT outT : TDesc)
    (eq : List (String × Val)) (slices : List (Option OutSlice)) (shared : Bool)
    (calls : List (List Val × Bool)) :
    holdsWrapper eqT false slices (refHyper eqT hyperparams hyperNet innerSpec inT outT eq)
      (calls.map (fun c => modelRec slices shared
        (modelHyper eqT hyperparams hyperNet innerSpec inT outT eq) c.1 c.2)) = none :=
  holdsWrapper_of_laws eqT false slices shared _ _
    (fun args bare sl v h => refHyper_eq_model eqT hyperparams hyperNet innerSpec hne inT outT eq args bare sl v h)
    (modelHyper_laws eqT hyperparams hyperNet innerSpec inT outT eq) calls

theorem spinnCall_bare_irrelevant (eqT : EqType) (R M : Nat) (t : Option (List Vec)) (x : List Vec)
    (nets : List (List Layer)) (b : Bool) :
    spinnCall eqT R M t x (if b then .bare nets else .full nets []) = spinnCall eqT R M t x (.full nets []) := by
  cases b <;> rfl

/-- **the SPINN model satisfies `Holds.C10`**: its output is the tensor grid of `gridFormula`, of
    shape `(n,)*d + (M,)`, and does not depend on how the parameters are passed -/
theorem holdsC10_model_spinn (eqT : EqType) (R M : Nat) (nets : List (List Layer))
    (calls : List (Option (List Vec) × List Vec × Bool)) :
    holdsSpinn eqT R M nets (calls.map (modelSpinnRec eqT R M nets)) = none := by
  unfold holdsSpinn
  rw [firstSome_eq_none]
  intro y hy
  simp only [List.mem_append, List.mem_map] at hy
  rcases hy with ⟨c, ⟨ab, _, rfl⟩, rfl⟩ | ⟨pr, hpr, rfl⟩
  · simp only [checkSpinnCall, modelSpinnRec, spinnCall_bare_irrelevant]
    cases hp : spinnPoints eqT ab.1 ab.2.1 with
    | error e => rfl
    | ok pts =>
      simp only [spinnCall, hp, bind, Except.bind, pure, Except.pure, PArg.nn]
      have hs : spinnShape nets.length pts.length M = List.replicate nets.length pts.length ++ [M] := by
        simp [spinnShape]
      simp only [hs, bne_self_eq_false, Bool.false_eq_true, if_false]
      have : (spinnEval R M pts.length (spinnFeatures nets pts)).flatten =
          (allIdx nets.length pts.length).flatMap (fun idx => (List.range M).map (fun m =>
            gridFormula R nets.length (fun k z => mlpEval (nets.getD k []) [z])
              (fun k i => (pts.getD i []).getD k 0) idx m)) := by
        unfold spinnEval
        rw [spinnFeatures_length, List.flatMap_def]
        congr 1
        apply List.map_congr_left
        intro idx hidx
        apply List.map_congr_left
        intro m _
        exact spinnEntry_eq_gridFormula R nets pts idx m (allIdx_mem _ _ idx hidx).2
      simp [this]
  · obtain ⟨a, b⟩ := pr
    obtain ⟨ha, hb⟩ := mem_pairs _ _ _ hpr
    simp only [List.mem_map] at ha hb
    obtain ⟨ca, _, rfl⟩ := ha
    obtain ⟨cb, _, rfl⟩ := hb
    simp only [modelSpinnRec, spinnCall_bare_irrelevant]
    by_cases h1 : ca.1 = cb.1
    · by_cases h2 : ca.2.1 = cb.2.1
      · simp [h1, h2]
      · simp [h2]
    · simp [h1]

/-! ## non-vacuity: concrete, non-trivial instances of the hypotheses and of the statements -/

def exNet : List Layer := [.linear [[1, -1], [2, 0]] [0, 1], .act .relu]
def exEq : List (String × Val) := [("b", .scalar 0), ("g", .vec [1, 2])]
/-- `inputs * 2 + eq_params["b"]` -/
def exIn : TDesc := .affine (.const 2) (.eq "b")
/-- `inputs * eq_params["b"] + eq_params["b"]` -/
def exIn2 : TDesc := .affine (.eq "b") (.eq "b")
/-- `o * eq_params["g"] + inputs[0]` -/
def exOut : TDesc := .affine (.eq "g") (.inp 0)
def exFeat : List (List Vec) := [[[1, 2, 3, 4], [0, 1, 0, 1]], [[2, 0, 1, 1], [1, 1, 1, 1]]]
def exFeat' : List (List Vec) := [[[7, 7, 3, 4], [7, 7, 0, 1]], [[7, 7, 1, 1], [7, 7, 1, 1]]]
def exLeaves : List Leaf := [⟨[2, 1], [1, 2]⟩, ⟨[2], [3, 4]⟩]
def exInner : List Layer := [.linear [[1], [2]] [3, 4]]
/-- a hyper-network whose output is the constant `[1, 2, 3, 4]` -/
def exHyper : List Layer := [.linear [[0], [0], [0], [0]] [1, 2, 3, 4]]

section
local macro "ex_eval" : tactic => `(tactic| (
  have hs : ("g" == "b") = false := by decide
  norm_num [hs, exIn, exOut, exEq, exNet, exInner, exHyper, evalNN, pinnCall, callInputs, mlpEval, Layer.apply, dot,
    Act.apply, TDesc.applyIn, TDesc.applyOut, TDesc.applyVal, Coef.eval, PArg.eqParams, PArg.nn, lookupEq,
    List.lookup, bop, squeeze, applySlice, pySlice, pyIndex, normBound, sliceFT, ensureTrailingAxis, bind, Except.bind, pure, Except.pure,
    Val.flat, Except.map]))

-- hypotheses of `evalNN_composition` (a transform pair that reads `eq_params` and an input coordinate)
example : exIn.applyIn [3/2, 1] (PArg.full exNet exEq) = .ok [3, 2] := by ex_eval
example : exOut.applyOut [3/2, 1] (squeeze (mlpEval exNet [3, 2])) (PArg.full exNet exEq)
    = .ok (.vec [5/2, 31/2]) := by ex_eval
-- … and its conclusion on that instance, with an integer slice: the component axis is restored
example : evalNN (fun θ z => mlpEval θ z) exIn.applyIn exOut.applyOut (some (.index (-1))) [3/2, 1]
    (.full exNet exEq) = .ok [31/2] := by ex_eval
-- hypotheses of `shared_is_slice_of_common` / `evalNN_has_component_axis`
example : evalNN (fun θ z => mlpEval θ z) exIn.applyIn exOut.applyOut none [3/2, 1]
    (.full exNet exEq) = .ok [5/2, 31/2] := by ex_eval
example : (applySlice (some (.range (some 1) (some 2))) (.vec [5/2, 31/2])).map ensureTrailingAxis = .ok [31/2] := by
  rfl
-- negative index / bounds: the last component, with its axis
example : (applySlice (some (.index (-1))) (.vec [5/2, 31/2])).map ensureTrailingAxis = .ok [31/2] := by
  rfl
example : pySlice [10, 11, 12] (some (-2)) (some (-1)) = [11] ∧ pySlice [10, 11, 12] none (some (-1)) = [10, 11]
    ∧ pySlice [10, 11, 12] (some (-1)) none = [12] ∧ pySlice [10, 11, 12] (some (-1)) (some 0) = ([] : List Nat) := by
  decide
example : (OutSlice.index (-1)).legal 3 = true ∧ (OutSlice.range (some (-1)) none).legal 3 = true
    ∧ (OutSlice.range (some (-1)) (some 0)).legal 3 = false := by decide
-- `evalNN_one_output`: a one-output network, squeezed to a 0-d array, comes back with its axis
example : mlpEval exInner [1/2] = [7/2, 5] := by ex_eval
example : mlpEval [.linear [[2, 1]] [1]] [1, 1] = [4] := by ex_eval
-- a transform that needs `eq_params`, called with the bare parameters
example : evalNN (fun θ z => mlpEval θ z) exIn2.applyIn exOut.applyOut none [3/2, 1] (.bare exNet)
    = .error eAttr := bare_rejected_when_eq_params_needed _ "b" (.eq "b") _ _ _ _
-- scalar and length-one time, bare parameters
example : pinnCall .ode (fun θ z => mlpEval θ z) TDesc.id.applyIn TDesc.id.applyOut none [.scalar (1/2)]
    (.bare exInner) = .ok [7/2, 5] := by ex_eval
end

-- `family_factors_through_nn`: transforms of the family that do not read `eq_params`
example : (TDesc.affine (.const 2) (.inp 0)).needsEq = false ∧ TDesc.id.needsEq = false ∧ exIn.needsEq = true :=
  ⟨rfl, rfl, rfl⟩

-- SPINN: `spinnEntry_eq_gridFormula` (index tuples of the grid are in range), `spinnEntry_reads_only_block`
example : ∀ k, k < 2 → ([1, 0] : List Nat).getD k 0 < 2 := by decide
example : [1, 0] ∈ allIdx 2 2 := by decide
example : spinnEntry 2 exFeat [1, 0] 1 = 1 := by
  norm_num [spinnEntry, einsumEntry, selectRows, block, sliceFT, exFeat, List.range_succ]
example : spinnEntry 2 exFeat [1, 0] 1 = spinnEntry 2 exFeat' [1, 0] 1 := by
  norm_num [spinnEntry, einsumEntry, selectRows, block, sliceFT, exFeat, exFeat', List.range_succ]
example : spinnShape 3 4 2 = [4, 4, 4, 2] := by decide

-- HYPERPINN: leaves of different shapes (a `(2, 1)` weight then a `(2,)` bias)
example : exLeaves ≠ [] ∧ ∀ l ∈ exLeaves, l.wf = true := by decide
example : hyperToPinn [[2, 1], [2]] [1, 2, 3, 4] = .ok exLeaves := by rfl
example : (paramNb [[2, 1], [2]]).2.dropLast = [2] := by decide
example : leavesOf exInner = exLeaves ∧ (∀ l ∈ exInner, l.wf = true) ∧ leavesOf exInner ≠ [] := by decide
example : toMatrix 2 2 [1, 2, 3, 4] = [[1, 2], [3, 4]] := by rfl
example : hyperInput exEq ["g", "b"] = .ok [1, 2, 0] := by
  have hs : ("g" == "b") = false := by decide
  simp [hyperInput, exEq, lookupEq, List.lookup, hs, Val.flat, bind, Except.bind, pure, Except.pure]
example : mlpEval exHyper [0] = (leavesOf exInner).flatMap (·.data) := by
  norm_num [exHyper, exInner, leavesOf, mlpEval, Layer.apply, dot]
example : leafShapes (exInner.map Layer.spec) ≠ [] := by decide

end Jinns.Wrappers
