/-
C03 — Total loss is the sum of its terms; the dynamic term is the batch-mean residual MSE.
Property theorems about `JinnsModel/LossTerms.lean`, for every residual map, every weight
(scalar or per-component), every batch (any size, any point type) and every subset of configured
terms of the three losses.
-/
import JinnsModel.LossTerms
import JinnsModel.HoldsC03
import Mathlib.Tactic.Ring
import Mathlib.Tactic.FieldSimp
import Mathlib.Tactic.Linarith
import Mathlib.Tactic.NormNum
import Mathlib.Algebra.BigOperators.Group.List.Basic
import Mathlib.Algebra.BigOperators.Ring.List
import Mathlib.Algebra.Order.Field.Rat

namespace Jinns.LossTerms

/-! ### assembly: total = Σ terms, unconfigured ⇒ 0 -/

/-- "the returned value `v` of a term whose configuration is `x`": `0` when unconfigured, the
    term's own value when configured. -/
def Configured (x : Option ℚ) (v : ℚ) : Prop := (x = none → v = 0) ∧ (∀ a, x = some a → v = a)

theorem configured_getD (x : Option ℚ) : Configured x (x.getD 0) := by
  cases x <;> simp [Configured]

/-- **LossODE: total = dyn + initial condition + observations**, whatever is configured. -/
theorem evalODE_total_eq_sum (d i o : Option ℚ) : (evalODE d i o).1 = (evalODE d i o).2.sum := by
  simp [evalODE, OdeTerms.sum]

/-- **LossPDEStatio: total = sum of the five returned entries**, whatever is configured. -/
theorem evalStatio_total_eq_sum (d n b o : Option ℚ) :
    (evalStatio d n b o).1 = (evalStatio d n b o).2.sum := by
  simp [evalStatio, PdeTerms.sum]

/-- **LossPDENonStatio: total = sum of the five returned entries**, whatever is configured. -/
theorem evalNonStatio_total_eq_sum (d n b o i : Option ℚ) :
    (evalNonStatio d n b o i).1 = (evalNonStatio d n b o i).2.sum := by
  simp [evalNonStatio, evalStatio, PdeTerms.sum]

/-- every returned ODE term is its configured value, and exactly `0` when not configured -/
theorem evalODE_terms (d i o : Option ℚ) :
    Configured d (evalODE d i o).2.dyn ∧ Configured i (evalODE d i o).2.ic ∧
    Configured o (evalODE d i o).2.obs :=
  ⟨configured_getD d, configured_getD i, configured_getD o⟩

/-- every returned stationary term is its configured value, `0` when not configured; the
    `initial_condition` entry is always `0` -/
theorem evalStatio_terms (d n b o : Option ℚ) :
    Configured d (evalStatio d n b o).2.dyn ∧ Configured n (evalStatio d n b o).2.norm ∧
    Configured b (evalStatio d n b o).2.boundary ∧ Configured o (evalStatio d n b o).2.obs ∧
    (evalStatio d n b o).2.ic = 0 :=
  ⟨configured_getD d, configured_getD n, configured_getD b, configured_getD o, rfl⟩

theorem evalNonStatio_terms (d n b o i : Option ℚ) :
    Configured d (evalNonStatio d n b o i).2.dyn ∧ Configured n (evalNonStatio d n b o i).2.norm ∧
    Configured b (evalNonStatio d n b o i).2.boundary ∧ Configured o (evalNonStatio d n b o i).2.obs ∧
    Configured i (evalNonStatio d n b o i).2.ic :=
  ⟨configured_getD d, configured_getD n, configured_getD b, configured_getD o, configured_getD i⟩

/-- the non-stationary loss is the stationary one plus the initial-condition term -/
theorem evalNonStatio_delegates (d n b o i : Option ℚ) :
    (evalNonStatio d n b o i).1 = (evalStatio d n b o).1 + i.getD 0 ∧
    (evalNonStatio d n b o i).2 = { (evalStatio d n b o).2 with ic := i.getD 0 } := by
  simp [evalNonStatio]

/-! the same for the routed losses (any specification of every term, any batch) -/

theorem lossODE_total_eq_sum {T I κ : Type} [BEq κ] (dyn : Option (Weight × (T → List ℚ)))
    (ic : Option (ℚ × List (List ℚ) × List ℚ)) (obs : Option (ObsCfg I κ)) (ts : List T) :
    (lossODE dyn ic obs ts).1 = (lossODE dyn ic obs ts).2.sum :=
  evalODE_total_eq_sum _ _ _

theorem lossStatio_total_eq_sum {X S I κ : Type} [BEq κ] (dyn : Option (Weight × (X → List ℚ)))
    (norm : Option (ℚ × ℚ × Slice × (S → List ℚ) × List S)) (boundary : Option ℚ)
    (obs : Option (ObsCfg I κ)) (inside : List X) :
    (lossStatio dyn norm boundary obs inside).1 = (lossStatio dyn norm boundary obs inside).2.sum :=
  evalStatio_total_eq_sum _ _ _ _

theorem lossNonStatio_total_eq_sum {T X S I κ : Type} [BEq κ]
    (dyn : Option (Weight × (T × X → List ℚ)))
    (norm : Option (ℚ × ℚ × Slice × (T → S → List ℚ) × List S)) (boundary : Option ℚ)
    (obs : Option (ObsCfg I κ)) (ic : Option (Weight × (X → List ℚ) × (X → List ℚ)))
    (inside : List (T × X)) :
    (lossNonStatio dyn norm boundary obs ic inside).1 =
      (lossNonStatio dyn norm boundary obs ic inside).2.sum :=
  evalNonStatio_total_eq_sum _ _ _ _ _

/-- the `dyn_loss` entry of `LossODE` is `dynTerm` over the temporal batch (0 when there is no
    dynamic loss) -/
theorem lossODE_dyn {T I κ : Type} [BEq κ] (dyn : Option (Weight × (T → List ℚ)))
    (ic : Option (ℚ × List (List ℚ) × List ℚ)) (obs : Option (ObsCfg I κ)) (ts : List T) :
    (lossODE dyn ic obs ts).2.dyn =
      match dyn with
      | none => 0
      | some (w, r) => dynTerm w r ts := by
  cases dyn <;> simp [lossODE, evalODE]

theorem lossStatio_dyn {X S I κ : Type} [BEq κ] (dyn : Option (Weight × (X → List ℚ)))
    (norm : Option (ℚ × ℚ × Slice × (S → List ℚ) × List S)) (boundary : Option ℚ)
    (obs : Option (ObsCfg I κ)) (inside : List X) :
    (lossStatio dyn norm boundary obs inside).2.dyn =
      match dyn with
      | none => 0
      | some (w, r) => dynTerm w r inside := by
  cases dyn <;> simp [lossStatio, evalStatio]

theorem lossNonStatio_dyn {T X S I κ : Type} [BEq κ] (dyn : Option (Weight × (T × X → List ℚ)))
    (norm : Option (ℚ × ℚ × Slice × (T → S → List ℚ) × List S)) (boundary : Option ℚ)
    (obs : Option (ObsCfg I κ)) (ic : Option (Weight × (X → List ℚ) × (X → List ℚ)))
    (inside : List (T × X)) :
    (lossNonStatio dyn norm boundary obs ic inside).2.dyn =
      match dyn with
      | none => 0
      | some (w, r) => dynTerm w r inside := by
  cases dyn <;> simp [lossNonStatio, evalNonStatio, evalStatio]

/-! ### the dynamic term -/

theorem mean_map_mul_left {α : Type} (c : ℚ) (f : α → ℚ) (xs : List α) :
    mean (xs.map fun x => c * f x) = c * mean (xs.map f) := by
  simp only [mean, List.sum_map_mul_left, List.length_map, mul_div_assoc]

theorem mean_map_add {α : Type} (f g : α → ℚ) (xs : List α) :
    mean (xs.map fun x => f x + g x) = mean (xs.map f) + mean (xs.map g) := by
  simp only [mean, List.sum_map_add, List.length_map, add_div]

theorem wsq_vec_nil_left (r : List ℚ) : wsq (.vec []) r = 0 := by simp [wsq]

theorem wsq_vec_cons (w : ℚ) (ws : List ℚ) (a : ℚ) (r : List ℚ) :
    wsq (.vec (w :: ws)) (a :: r) = w * sqr a + wsq (.vec ws) r := by simp [wsq]

/-- closed form of one row: `Σ_{c < |r|} w_c · r_c²`, a scalar weight being broadcast -/
theorem wsq_eq_indexed (w : Weight) (r : List ℚ) :
    wsq w r = ((List.range r.length).map fun c => w.get c * sqr (r.getD c 0)).sum := by
  cases w with
  | scalar a =>
    induction r with
    | nil => simp [wsq]
    | cons x r ih =>
      simp only [wsq, List.map_cons, List.sum_cons, List.length_cons, List.range_succ_eq_map,
        List.map_map, Weight.get] at ih ⊢
      rw [ih]
      simp [Function.comp_def]
  | vec ws =>
    induction r generalizing ws with
    | nil => simp [wsq]
    | cons x r ih =>
      cases ws with
      | nil => simp [wsq, Weight.get]
      | cons w ws =>
        rw [wsq_vec_cons, ih ws]
        simp [List.range_succ_eq_map, Weight.get, Function.comp_def]

/-- **closed form of the dynamic term**: `(1/|xs|) Σ_{x ∈ xs} Σ_c w_c · r_c(x)²`. -/
theorem dynTerm_closed_form {α : Type} (w : Weight) (r : α → List ℚ) (xs : List α) :
    dynTerm w r xs =
      (xs.map fun x => ((List.range (r x).length).map fun c => w.get c * sqr ((r x).getD c 0)).sum).sum
        / (xs.length : ℚ) := by
  simp only [dynTerm, mean, List.length_map, wsq_eq_indexed]

theorem wsq_smul (c : ℚ) (w : Weight) (r : List ℚ) : wsq (w.smul c) r = c * wsq w r := by
  cases w with
  | scalar a =>
    simp only [Weight.smul, wsq, mul_assoc, List.sum_map_mul_left]
  | vec ws =>
    induction ws generalizing r with
    | nil => simp [Weight.smul, wsq]
    | cons w ws ih =>
      cases r with
      | nil => simp [Weight.smul, wsq]
      | cons x r =>
        have h := ih r
        simp only [Weight.smul, List.map_cons] at h ⊢
        rw [wsq_vec_cons, wsq_vec_cons, h]
        ring

/-- **homogeneity in the weight** (scalar or per-component): scaling the weight by `c` scales the
    dynamic term by `c`. -/
theorem dynTerm_smul {α : Type} (c : ℚ) (w : Weight) (r : α → List ℚ) (xs : List α) :
    dynTerm (w.smul c) r xs = c * dynTerm w r xs := by
  simp only [dynTerm, wsq_smul]
  exact mean_map_mul_left c _ xs

/-- **additivity in a scalar weight** -/
theorem dynTerm_add_scalar {α : Type} (a b : ℚ) (r : α → List ℚ) (xs : List α) :
    dynTerm (.scalar (a + b)) r xs = dynTerm (.scalar a) r xs + dynTerm (.scalar b) r xs := by
  have h : ∀ l : List ℚ, wsq (.scalar (a + b)) l = wsq (.scalar a) l + wsq (.scalar b) l := by
    intro l
    simp only [wsq, add_mul, List.sum_map_add]
  simp only [dynTerm, h]
  exact mean_map_add _ _ xs

theorem wsq_add_vec (a b : List ℚ) (h : a.length = b.length) (r : List ℚ) :
    wsq (.vec (List.zipWith (fun x y => x + y) a b)) r = wsq (.vec a) r + wsq (.vec b) r := by
  induction a generalizing b r with
  | nil =>
    cases b with
    | nil => simp [wsq]
    | cons y b => simp at h
  | cons x a ih =>
    cases b with
    | nil => simp at h
    | cons y b =>
      cases r with
      | nil => simp [wsq]
      | cons z r =>
        have hl : a.length = b.length := by simpa using h
        simp only [List.zipWith_cons_cons]
        rw [wsq_vec_cons, wsq_vec_cons, wsq_vec_cons, ih b hl r]
        ring

/-- **additivity in a per-component weight** -/
theorem dynTerm_add_vec {α : Type} (a b : List ℚ) (h : a.length = b.length) (r : α → List ℚ)
    (xs : List α) :
    dynTerm (.vec (List.zipWith (fun x y => x + y) a b)) r xs =
      dynTerm (.vec a) r xs + dynTerm (.vec b) r xs := by
  simp only [dynTerm, wsq_add_vec a b h]
  exact mean_map_add _ _ xs

/-- **permutation invariance**: any reordering of the batch leaves the dynamic term unchanged. -/
theorem dynTerm_perm {α : Type} (w : Weight) (r : α → List ℚ) {xs ys : List α} (h : xs.Perm ys) :
    dynTerm w r xs = dynTerm w r ys := by
  simp only [dynTerm, mean, List.length_map]
  rw [(h.map _).sum_eq, h.length_eq]

/-- **two halves**: on a batch made of two parts of equal size the dynamic term is the average of
    its values on the parts. -/
theorem dynTerm_halves {α : Type} (w : Weight) (r : α → List ℚ) (xs ys : List α)
    (h : xs.length = ys.length) :
    dynTerm w r (xs ++ ys) = (dynTerm w r xs + dynTerm w r ys) / 2 := by
  simp only [dynTerm, mean, List.map_append, List.sum_append, List.length_append, List.length_map,
    Nat.cast_add, h]
  have e : ((ys.length : ℚ) + (ys.length : ℚ)) = 2 * (ys.length : ℚ) := by ring
  rw [e, div_eq_mul_inv, mul_inv]
  ring

/-! ### means over blocks (used by C04 and C05) -/

theorem sum_flatMap {α : Type} (ts : List α) (g : α → List ℚ) :
    (ts.flatMap g).sum = (ts.map fun t => (g t).sum).sum := by
  induction ts with
  | nil => simp
  | cons t ts ih => simp [List.flatMap_cons, List.sum_append, ih]

theorem length_flatMap_const {α : Type} (ts : List α) (g : α → List ℚ) (n : Nat)
    (h : ∀ t, (g t).length = n) : (ts.flatMap g).length = ts.length * n := by
  induction ts with
  | nil => simp
  | cons t ts ih => simp [List.flatMap_cons, ih, h, Nat.add_mul, Nat.add_comm]

/-- the mean over blocks of equal length is the mean of the block means -/
theorem mean_flatMap_const {α : Type} (ts : List α) (g : α → List ℚ) (n : Nat)
    (h : ∀ t, (g t).length = n) :
    mean (ts.flatMap g) = mean (ts.map fun t => mean (g t)) := by
  unfold mean
  rw [sum_flatMap, length_flatMap_const ts g n h]
  simp only [List.length_map, h, Nat.cast_mul]
  have : (ts.map fun t => (g t).sum / (n : ℚ)) = ts.map fun t => (n : ℚ)⁻¹ * (g t).sum := by
    apply List.map_congr_left; intro t _; rw [div_eq_inv_mul]
  rw [this, List.sum_map_mul_left, div_eq_mul_inv, div_eq_mul_inv, mul_inv]
  ring

theorem mean_map_const {α : Type} (l : List α) (c : ℚ) (hl : l ≠ []) : mean (l.map fun _ => c) = c := by
  have hn : (l.length : ℚ) ≠ 0 := by
    have : l.length ≠ 0 := by simpa using hl
    exact_mod_cast this
  simp only [mean, List.map_const', List.sum_replicate, List.length_replicate, nsmul_eq_mul]
  field_simp

/-! ### the predicate `Holds.C03` states the same closed form -/

/-- a model weight as `Holds.C03` observes it -/
def toW03 : Weight → Jinns.Holds.W03
  | .scalar a => { scalar := some a, vec := [] }
  | .vec ws => { scalar := none, vec := ws }

/-- the closed form that `Holds.C03` compares the implementation's `dyn_loss` with, evaluated on
    the residual table `xs.map r`, is the model's dynamic term: the theorems above (homogeneity,
    additivity, permutation invariance, halves) are therefore statements about exactly the quantity
    the predicate checks. -/
theorem holds_closed_form_eq_dynTerm {α : Type} (w : Weight) (r : α → List ℚ) (xs : List α) :
    Jinns.Holds.c03Dyn (toW03 w) (xs.map r) = dynTerm w r xs := by
  have hrow : ∀ l : List ℚ, Jinns.Holds.c03Row (toW03 w) l = wsq w l := by
    intro l
    cases w with
    | scalar a => simp [Jinns.Holds.c03Row, toW03, wsq, sqr, List.sum_map_mul_left]
    | vec ws => simp [Jinns.Holds.c03Row, toW03, wsq, sqr]
  simp only [Jinns.Holds.c03Dyn, dynTerm, mean, List.map_map, List.length_map, Function.comp_def, hrow]

/-! ### non-vacuity -/

/-- a concrete two-component residual map on a three-point batch, per-component weight -/
example :
    dynTerm (.vec [2, 1/2]) (fun x : ℚ => [x, x + 1]) [1, 2, 3] = 85 / 6 := by
  norm_num [dynTerm, mean, wsq, sqr]

example : dynTerm (.scalar 3) (fun x : ℚ => [x, x + 1]) [1, 2, 3] = 43 := by
  norm_num [dynTerm, mean, wsq, sqr]

/-- the hypotheses of `dynTerm_perm`, `dynTerm_halves`, `dynTerm_add_vec` are met by non-trivial data -/
example : dynTerm (.vec [2, 3]) (fun n : Nat => [(n : ℚ), 1]) [1, 2, 3, 4] =
    dynTerm (.vec [2, 3]) (fun n : Nat => [(n : ℚ), 1]) [3, 1, 4, 2] :=
  dynTerm_perm _ _ (by decide)
example : ([1, 2] : List ℚ).length = ([3, 4] : List ℚ).length := rfl
example : dynTerm (.scalar 1) (fun x : ℚ => [x]) ([1, 2] ++ [3, 4]) = 15 / 2 := by
  norm_num [dynTerm, mean, wsq, sqr]

/-- the sum really distinguishes the configurations: a fully configured non-stationary loss -/
example : (evalNonStatio (some 1) (some 2) (some 3) (some 4) (some 5)).1 = 15 := by
  norm_num [evalNonStatio, evalStatio]
example : (evalNonStatio (some 1) none (some 3) none (some 5)).2.norm = 0 := by
  simp [evalNonStatio, evalStatio]

/-! ### separable networks (SPINN) with a dynamic loss -/

/-- total = sum of the returned entries for a stationary loss around a separable network -/
theorem lossStatioSpinnDyn_total_eq_sum (d : Nat) (dyn : Option (Weight × (List ℚ → List ℚ)))
    (norm : Option (ℚ × ℚ × (List ℚ → List ℚ) × List (List ℚ))) (boundary : Option ℚ)
    (inside : List (List ℚ)) :
    (lossStatioSpinnDyn d dyn norm boundary inside).1 = (lossStatioSpinnDyn d dyn norm boundary inside).2.sum :=
  evalStatio_total_eq_sum _ _ _ _

theorem lossNonStatioSpinnDyn_total_eq_sum (d : Nat) (dyn : Option (Weight × (List ℚ → List ℚ)))
    (norm : Option (ℚ × ℚ × (ℚ → List ℚ → List ℚ) × List (List ℚ))) (boundary : Option ℚ)
    (ic : Option (Weight × (List ℚ → List ℚ) × (List ℚ → List ℚ))) (inside : List (ℚ × List ℚ)) :
    (lossNonStatioSpinnDyn d dyn norm boundary ic inside).1 =
      (lossNonStatioSpinnDyn d dyn norm boundary ic inside).2.sum :=
  evalNonStatio_total_eq_sum _ _ _ _ _

/-- **the dynamic term of a separable network is the `dynTerm` of the residual over the tensor grid of
    the coordinate columns of the batch** (all `d`, all batch sizes), `0` when not configured -/
theorem lossStatioSpinnDyn_dyn (d : Nat) (dyn : Option (Weight × (List ℚ → List ℚ)))
    (norm : Option (ℚ × ℚ × (List ℚ → List ℚ) × List (List ℚ))) (boundary : Option ℚ)
    (inside : List (List ℚ)) :
    (lossStatioSpinnDyn d dyn norm boundary inside).2.dyn =
      match dyn with
      | none => 0
      | some (w, r) => dynTerm w r (gridPts d inside) := by
  cases dyn <;> simp [lossStatioSpinnDyn, evalStatio]

theorem lossNonStatioSpinnDyn_dyn (d : Nat) (dyn : Option (Weight × (List ℚ → List ℚ)))
    (norm : Option (ℚ × ℚ × (ℚ → List ℚ → List ℚ) × List (List ℚ))) (boundary : Option ℚ)
    (ic : Option (Weight × (List ℚ → List ℚ) × (List ℚ → List ℚ))) (inside : List (ℚ × List ℚ)) :
    (lossNonStatioSpinnDyn d dyn norm boundary ic inside).2.dyn =
      match dyn with
      | none => 0
      | some (w, r) => dynTerm w r (gridPts (d + 1) (inside.map fun tx => tx.1 :: tx.2)) := by
  cases dyn <;> simp [lossNonStatioSpinnDyn, evalNonStatio, evalStatio]

/-- without a dynamic loss the new functions are the ones C05 / C11 reason about -/
theorem lossStatioSpinnDyn_none (d : Nat)
    (norm : Option (ℚ × ℚ × (List ℚ → List ℚ) × List (List ℚ))) (boundary : Option ℚ)
    (inside : List (List ℚ)) :
    lossStatioSpinnDyn d none norm boundary inside = lossStatioSpinn d norm boundary := rfl

theorem lossNonStatioSpinnDyn_none (d : Nat)
    (norm : Option (ℚ × ℚ × (ℚ → List ℚ → List ℚ) × List (List ℚ))) (boundary : Option ℚ)
    (ic : Option (Weight × (List ℚ → List ℚ) × (List ℚ → List ℚ))) (inside : List (ℚ × List ℚ)) :
    lossNonStatioSpinnDyn d none norm boundary ic inside = lossNonStatioSpinn d norm boundary ic inside := rfl

/-- a 2-point batch in 2 coordinates is a 4-point grid: the mean runs over all four -/
example : gridPts 2 [[(1 : ℚ), 10], [2, 20]] = [[1, 10], [1, 20], [2, 10], [2, 20]] := by
  simp [gridPts, columns, cart, List.range_succ, List.flatMap]

example : (lossStatioSpinnDyn 2 (some (.scalar 1, fun p => [p.getD 0 0 + p.getD 1 0])) none none
    [[1, 10], [2, 20]]).2.dyn = (11 ^ 2 + 21 ^ 2 + 12 ^ 2 + 22 ^ 2) / 4 := by
  have h : gridPts 2 [[(1 : ℚ), 10], [2, 20]] = [[1, 10], [1, 20], [2, 10], [2, 20]] := by
    simp [gridPts, columns, cart, List.range_succ, List.flatMap]
  rw [lossStatioSpinnDyn_dyn]
  simp only [h]
  norm_num [dynTerm, mean, wsq, sqr]

end Jinns.LossTerms
