/-
C20 — loss evaluation and batch drawing are pure (frame, determinism, order independence).
Property theorems about `JinnsModel/Frame.lean`, for every loss kind (single and system), every
parameter dictionary, batch (with or without parameter / observation parts), configuration, generator
step function and history of calls.  Compilation invariance (eager = jit = primal of value_and_grad) is
runtime behaviour outside any single-semantics model: it is carried by the correspondence
(`harness/c20.py`: three execution modes against one exact model value), not by a theorem.
-/
import JinnsModel.Frame
import JinnsModel.HoldsC20
import Mathlib.Tactic.Ring
import Mathlib.Tactic.Linarith

namespace Jinns.Frame
open Jinns.ParamBatch Jinns.SystemLoss

/-! ### frame -/

def Op.functional : Op → Bool
  | .assign _ => false
  | _ => true

/-- once the local name has been re-bound, nothing it does can reach the caller's object -/
theorem run_caller_of_not_aliased (s : St) (prog : List Op) (h : s.aliased = false) :
    (run s prog).caller = s.caller ∧ (run s prog).aliased = false := by
  induction prog generalizing s with
  | nil => exact ⟨rfl, h⟩
  | cons o r ih =>
    cases o with
    | rebind rows =>
      have := ih (step s (.rebind rows)) (by simp [step])
      simpa [run, step] using this
    | assign rows =>
      have := ih (step s (.assign rows)) (by simp [step, h])
      simpa [run, step, h] using this
    | use => simpa [run, step] using ih s h

/-- **a body made of functional updates and pure uses leaves the caller's object untouched** -/
theorem run_functional (s : St) (prog : List Op) (h : ∀ o ∈ prog, o.functional = true) :
    (run s prog).caller = s.caller := by
  induction prog generalizing s with
  | nil => rfl
  | cons o r ih =>
    have hr : ∀ o ∈ r, o.functional = true := fun o' ho' => h o' (List.mem_cons_of_mem _ ho')
    cases o with
    | rebind rows =>
      have := (run_caller_of_not_aliased (step s (.rebind rows)) r (by simp [step])).1
      simpa [run, step] using this
    | assign rows => simpa [Op.functional] using h (.assign rows) List.mem_cons_self
    | use => simpa [run, step] using ih s hr

theorem optRebind_functional (pr : Option Rows) : ∀ o ∈ optRebind pr, o.functional = true := by
  cases pr <;> simp [optRebind, Op.functional]

theorem bodySingle_functional (pr orows : Option Rows) (b : Bool) :
    ∀ o ∈ bodySingle pr orows b, o.functional = true := by
  intro o ho
  simp only [bodySingle, List.mem_append] at ho
  rcases ho with (ho | ho) | ho
  · exact optRebind_functional pr o ho
  · simp at ho; subst ho; rfl
  · cases b <;> simp at ho
    rcases ho with rfl | rfl <;> rfl

theorem bodyNonStatio_functional (pr orows : Option Rows) (b : Bool) :
    ∀ o ∈ bodyNonStatio pr orows b, o.functional = true := by
  intro o ho
  simp only [bodyNonStatio, List.mem_append] at ho
  rcases ho with (ho | ho) | ho
  · exact optRebind_functional pr o ho
  · exact bodySingle_functional pr orows b o ho
  · simp at ho; subst ho; rfl

theorem bodySystem_functional (pr : Option Rows) (us : List (Option Rows × Bool)) (ns : Bool) :
    ∀ o ∈ bodySystem pr us ns, o.functional = true := by
  intro o ho
  simp only [bodySystem, List.mem_append, List.mem_flatMap] at ho
  rcases ho with (ho | ho) | ⟨u, _, ho⟩
  · exact optRebind_functional pr o ho
  · simp at ho; subst ho; rfl
  · cases ns
    · exact bodySingle_functional pr u.1 u.2 o (by simpa using ho)
    · exact bodyNonStatio_functional pr u.1 u.2 o (by simpa using ho)

theorem toParams_ofParams (p : Params) : toParams (ofParams p) = p := by
  simp only [toParams, ofParams, List.map_map]
  conv => rhs; rw [← List.map_id p]
  apply List.map_congr_left
  intro kv _; rfl

/-- **Frame, single losses** (`LossODE`, `LossPDEStatio`, `LossPDENonStatio`): the post-state of the
    caller's parameters is the pre-state, for every batch (with or without parameter / observation
    parts) and every configuration. -/
theorem evaluateSingle_frame (k : LossKind) (s : Single) (p : Params) :
    (evaluateSingle k s p).1 = p := by
  simp only [evaluateSingle]
  rw [run_functional, entry, toParams_ofParams]
  cases k <;> simp only [singleBody]
  · exact bodySingle_functional _ _ _
  · exact bodySingle_functional _ _ _
  · exact bodyNonStatio_functional _ _ _

/-- **Frame, system losses** (`SystemLossODE`, `SystemLossPDE`) -/
theorem evaluateSys_frame (S : Sys) (ns : Bool) (p : Params) : (evaluateSys S ns p).1 = p := by
  simp only [evaluateSys]
  rw [run_functional, entry, toParams_ofParams]
  exact bodySystem_functional _ _ _

/-- **Determinism**: equal arguments give equal results (and equal post-states) -/
theorem evaluateSingle_deterministic (k : LossKind) (s s' : Single) (p p' : Params)
    (hs : s = s') (hp : p = p') : evaluateSingle k s p = evaluateSingle k s' p' := by
  subst hs; subst hp; rfl

theorem evaluateSys_deterministic (S S' : Sys) (ns : Bool) (p p' : Params) (hS : S = S')
    (hp : p = p') : evaluateSys S ns p = evaluateSys S' ns p' := by
  subst hS; subst hp; rfl

/-- the value does not depend on the body's effects: evaluating twice gives the same value -/
theorem evaluateSingle_twice (k : LossKind) (s : Single) (p : Params) :
    (evaluateSingle k s (evaluateSingle k s p).1).2 = (evaluateSingle k s p).2 := by
  rw [evaluateSingle_frame]

theorem evaluateSys_twice (S : Sys) (ns : Bool) (p : Params) :
    (evaluateSys S ns (evaluateSys S ns p).1).2 = (evaluateSys S ns p).2 := by
  rw [evaluateSys_frame]

/-! ### any order, any repetition -/

theorem callOn_frame {R : Type} (f : Params → Params × R) (hf : ∀ p, (f p).1 = p)
    (store : List Params) (i : Nat) :
    callOn f store i = (store, store[i]?.map fun p => (f p).2) := by
  simp only [callOn]
  cases h : store[i]? with
  | none => rfl
  | some p =>
    simp only [hf, Option.map_some]
    congr 1
    apply List.ext_getElem?
    intro j
    by_cases hj : i = j
    · subst hj; simp [List.getElem?_set, h]
      exact (List.getElem?_eq_some_iff.1 h).1
    · simp [hj]

/-- **Any history of evaluations on shared parameter objects** (any order, any repetition) leaves
    every object as it was and returns, at every position, the value of that call on the original
    objects. -/
theorem runHistory_frame {R : Type} (fs : List (Params → Params × R))
    (hfs : ∀ f ∈ fs, ∀ p, (f p).1 = p) (store : List Params) (hist : List (Nat × Nat)) :
    runHistory fs store hist =
      (store, hist.map fun c => (fs[c.1]?).bind fun f => store[c.2]?.map fun p => (f p).2) := by
  induction hist with
  | nil => rfl
  | cons c r ih =>
    simp only [runHistory]
    cases hf : fs[c.1]? with
    | none => simp [ih, hf]
    | some f =>
      have hmem : f ∈ fs := List.mem_of_getElem? hf
      simp only [callOn_frame f (hfs f hmem), ih, List.map_cons, hf, Option.bind_some]

/-- permuting the history permutes the results and nothing else -/
theorem runHistory_perm {R : Type} (fs : List (Params → Params × R))
    (hfs : ∀ f ∈ fs, ∀ p, (f p).1 = p) (store : List Params) (h1 h2 : List (Nat × Nat))
    (hp : h1.Perm h2) :
    (runHistory fs store h1).1 = (runHistory fs store h2).1 ∧
    (runHistory fs store h1).2.Perm (runHistory fs store h2).2 := by
  rw [runHistory_frame fs hfs, runHistory_frame fs hfs]
  exact ⟨rfl, hp.map _⟩

/-! ### batch drawing -/

/-- **Frame, generators**: `get_batch` leaves `self` as it is -/
theorem getBatch_frame {σ β : Type} (step : σ → σ × β) (self : σ) : (getBatch step self).1 = self := rfl

/-- **Determinism**: drawing again from the same generator object returns the same new generator and
    the same batch -/
theorem getBatch_deterministic {σ β : Type} (step : σ → σ × β) (g g' : σ) (h : g = g') :
    (getBatch step g).2 = (getBatch step g').2 := by subst h; rfl

theorem getBatch_twice {σ β : Type} (step : σ → σ × β) (g : σ) :
    (getBatch step (getBatch step g).1).2 = (getBatch step g).2 := rfl

/-- chained draws compose: `m + n` draws = `m` draws, then `n` draws from the generator reached -/
theorem drawN_add {σ β : Type} (step : σ → σ × β) (g : σ) (m n : Nat) :
    drawN step g (m + n) =
      ((drawN step (drawN step g m).1 n).1, (drawN step g m).2 ++ (drawN step (drawN step g m).1 n).2) := by
  induction m generalizing g with
  | zero => simp [drawN]
  | succ m ih =>
    have : m + 1 + n = (m + n) + 1 := by omega
    rw [this]
    simp only [drawN, ih, List.cons_append]

end Jinns.Frame

namespace Jinns.Holds

/-! ### `Holds.C20` has a proved counterpart -/

theorem c20Scan_of_functional (g : Nat → String) (tr : List Rec20)
    (seen : List (Nat × String × String)) (hseen : ∀ s ∈ seen, s.2.2 = g s.1)
    (hframe : ∀ r ∈ tr, r.before = r.after) (hrej : ∀ r ∈ tr, r.rejected = false)
    (hres : ∀ r ∈ tr, r.result = g r.call) :
    c20Scan seen tr = none := by
  induction tr generalizing seen with
  | nil => rfl
  | cons r rs ih =>
    have hf : frameOk r = true := by simp [frameOk, hframe r List.mem_cons_self]
    have hrs_f : ∀ r' ∈ rs, r'.before = r'.after := fun r' h => hframe r' (List.mem_cons_of_mem _ h)
    have hrs_r : ∀ r' ∈ rs, r'.result = g r'.call := fun r' h => hres r' (List.mem_cons_of_mem _ h)
    have hrs_j : ∀ r' ∈ rs, r'.rejected = false := fun r' h => hrej r' (List.mem_cons_of_mem _ h)
    have hj : r.rejected = false := hrej r List.mem_cons_self
    simp only [c20Scan, hf, hj, Bool.not_true, Bool.false_eq_true, if_false]
    cases hfind : seen.find? (fun s => s.1 == r.call) with
    | none =>
      apply ih _ _ hrs_f hrs_j hrs_r
      intro s hs
      rcases List.mem_append.1 hs with hs | hs
      · exact hseen s hs
      · simp at hs; subst hs; exact hres r List.mem_cons_self
    | some s =>
      have hmem := List.mem_of_find?_eq_some hfind
      have hcall : s.1 = r.call := by simpa using List.find?_some hfind
      have : s.2.2 = r.result := by
        rw [hseen s hmem, hcall, hres r List.mem_cons_self]
      simp only [this, beq_self_eq_true, if_true]
      exact ih seen hseen hrs_f hrs_j hrs_r

/-- **Any history in which no call modifies its arguments and the returned value is a function of the
    call alone satisfies `Holds.C20`** (whatever the order, the repetitions and the execution modes). -/
theorem holdsC20_of_functional (g : Nat → String) (tr : List Rec20)
    (hframe : ∀ r ∈ tr, r.before = r.after) (hrej : ∀ r ∈ tr, r.rejected = false)
    (hres : ∀ r ∈ tr, r.result = g r.call) :
    holdsC20 tr = none :=
  c20Scan_of_functional g tr [] (by simp) hframe hrej hres

end Jinns.Holds

namespace Jinns.Frame
open Jinns.ParamBatch Jinns.SystemLoss Jinns.Holds

/-- the observable trace of a history of model evaluations: argument snapshots before / after, the
    value returned, the call identity `(which evaluation) * N + (which parameter object)` -/
def modelTrace {R : Type} (render : Params → String) (shw : Option R → String)
    (fs : List (Params → Params × R)) (N : Nat) :
    List Params → List ((Nat × Nat) × String) → List Rec20
  | _, [] => []
  | store, cm :: r =>
    let a : List Params × Option R := match fs[cm.1.1]? with
      | none => (store, none)
      | some f => callOn f store cm.1.2
    { call := cm.1.1 * N + cm.1.2, mode := cm.2, before := store.map render, after := a.1.map render,
      result := shw a.2, rejected := false } :: modelTrace render shw fs N a.1 r

/-- **`Holds.C20` is true of the model**: for every family of evaluations with the frame property
    (in particular `evaluateSingle k s` and `evaluateSys S ns`, by the frame theorems), every store of
    parameter objects, every history (any order, any repetition) and every assignment of execution
    modes. -/
theorem holdsC20_model {R : Type} (render : Params → String) (shw : Option R → String)
    (fs : List (Params → Params × R)) (hfs : ∀ f ∈ fs, ∀ p, (f p).1 = p) (store : List Params)
    (hist : List ((Nat × Nat) × String)) (hvalid : ∀ cm ∈ hist, cm.1.2 < store.length) :
    holdsC20 (modelTrace render shw fs store.length store hist) = none := by
  let g : Nat → String := fun n =>
    shw ((fs[n / store.length]?).bind fun f => store[n % store.length]?.map fun p => (f p).2)
  apply holdsC20_of_functional g
  all_goals
    induction hist with
    | nil => intro r hr; simp [modelTrace] at hr
    | cons cm rest ih =>
      have hlt := hvalid cm List.mem_cons_self
      have hpos : 0 < store.length := by omega
      have hdiv : (cm.1.1 * store.length + cm.1.2) / store.length = cm.1.1 := by
        rw [Nat.mul_comm, Nat.mul_add_div hpos, Nat.div_eq_of_lt hlt]; simp
      have hmod : (cm.1.1 * store.length + cm.1.2) % store.length = cm.1.2 := by
        rw [Nat.mul_comm, Nat.mul_add_mod, Nat.mod_eq_of_lt hlt]
      have hstep : (match fs[cm.1.1]? with
          | none => (store, (none : Option R))
          | some f => callOn f store cm.1.2) =
          (store, (fs[cm.1.1]?).bind fun f => store[cm.1.2]?.map fun p => (f p).2) := by
        cases hf : fs[cm.1.1]? with
        | none => rfl
        | some f => simp [callOn_frame f (hfs f (List.mem_of_getElem? hf))]
      intro r hr
      simp only [modelTrace, hstep, List.mem_cons] at hr
      rcases hr with rfl | hr
      · first
        | rfl
        | (simp only [g, hdiv, hmod])
      · exact ih (fun cm' h => hvalid cm' (List.mem_cons_of_mem _ h)) r hr

/-! ### non-vacuity -/

def p0 : Params := [("nu", [7]), ("a", [1, 2])]
def rows0 : Rows := [("nu", [[1], [2]])]

/-- **the in-place body is not functional, and it does modify the caller's dictionary**: the frame
    theorems distinguish the current code from the pre-fix `SystemLossPDE.evaluate` -/
example : toParams (run (entry p0) (bodySystemInPlace (some rows0) [(none, false)])).caller ≠ p0 := by
  decide

example : toParams (run (entry p0) (bodySystemInPlace (some rows0) [(none, false)])).caller =
    [("nu", [1, 2]), ("a", [1, 2])] := by decide

/-- the same batch through the functional body: untouched -/
example : toParams (run (entry p0) (bodySystem (some rows0) [(none, false)] false)).caller = p0 := by
  decide

/-- an in-place write *after* a functional update is harmless (it reaches the new object only) -/
example : toParams (run (entry p0) [Op.rebind rows0, Op.assign rows0]).caller = p0 := by decide

/-- a generator step for the examples: a cursor over a store of naturals -/
def stepEx (g : List Nat × Nat) : (List Nat × Nat) × List Nat := ((g.1, g.2 + 2), (g.1.drop g.2).take 2)

example : (getBatch stepEx ([5, 6, 7, 8], 0)).1 = ([5, 6, 7, 8], 0) ∧
    (getBatch stepEx ([5, 6, 7, 8], 0)).2 = (([5, 6, 7, 8], 2), [5, 6]) := by decide
example : (drawN stepEx ([5, 6, 7, 8], 0) 2).2 = [[5, 6], [7, 8]] := by decide

end Jinns.Frame
