/-
C19 for the built-in `ValidationLoss` — the full statement (`holdsC19VL_model`), completing
`holdsC19VL_model_partial` of `C19Holds.lean`.

`Holds.C19VL` re-derives the outcomes `(criterion, improved, stop)` of every invocation from the
observed criterion values by the wording of the property (`SolveAux.vlOutcomes`: improved = strict
new minimum among the non-NaN values, stop = early stopping on ∧ `patience ≤` length of the run of
non-improving invocations immediately before), whereas the model of `ValidationLoss` keeps a counter
and tests `counter == patience`.

Part A (pure, every list of possibly-NaN criterion values, every patience):
* `derImp_eq_model`        : the derived improvement flag is the model's;
* `vl_counter_trailingFalse` : the model's counter is `trailingFalse` of the derived flags;
* `vlOutcomes_eq_model`    : the derived outcome of invocation `q` is the model's, provided no earlier
  invocation requested a stop (the `≤` and `==` tests agree up to and including the first request).

Part B (the loop): `holdsC19VL_model_gen`, `holdsC19VL_model`, `holdsC19VL_model_driver`.
-/
import JinnsProofs.C19Holds

namespace Jinns.SolveFamily
open Jinns.Solve Jinns.Validation Jinns.SolveTrace Jinns.Holds

/-! ## Part A — the outcomes derived from the criteria are the model's -/

/-- the improvement flag that `SolveAux.vlOutcomes` derives for invocation `j` from the criterion
    values `vs`: not NaN, and strictly below every earlier non-NaN value -/
def derImp (vs : List Val) (j : Nat) : Bool :=
  match vs.getD j none with
  | none => false
  | some v => (vs.take j).all (fun x => match x with | none => true | some y => decide (v < y))

theorem vlOutcomes_def (patience : Nat) (early : Bool) (vs : List Val) :
    SolveAux.vlOutcomes patience early vs =
      (List.range vs.length).map (fun j =>
        (vs.getD j none, ((List.range vs.length).map (derImp vs)).getD j false,
          early && decide (patience ≤
            SolveAux.trailingFalse (((List.range vs.length).map (derImp vs)).take j)))) := rfl

/-- a NaN criterion leaves the stored best value unchanged: the best value after the values `l`
    is the one after the non-NaN values of `l` -/
theorem vlAfterV_best (s s' : VLCore) (l : List Val) (h : s.best = s'.best) :
    (vlAfterV s l).best = (vlAfter s' (l.filterMap id)).best := by
  induction l generalizing s s' with
  | nil => simpa [vlAfterV, vlAfter] using h
  | cons v l ih =>
    cases v with
    | none =>
      simp only [vlAfterV, List.filterMap_cons, id]
      exact ih _ _ (by simpa [vlNextV] using h)
    | some x =>
      simp only [vlAfterV, List.filterMap_cons, id, vlAfter]
      apply ih
      simp only [vlNextV, vlNext, vlImproved, h]
      by_cases hb : ltBest x s'.best = true <;> simp [hb]

/-- **Improvement iff strict new minimum among the non-NaN values** (NaN-aware form of
    `vl_improved_iff_strict_min`). -/
theorem vlV_improved_iff (l : List Val) (v : Rat) :
    vlImprovedV (vlAfterV vlInit l) (some v) = true ↔ ∀ y, some y ∈ l → v < y := by
  have hb := vlAfterV_best vlInit vlInit l rfl
  have h := vl_improved_iff_strict_min (l.filterMap id) v
  simp only [vlImprovedV, vlImproved] at h ⊢
  rw [hb, h]
  simp [List.mem_filterMap]

/-- the derived improvement flag is the model's -/
theorem derImp_eq_model (vs : List Val) (j : Nat) :
    derImp vs j = vlImprovedV (vlAfterV vlInit (vs.take j)) (vs.getD j none) := by
  unfold derImp
  cases hv : vs.getD j none with
  | none => rfl
  | some v =>
    show _ = vlImprovedV (vlAfterV vlInit (vs.take j)) (some v)
    cases hm : vlImprovedV (vlAfterV vlInit (vs.take j)) (some v) with
    | true =>
      have := (vlV_improved_iff (vs.take j) v).1 hm
      rw [List.all_eq_true]
      intro x hx
      cases x with
      | none => rfl
      | some y => simpa using this y hx
    | false =>
      rw [Bool.eq_false_iff]
      intro h2
      have : vlImprovedV (vlAfterV vlInit (vs.take j)) (some v) = true := by
        apply (vlV_improved_iff (vs.take j) v).2
        intro y hy
        have := (List.all_eq_true.1 h2) (some y) hy
        simpa using this
      rw [hm] at this; exact Bool.noConfusion this

theorem trailingFalse_snoc (l : List Bool) (b : Bool) :
    SolveAux.trailingFalse (l ++ [b]) = if b then 0 else SolveAux.trailingFalse l + 1 := by
  unfold SolveAux.trailingFalse
  cases b <;> simp

theorem vlNextV_counter (s : VLCore) (v : Val) :
    (vlNextV s v).counter = if vlImprovedV s v then 0 else s.counter + 1 := by
  cases v with
  | none => rfl
  | some x =>
    simp only [vlNextV, vlNext, vlImprovedV]
    by_cases hb : vlImproved s x = true <;> simp [hb]

theorem take_succ_getD {α : Type} (l : List α) (q : Nat) (d : α) (hq : q < l.length) :
    l.take (q + 1) = l.take q ++ [l.getD q d] := by
  rw [List.take_add_one, List.getD_eq_getElem?_getD, List.getElem?_eq_getElem hq]
  rfl

/-- **The counter of the model is the number of consecutive non-improving invocations
    immediately before**, in the form used by `Holds.C19VL`: `trailingFalse` of the derived flags. -/
theorem vl_counter_trailingFalse (vs : List Val) (q : Nat) (hq : q ≤ vs.length) :
    (vlAfterV vlInit (vs.take q)).counter =
      SolveAux.trailingFalse ((List.range q).map (derImp vs)) := by
  induction q with
  | zero => rfl
  | succ q ih =>
    rw [take_succ_getD vs q none (by omega), vlAfterV_snoc, vlNextV_counter, List.range_succ,
      List.map_append, List.map_cons, List.map_nil, trailingFalse_snoc, ← derImp_eq_model,
      ih (by omega)]

/-- the counter grows by at most one per invocation -/
theorem vl_counter_step_le (vs : List Val) (q : Nat) (hq : q < vs.length) :
    (vlAfterV vlInit (vs.take (q + 1))).counter ≤ (vlAfterV vlInit (vs.take q)).counter + 1 := by
  rw [take_succ_getD vs q none hq, vlAfterV_snoc, vlNextV_counter]
  split <;> omega

/-- as long as no invocation requested a stop, the counter has not exceeded the patience -/
theorem vl_counter_le_patience (patience : Nat) (vs : List Val) (q : Nat) (hq : q ≤ vs.length)
    (hns : ∀ q', q' < q → (vlAfterV vlInit (vs.take q')).counter ≠ patience) :
    (vlAfterV vlInit (vs.take q)).counter ≤ patience := by
  induction q with
  | zero => simp [vlAfterV, vlInit]
  | succ q ih =>
    have h1 := ih (by omega) (fun q' h => hns q' (by omega))
    have h2 := hns q (by omega)
    have h3 := vl_counter_step_le vs q (by omega)
    omega

theorem vlOutcomes_getD (patience : Nat) (early : Bool) (vs : List Val) (q : Nat)
    (hq : q < vs.length) :
    (SolveAux.vlOutcomes patience early vs).getD q (none, false, false) =
      (vs.getD q none, derImp vs q,
        early && decide (patience ≤ SolveAux.trailingFalse ((List.range q).map (derImp vs)))) := by
  rw [vlOutcomes_def, List.getD_eq_getElem?_getD, List.getElem?_map, List.getElem?_range hq]
  simp only [Option.map_some, Option.getD_some]
  have e1 : ((List.range vs.length).map (derImp vs)).getD q false = derImp vs q := by
    rw [List.getD_eq_getElem?_getD, List.getElem?_map, List.getElem?_range hq]; rfl
  have e2 : ((List.range vs.length).map (derImp vs)).take q = (List.range q).map (derImp vs) := by
    rw [← List.map_take, List.take_range, Nat.min_eq_left (by omega)]
  rw [e1, e2]

/-- **The outcomes that `Holds.C19VL` derives from the criterion values by the wording of the
    property are those of the model of `ValidationLoss`, up to and including the first stop
    request**: for every list of (possibly NaN) criterion values, patience, early-stopping switch
    and invocation `q` such that no earlier invocation of the model requested a stop. -/
theorem vlOutcomes_eq_model (patience : Nat) (early : Bool) (vs : List Val) (q : Nat)
    (hq : q < vs.length)
    (hns : ∀ q', q' < q → vlStop patience early (vlAfterV vlInit (vs.take q')) = false) :
    (SolveAux.vlOutcomes patience early vs).getD q (none, false, false) =
      (vs.getD q none, vlImprovedV (vlAfterV vlInit (vs.take q)) (vs.getD q none),
        vlStop patience early (vlAfterV vlInit (vs.take q))) := by
  rw [vlOutcomes_getD patience early vs q hq, derImp_eq_model,
    ← vl_counter_trailingFalse vs q (by omega)]
  congr 2
  unfold vlStop
  cases early with
  | false => simp
  | true =>
    have hle := vl_counter_le_patience patience vs q (by omega) (fun q' h => by
      have := hns q' h
      simpa [vlStop] using this)
    simp only [Bool.true_and, Bool.and_true]
    by_cases h : (vlAfterV vlInit (vs.take q)).counter = patience
    · simp [h]
    · have : ¬ patience ≤ (vlAfterV vlInit (vs.take q)).counter := by omega
      simp [h, this]

/-! ## Part B — the loop with the model of `ValidationLoss` -/

/-- the state of the model of `ValidationLoss` before its `q`-th invocation inside the loop -/
def vlStq (pg : Program) (c : Nat) (L : LossDef) (bs : List Batch) (q : Nat) : VState :=
  VState.vl ⟨q, vlCore pg c L bs q⟩

theorem vl_callEvery (pg : Program) (c : Nat) (L : LossDef) (bs : List Batch) (pat : Nat)
    (early : Bool) (hval : pg.val = some ⟨c, .vloss L bs pat early⟩) : pg.prog.callEvery = c := by
  simp [Program.prog, hval]

theorem vl_initVState (pg : Program) (c : Nat) (L : LossDef) (bs : List Batch) (pat : Nat)
    (early : Bool) (hval : pg.val = some ⟨c, .vloss L bs pat early⟩) :
    initVState pg.val = some (vlStq pg c L bs 0) := by
  simp [hval, initVState, vlStq, vlCore, vlAfterV]

theorem vl_validate (pg : Program) (c : Nat) (L : LossDef) (bs : List Batch) (pat : Nat)
    (early : Bool) (hval : pg.val = some ⟨c, .vloss L bs pat early⟩) (q : Nat) :
    pg.prog.validate (vlStq pg c L bs q) (θseq pg.prog pg.θ0 pg.opt0 (0 : Nat) (c * q + 1)) =
      { vs := vlStq pg c L bs (q + 1), stop := (vlOut pg c L bs pat early q).2.2,
        crit := (vlOut pg c L bs pat early q).1, improved := (vlOut pg c L bs pat early q).2.1 } := by
  have hnext : vlCore pg c L bs (q + 1) = vlNextV (vlCore pg c L bs q) (vlVal pg c L bs q) := by
    unfold vlCore
    rw [List.range_succ, List.map_append, List.map_cons, List.map_nil, vlAfterV_snoc]
  simp [Program.prog, hval, validateOf, VL.call, vlConf, vlOut, hnext, vlVal, vlStq]

theorem lt_mcount_of_mul_lt (c q K : Nat) (hc : 0 < c) (h : c * q < K) : q < mcount c K := by
  unfold mcount
  have : q + 1 ≤ (K + c - 1) / c := by
    rw [Nat.le_div_iff_mul_le hc]
    have e : (q + 1) * c = c * q + c := by rw [Nat.add_mul, Nat.one_mul, Nat.mul_comm]
    omega
  omega

theorem mul_lt_of_lt_mcount (c q K : Nat) (hc : 0 < c) (h : q < mcount c K) : c * q < K := by
  rcases Nat.lt_or_ge (c * q) K with h' | h'
  · exact h'
  · exfalso
    unfold mcount at h
    have : (K + c - 1) / c ≤ q := by
      have h2 : (K + c - 1) / c < q + 1 := by
        rw [Nat.div_lt_iff_lt_mul hc]
        have e : (q + 1) * c = c * q + c := by rw [Nat.add_mul, Nat.one_mul, Nat.mul_comm]
        omega
      omega
    omega

theorem take_eq_map_getD {α : Type} (l : List α) (J : Nat) (d : α) (hJ : J ≤ l.length) :
    l.take J = (List.range J).map (fun q => l.getD q d) := by
  apply List.ext_getElem?
  intro i
  by_cases hi : i < J
  · rw [List.getElem?_take_of_lt hi, List.getElem?_map, List.getElem?_range hi]
    simp [List.getD_eq_getElem?_getD, List.getElem?_eq_getElem (by omega : i < l.length)]
  · rw [List.getElem?_eq_none (by simp; omega), List.getElem?_eq_none (by simp; omega)]

/-- the batches the model of `ValidationLoss` draws from its own generators during `J` invocations -/
def vlDrawn (bs : List Batch) (J : Nat) : List Batch := (List.range J).map (fun q => bs.getD q ⟨[]⟩)

/-- the criteria the property prescribes for the invocations `calls`: the loss of the parameters
    each invocation received on the batch of the module's own generators (as in the driver) -/
def vlExpected (L : LossDef) (bs : List Batch) (calls : List Params) : List Val :=
  (List.range calls.length).map (fun q => lossTotal L (calls.getD q []) (bs.getD q ⟨[]⟩))

/-- **`Holds.C19VL` is satisfied by every model trace whose validation module is the model of
    `ValidationLoss`** (general form): every program, period `c ≥ 1`, patience, early-stopping
    switch, loss definition, validation batch stream and `n`; all parameters tracked; no NaN
    parameter value.  `vref` is any reference stream of validation batches whose first `J`
    (= number of invocations) entries are the batches drawn. -/
theorem holdsC19VL_model_gen (pg : Program) (gens : List (List String)) (c : Nat) (L : LossDef)
    (bs : List Batch) (pat : Nat) (early : Bool) (hval : pg.val = some ⟨c, .vloss L bs pat early⟩)
    (hc : 0 < c)
    (hnan : ∀ j, j ≤ pg.n → hasNaN (θseq pg.prog pg.θ0 pg.opt0 0 j) = false)
    (htrack : ∀ j, trackOf pg.spec (θseq pg.prog pg.θ0 pg.opt0 0 j) = θseq pg.prog pg.θ0 pg.opt0 0 j)
    (vref : List Batch)
    (hvref : vref.take (pg.solved.calls.map (·.2)).length =
      vlDrawn bs (pg.solved.calls.map (·.2)).length) :
    holdsC19VL c pg.n pg.n pg.θ0 pat early (vlExpected L bs (pg.solved.calls.map (·.2)))
      (vlDrawn bs (pg.solved.calls.map (·.2)).length) vref
      (pg.solved.calls.map (·.2)) false (modelObs pg gens pg.solved) = none := by
  have hce := vl_callEvery pg c L bs pat early hval
  have hinit := vl_initVState pg c L bs pat early hval
  have hvd := vl_validate pg c L bs pat early hval
  have hoA := outAt_sched pg.prog pg.θ0 pg.opt0 c (vlStq pg c L bs) (vlOut pg c L bs pat early)
    hce hc hvd
  -- the run is `K` unconditional iterations
  obtain ⟨K, hK, hcont, _, hs0⟩ := solve_is_iter pg.prog pg.n pg.θ0 pg.opt0 0 (some (vlStq pg c L bs 0))
  have hs : pg.solved = iter pg.prog K (init pg.prog pg.n pg.θ0 pg.opt0 0 (some (vlStq pg c L bs 0))) := by
    unfold Program.solved; rw [hinit]; exact hs0
  have hi : pg.solved.i = K := by rw [hs, iter_init_i]
  have hcalls : pg.solved.calls =
      (List.range (mcount c K)).map (fun q => (c * q, θseq pg.prog pg.θ0 pg.opt0 (0 : Nat) (c * q + 1))) := by
    rw [hs, validation_calls, callsRef_sched pg.prog pg.θ0 pg.opt0 c hce hc]
  have hcrit : pg.solved.critH =
      (List.range K).map (fun i => vlVal pg c L bs (i / c)) ++ List.replicate (pg.n - K) (some 0) := by
    rw [hs, crit_history pg.prog pg.n pg.θ0 pg.opt0 0 (vlStq pg c L bs 0) K hK, hce]
    congr 1
    apply List.map_congr_left
    intro i _
    have hdiv : i - i % c = c * (i / c) := by
      have := Nat.div_add_mod i c; omega
    rw [hdiv, hoA]; rfl
  have hvs : pg.solved.vs.isSome = true := by
    rw [hs, iter_init_vs]; rfl
  have hJ : (pg.solved.calls.map (·.2)).length = mcount c K := by simp [hcalls]
  have hcallget : ∀ q, q < mcount c K →
      (pg.solved.calls.map (·.2)).getD q [] = θseq pg.prog pg.θ0 pg.opt0 (0 : Nat) (c * q + 1) := by
    intro q hq
    rw [hcalls, List.getD_eq_getElem?_getD]
    simp [List.getElem?_range hq]
  -- no stop request before the last invocation made
  have hnostop : ∀ q, c * q + 1 < K → vlStop pat early (vlCore pg c L bs q) = false := by
    intro q hq
    have h1 := hcont (c * q + 1) hq
    rw [cont_iter] at h1
    have h2 : stopReq pg.prog pg.θ0 pg.opt0 (0 : Nat) (some (vlStq pg c L bs 0)) (c * q) = false := by
      cases hsr : stopReq pg.prog pg.θ0 pg.opt0 (0 : Nat) (some (vlStq pg c L bs 0)) (c * q) with
      | false => rfl
      | true => simp [hsr] at h1
    simp only [stopReq, hce, Nat.mul_mod_right, decide_true, Bool.true_and, hoA] at h2
    exact h2
  -- the criteria read off the history at the invocations
  have hcrits : (List.range (pg.solved.calls.map (·.2)).length).map
        (fun j => ((((modelObs pg gens pg.solved).critH.getD []))[c * j]?).getD none) =
      (List.range (mcount c K)).map (vlVal pg c L bs) := by
    rw [hJ]
    apply List.map_congr_left
    intro q hq
    have hq' := mul_lt_of_lt_mcount c q K hc (List.mem_range.1 hq)
    simp only [modelObs, hvs, if_true, Option.getD_some, hcrit]
    rw [List.getElem?_append_left (by simp; exact hq')]
    simp [List.getElem?_range hq', Nat.mul_div_cancel_left q hc]
  have hexp : vlExpected L bs (pg.solved.calls.map (·.2)) =
      (List.range (mcount c K)).map (vlVal pg c L bs) := by
    unfold vlExpected
    rw [hJ]
    apply List.map_congr_left
    intro q hq
    rw [hcallget q (List.mem_range.1 hq)]; rfl
  -- the derived outcomes are the model's on the invocations made
  have hlen : ((List.range (mcount c K)).map (vlVal pg c L bs)).length = mcount c K := by simp
  have htake : ∀ q, q ≤ mcount c K →
      ((List.range (mcount c K)).map (vlVal pg c L bs)).take q = (List.range q).map (vlVal pg c L bs) := by
    intro q hq
    rw [← List.map_take, List.take_range, Nat.min_eq_left hq]
  have houtc : ∀ q, c * q < pg.solved.i →
      (SolveAux.vlOutcomes pat early ((List.range (mcount c K)).map (vlVal pg c L bs))).getD q
        (none, false, false) = vlOut pg c L bs pat early q := by
    intro q hq
    rw [hi] at hq
    have hqJ := lt_mcount_of_mul_lt c q K hc hq
    rw [vlOutcomes_eq_model pat early _ q (by rw [hlen]; exact hqJ) (by
      intro q' hq'
      rw [htake q' (by omega)]
      apply hnostop q'
      have : c * (q' + 1) ≤ c * q := Nat.mul_le_mul_left c hq'
      have e : c * (q' + 1) = c * q' + c := by rw [Nat.mul_add, Nat.mul_one]
      omega)]
    rw [htake q (by omega)]
    have eg : ((List.range (mcount c K)).map (vlVal pg c L bs)).getD q none = vlVal pg c L bs q := by
      rw [List.getD_eq_getElem?_getD, List.getElem?_map, List.getElem?_range hqJ]; rfl
    rw [eg]; rfl
  -- assemble
  unfold holdsC19VL
  by_cases h0 : (pg.n == 0) = true
  · simp [h0]
  have hc0 : (c == 0) = false := by simp; omega
  simp only [h0, hc0, Bool.false_eq_true, if_false]
  rw [hcrits, hexp]
  have hff : SolveAux.firstFail
      [(vlDrawn bs (pg.solved.calls.map (·.2)).length == vref.take (pg.solved.calls.map (·.2)).length,
          "validation-draws-from-its-own-generators"),
        ((List.range (mcount c K)).map (vlVal pg c L bs) == (List.range (mcount c K)).map (vlVal pg c L bs),
          "criterion-is-the-loss-on-its-own-batch")] = none := by
    apply firstFail_all_true
    intro cl hcl
    simp only [List.mem_cons, List.mem_nil_iff, or_false] at hcl
    rcases hcl with rfl | rfl
    · show (_ == _) = true
      rw [hvref]; simp
    · simp
  rw [hff]
  exact holdsC19_model_sched_gen pg gens c (vlStq pg c L bs) (vlOut pg c L bs pat early) hce hc hvd
    hinit hnan htrack _ houtc

/-- **`Holds.C19VL` is satisfied by every model trace whose validation module is the model of
    `ValidationLoss`**: for every program of the exact family with such a module (period `c ≥ 1`,
    any patience, early stopping on or off, any loss definition and validation batches, any `n`),
    all parameters tracked and no NaN in the reference parameter sequence, the observation the
    model predicts satisfies `Holds.C19VL`, `expected` / `vbatches` being the criteria (loss of the
    parameters each invocation received on the batch of its own generators) and the validation
    batches of the model's own run. -/
theorem holdsC19VL_model (pg : Program) (gens : List (List String)) (c : Nat) (L : LossDef)
    (bs : List Batch) (pat : Nat) (early : Bool) (hval : pg.val = some ⟨c, .vloss L bs pat early⟩)
    (hc : 0 < c)
    (hnan : ∀ j, j ≤ pg.n → hasNaN (θseq pg.prog pg.θ0 pg.opt0 0 j) = false)
    (htrack : ∀ j, trackOf pg.spec (θseq pg.prog pg.θ0 pg.opt0 0 j) = θseq pg.prog pg.θ0 pg.opt0 0 j) :
    holdsC19VL c pg.n pg.n pg.θ0 pat early (vlExpected L bs (pg.solved.calls.map (·.2)))
      (vlDrawn bs (pg.solved.calls.map (·.2)).length) (vlDrawn bs (pg.solved.calls.map (·.2)).length)
      (pg.solved.calls.map (·.2)) false (modelObs pg gens pg.solved) = none :=
  holdsC19VL_model_gen pg gens c L bs pat early hval hc hnan htrack _
    (List.take_of_length_le (by simp [vlDrawn]))

/-- the same in the form evaluated by the driver (`SolveProto.holdsValidation`): the reference
    stream is the configured validation stream `bs` itself, when it is long enough for the
    invocations made (the harness records one validation batch per possible invocation) -/
theorem holdsC19VL_model_driver (pg : Program) (gens : List (List String)) (c : Nat) (L : LossDef)
    (bs : List Batch) (pat : Nat) (early : Bool) (hval : pg.val = some ⟨c, .vloss L bs pat early⟩)
    (hc : 0 < c)
    (hnan : ∀ j, j ≤ pg.n → hasNaN (θseq pg.prog pg.θ0 pg.opt0 0 j) = false)
    (htrack : ∀ j, trackOf pg.spec (θseq pg.prog pg.θ0 pg.opt0 0 j) = θseq pg.prog pg.θ0 pg.opt0 0 j)
    (hbs : (pg.solved.calls.map (·.2)).length ≤ bs.length) :
    holdsC19VL c pg.n pg.n pg.θ0 pat early (vlExpected L bs (pg.solved.calls.map (·.2)))
      (vlDrawn bs (pg.solved.calls.map (·.2)).length) bs
      (pg.solved.calls.map (·.2)) false (modelObs pg gens pg.solved) = none :=
  holdsC19VL_model_gen pg gens c L bs pat early hval hc hnan htrack bs
    (take_eq_map_getD bs _ ⟨[]⟩ hbs)

end Jinns.SolveFamily

/-! ### non-vacuity -/
namespace Jinns.SolveFamily
open Jinns.Solve Jinns.Validation Jinns.SolveTrace Jinns.Holds

/-- the hypothesis of `vlOutcomes_eq_model` on criteria 3, 1, NaN, 3 with patience 1: invocations
    0, 1, 2 of the model request no stop (counter 0, 0, 0), invocation 3 does (counter 1 after the
    NaN), and the derived outcomes are the model's there -/
example : ∀ q', q' < 3 →
    vlStop 1 true (vlAfterV vlInit (([some 3, some 1, none, some 3] : List Val).take q')) = false := by
  decide +kernel
example : vlStop 1 true (vlAfterV vlInit (([some 3, some 1, none, some 3] : List Val).take 3)) = true := by
  decide +kernel
example : (SolveAux.vlOutcomes 1 true [some 3, some 1, none, some 3]).map (·.2) =
    [(true, false), (true, false), (false, false), (false, true)] := by decide +kernel

/-- A program with one trainable (tracked) parameter `p`, training loss `p` (SGD, learning rate
    1/4: `p_j = 1 − j/4`), `n = 10`, and a `ValidationLoss` module of period 2, patience 1, early
    stopping on, whose loss is `p · Σ(batch)` on its own batches 4, 4, −8, −4, 1: the criteria of
    invocations 0…3 (parameters 3/4, 1/4, −1/4, −3/4) are 3, 1, 2, 3 — improvements at 0 and 1, a
    stop requested by invocation 3 (iteration 6), so 7 iterations run. -/
def exVLLoss : LossDef := { terms := [("val", [⟨1, [0], 1⟩])], mark := none, gradFault := [] }
def exVLBatches : List Batch := [⟨[[4]]⟩, ⟨[[4]]⟩, ⟨[[-8]]⟩, ⟨[[-4]]⟩, ⟨[[1]]⟩]

def exVL : Program :=
  { n := 10, θ0 := [[some 1]], opt0 := { count := 0, trace := [] },
    loss := { terms := [("dyn_loss", [⟨1, [0], 0⟩])], mark := none, gradFault := [] },
    opt := { lr0 := 1/4, bounds := [], momentum := none, nanAt := none, hasCount := false },
    spec := [some true],
    batches := [⟨[[0]]⟩, ⟨[[1]]⟩, ⟨[[2]]⟩, ⟨[[3]]⟩, ⟨[[4]]⟩, ⟨[[5]]⟩, ⟨[[6]]⟩, ⟨[[7]]⟩, ⟨[[8]]⟩, ⟨[[9]]⟩],
    val := some ⟨2, .vloss exVLLoss exVLBatches 1 true⟩ }

theorem exVL_step (x : Rat) (o : OptSt) (b : Batch) :
    ∃ y, (step exVL.loss exVL.opt [[some x]] o b).θ = [[some y]] := ⟨_, rfl⟩

theorem exVL_θ (j : Nat) : ∃ x, θseq exVL.prog exVL.θ0 exVL.opt0 (0 : Nat) j = [[some x]] := by
  induction j with
  | zero => exact ⟨1, rfl⟩
  | succ j ih =>
    obtain ⟨x, hx⟩ := ih
    unfold θseq at hx ⊢
    show ∃ y, (step exVL.loss exVL.opt (refLoop exVL.prog j _).θ _ _).θ = [[some y]]
    rw [hx]
    exact exVL_step x _ _

theorem exVL_nan (j : Nat) : hasNaN (θseq exVL.prog exVL.θ0 exVL.opt0 0 j) = false := by
  obtain ⟨x, hx⟩ := exVL_θ j
  rw [hx]; rfl

theorem exVL_track (j : Nat) :
    trackOf exVL.spec (θseq exVL.prog exVL.θ0 exVL.opt0 0 j) = θseq exVL.prog exVL.θ0 exVL.opt0 0 j := by
  obtain ⟨x, hx⟩ := exVL_θ j
  rw [hx]; rfl

/-- the run of the example: 7 iterations, invocations at iterations 0, 2, 4, 6, criteria 3, 1, 2, 3 -/
example : exVL.solved.i = 7 ∧ exVL.solved.calls.map (·.1) = [0, 2, 4, 6] ∧
    vlExpected exVLLoss exVLBatches (exVL.solved.calls.map (·.2)) =
      [some 3, some 1, some 2, some 3] := by decide +kernel

/-- the hypotheses of `holdsC19VL_model` / `holdsC19VL_model_driver` hold on it -/
example : holdsC19VL 2 10 10 [[some 1]] 1 true
    (vlExpected exVLLoss exVLBatches (exVL.solved.calls.map (·.2)))
    (vlDrawn exVLBatches (exVL.solved.calls.map (·.2)).length)
    (vlDrawn exVLBatches (exVL.solved.calls.map (·.2)).length)
    (exVL.solved.calls.map (·.2)) false (modelObs exVL [] exVL.solved) = none :=
  holdsC19VL_model exVL [] 2 _ _ 1 true rfl (by decide) (fun j _ => exVL_nan j) exVL_track

example : holdsC19VL 2 10 10 [[some 1]] 1 true
    (vlExpected exVLLoss exVLBatches (exVL.solved.calls.map (·.2)))
    (vlDrawn exVLBatches (exVL.solved.calls.map (·.2)).length)
    exVLBatches
    (exVL.solved.calls.map (·.2)) false (modelObs exVL [] exVL.solved) = none :=
  holdsC19VL_model_driver exVL [] 2 _ _ 1 true rfl (by decide) (fun j _ => exVL_nan j) exVL_track
    (by decide +kernel)

end Jinns.SolveFamily
