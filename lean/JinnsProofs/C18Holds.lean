/-
`Holds.C18` is satisfied by every model trace: for every program of the exact family (any loss
with its fault features, any optimizer configuration including the NaN-emitting transformation,
any tracking specification, batch stream and initial values — possibly already NaN) and every `n`,
the observation predicted by the model satisfies `Holds.C18` evaluated against the trace of the
textbook loop on the same program, provided no validation invocation requests a stop (in
particular without validation module).  Proof: `nan_stops_training`, `nan_initial_params`.
-/
import JinnsProofs.C18
import JinnsProofs.C07Holds
import JinnsModel.HoldsC18

namespace Jinns.SolveFamily
open Jinns.Solve Jinns.Validation Jinns.SolveTrace Jinns.Holds

theorem find_range_some (p : Nat → Bool) (n k : Nat) (h : (List.range n).find? p = some k) :
    k < n ∧ p k = true ∧ ∀ j, j < k → p j = false := by
  induction n with
  | zero => simp at h
  | succ n ih =>
    rw [List.range_succ, List.find?_append] at h
    cases hf : (List.range n).find? p with
    | some k' =>
      rw [hf] at h
      simp at h
      subst h
      obtain ⟨h1, h2, h3⟩ := ih hf
      exact ⟨by omega, h2, h3⟩
    | none =>
      rw [hf] at h
      simp only [Option.none_or, List.find?_cons, List.find?_nil] at h
      by_cases hp : p n = true
      · simp [hp] at h
        subst h
        refine ⟨by omega, hp, fun j hj => ?_⟩
        have := List.find?_eq_none.1 hf j (List.mem_range.2 hj)
        simpa using this
      · simp [hp] at h

theorem thetas_getD (pg : Program) (gens : List (List String)) (j : Nat) (hj : j ≤ pg.n) :
    (pg.refTrace gens).thetas.getD j [] = θseq pg.prog pg.θ0 pg.opt0 0 j := by
  rw [List.getD_eq_getElem?_getD, refTrace_thetas_get pg gens j hj]; rfl

/-- **`Holds.C18` is satisfied by every model trace** (every program, every `n`, wherever and
    however the first NaN arises), when no validation invocation requests a stop. -/
theorem holdsC18_model (pg : Program) (gens : List (List String))
    (hstop : ∀ j, j + 1 < pg.n → stopReq pg.prog pg.θ0 pg.opt0 0 (initVState pg.val) j = false) :
    holdsC18 (pg.refTrace gens) false (modelObs pg gens pg.solved) = none := by
  unfold holdsC18
  have hn : (pg.refTrace gens).n = pg.n := rfl
  rw [hn]
  by_cases h0 : (pg.n == 0) = true
  · simp [h0]
  · have hnpos : 0 < pg.n := by
      rcases Nat.eq_zero_or_pos pg.n with h | h
      · exact absurd (by simp [h]) h0
      · exact h
    have hθ0 : (pg.refTrace gens).thetas.getD 0 [] = pg.θ0 := thetas_getD pg gens 0 (Nat.zero_le _)
    simp only [h0, Bool.false_eq_true, if_false, hθ0]
    by_cases hini : hasNaN pg.θ0 = true
    · -- NaN already in the initial parameters
      obtain ⟨hs, _, _, _⟩ :=
        nan_initial_params pg.prog pg.n pg.θ0 pg.opt0 0 (initVState pg.val) (show pg.prog.isNaN pg.θ0 = true from hini)
      simp only [hini, if_true]
      apply firstFail_all_true
      intro c hc
      simp only [List.mem_cons, List.mem_nil_iff, or_false] at hc
      rcases hc with rfl | rfl | rfl
      · simp [modelObs, Program.solved, hs, init]
      · simp only [modelObs, Program.solved, hs, init, refTrace_thetas_get pg gens 0 (Nat.zero_le _)]
        simp [θseq, refLoop, refInit]
      · have hl : pg.solved.lossH = List.replicate pg.n (some 0) := by
          unfold Program.solved; rw [hs]; rfl
        simp [modelObs, hl, SolveAux.zerosVal]
    · simp only [hini, Bool.false_eq_true, if_false]
      cases hff : SolveAux.firstFault (pg.refTrace gens) with
      | none => rfl
      | some k =>
        unfold SolveAux.firstFault at hff
        rw [hn] at hff
        obtain ⟨hk, hpk, hbefore⟩ := find_range_some _ pg.n k hff
        have hfault : FirstFaultAt pg.prog pg.θ0 pg.opt0 0 (initVState pg.val) k := by
          refine ⟨?_, ?_, fun j hj => hstop j (by omega)⟩
          · intro j hj
            cases j with
            | zero =>
              show hasNaN pg.θ0 = false
              simpa using hini
            | succ j =>
              have := hbefore j (by omega)
              rwa [thetas_getD pg gens (j + 1) (by omega)] at this
          · have := hpk
            rwa [thetas_getD pg gens (k + 1) (by omega)] at this
        obtain ⟨e1, e2, e3, _, e5, e6, e7⟩ :=
          nan_stops_training pg.prog pg.n pg.θ0 pg.opt0 0 (initVState pg.val) k hk hfault
        obtain ⟨l1, l2, l3⟩ := refLoop_init_lengths pg.prog (k + 1) pg.θ0 pg.opt0 (0 : Nat)
          (V := Val) (T := List Val) (P := Params)
        obtain ⟨t1, t2, t3⟩ := refLoop_take pg.prog (k + 1) pg.n (by omega) pg.θ0 pg.opt0 (0 : Nat)
          (V := Val) (T := List Val) (P := Params)
        obtain ⟨r1, r2, r3⟩ := refTrace_hist pg gens
        have hv0 : pg.prog.v0 = some 0 := rfl
        have ht0 : pg.prog.t0 = SolveAux.zerosVal (pg.refTrace gens).nTerms := by
          simp [Program.prog, Program.refTrace, SolveAux.zerosVal, List.map_const']
        have hp0 : pg.prog.p0 = (pg.refTrace gens).zeroTracked := rfl
        apply firstFail_all_true
        intro c hc
        simp only [List.mem_cons, List.mem_nil_iff, or_false] at hc
        rcases hc with rfl | rfl | rfl | rfl | rfl | rfl | rfl | rfl | rfl | rfl
        · simp [modelObs, Program.solved, e1]
        · simp only [modelObs, Program.solved, e2, refTrace_thetas_get pg gens k (by omega)]
          simp
        · have e3' : hasNaN (solve pg.prog pg.n pg.θ0 pg.opt0 0 (initVState pg.val)).lastGood = false := e3
          simp [modelObs, Program.solved, e3']
        · simp only [modelObs, Program.solved, e5, e6, e7, List.length_append, List.length_replicate, l1, l2, l3]
          have : k + 1 + (pg.n - (k + 1)) = pg.n := by omega
          simp [this]
        · simp only [modelObs, Program.solved, e5, r1, Program.r0, t1]
          rw [List.take_left' l1]; simp
        · simp only [modelObs, Program.solved, e6, r2, Program.r0, t2]
          rw [List.take_left' l2]; simp
        · simp only [modelObs, Program.solved, e7, r3, Program.r0, t3]
          rw [List.take_left' l3]; simp
        · simp only [modelObs, Program.solved, e5]
          rw [List.drop_left' l1]; simp [SolveAux.zerosVal, hv0]
        · simp only [modelObs, Program.solved, e6]
          rw [List.drop_left' l2, ht0]; simp
        · simp only [modelObs, Program.solved, e7]
          rw [List.drop_left' l3, hp0]; simp

/-- Without validation module nothing can request a stop. -/
theorem holdsC18_model_no_validation (pg : Program) (gens : List (List String)) (hv : pg.val = none) :
    holdsC18 (pg.refTrace gens) false (modelObs pg gens pg.solved) = none := by
  apply holdsC18_model pg gens
  intro j _
  simp [hv, initVState, stopReq]

end Jinns.SolveFamily

/-! ### non-vacuity: the theorem instantiated at a concrete program with a fault -/
namespace Jinns.SolveFamily
open Jinns.Solve Jinns.SolveTrace Jinns.Holds

/-- `exProg` with the point `3` marked and a NaN loss on marked batches: the update of iteration 1
    (batch `[2, 3]`) is the first to produce NaN parameters -/
def exFault : Program :=
  { exProg with
    loss := { terms := [("dyn_loss", [⟨2, [0], 1⟩, ⟨-1, [1], 0⟩, ⟨1, [0], 3⟩])], mark := some 3,
              gradFault := [] } }

example : holdsC18 (exFault.refTrace exGens) false (modelObs exFault exGens exFault.solved) = none :=
  holdsC18_model_no_validation exFault exGens rfl

end Jinns.SolveFamily
