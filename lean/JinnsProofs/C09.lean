/-
C09 — Mini-batching permutes the point set and serves each point once per epoch.
Property theorems about `JinnsModel/Minibatch.lean`, for every store, every batch size
`0 < b ≤ n`, every oracle (PRNG) sequence and every history length.
-/
import JinnsModel.Minibatch

namespace Jinns.Minibatch

variable {α : Type}

/-! ### helper lemmas -/

theorem slice_length (s : List α) (i b : Nat) (hb : b ≤ s.length) : (slice s i b).length = b := by
  unfold slice
  simp only [List.length_take, List.length_drop]
  omega

theorem slice_sublist (s : List α) (i b : Nat) : (slice s i b).Sublist s := by
  unfold slice
  exact (List.take_sublist _ _).trans (List.drop_sublist _ _)

/-- Without clamping the slice is `drop/take`. -/
theorem slice_eq_of_le (s : List α) (i b : Nat) (h : i + b ≤ s.length) :
    slice s i b = (s.drop i).take b := by
  unfold slice
  have : min i (s.length - b) = i := by omega
  rw [this]

/-- With clamping it is the last `b` elements. -/
theorem slice_eq_of_ge (s : List α) (i b : Nat) (h : s.length ≤ i + b) :
    slice s i b = (s.drop (s.length - b)).take b := by
  unfold slice
  have : min i (s.length - b) = s.length - b := by omega
  rw [this]

theorem epochLen_pos {n b : Nat} (hb : 0 < b) (hn : b ≤ n) : 0 < epochLen n b := by
  unfold epochLen
  exact Nat.div_pos (by omega) hb

/-- `k + 1 < ⌈n/b⌉ ↔ (k+1)·b < n`. -/
theorem succ_lt_epochLen {n b k : Nat} (hb : 0 < b) :
    k + 1 < epochLen n b ↔ (k + 1) * b < n := by
  unfold epochLen
  rw [Nat.lt_div_iff_mul_lt hb]
  constructor <;> intro h <;> omega

theorem epochLen_mul_ge {n b : Nat} (hb : 0 < b) : n ≤ epochLen n b * b := by
  unfold epochLen
  have := Nat.div_add_mod (n + b - 1) b
  have := Nat.mod_lt (n + b - 1) hb
  have e : (n + b - 1) / b * b = b * ((n + b - 1) / b) := Nat.mul_comm _ _
  omega

theorem epochLen_of_dvd {n b : Nat} (hb : 0 < b) (hd : b ∣ n) : epochLen n b * b = n := by
  obtain ⟨c, rfl⟩ := hd
  unfold epochLen
  have : (b * c + b - 1) / b = c := by
    rw [Nat.div_eq_iff hb]
    constructor
    · have := Nat.mul_comm c b; omega
    · have := Nat.mul_comm c b; omega
  rw [this, Nat.mul_comm]

/-! ### the invariant of reachable states -/

/-- Reachable states (after at least one request): the cursor is `k·b` with `k < ⌈n/b⌉`,
    the store is a permutation of the initial store, the batch size never changes. -/
structure Inv (store0 : List α) (b : Nat) (m : MB α) : Prop where
  hb    : m.b = b
  perm  : m.store.Perm store0
  cur   : ∃ k, k < epochLen store0.length b ∧ m.idx = k * b

/-- **First request always reshuffles** (needs only `n ≤ 2^31 - 2`, i.e. an int32-sized store). -/
theorem first_request_resets (store0 : List α) (b : Nat) (hn : store0.length + 2 ≤ 2147483648)
    (hb2 : b + 1 ≤ 2147483647) :
    resets store0.length (init store0 b) = true := by
  unfold resets init initIdx
  simp only [decide_eq_true_eq]
  omega

/-- Step characterisation, reshuffle branch. -/
theorem next_of_resets (nEff : Nat) (m : MB α) (o : List α) (h : resets nEff m = true) :
    next nEff m o = ({ m with store := o, idx := 0 }, slice o 0 m.b) := by
  simp [next, h]

/-- Step characterisation, advance branch: store untouched, next contiguous slice. -/
theorem next_of_not_resets (nEff : Nat) (m : MB α) (o : List α) (h : resets nEff m = false) :
    next nEff m o = ({ m with idx := m.idx + m.b }, slice m.store (m.idx + m.b) m.b) := by
  simp [next, h]

/-- In a reachable state with cursor `k·b` the next request reshuffles **iff** `k` was the last
    batch of the epoch, i.e. iff all points `[0, (k+1)·b) ⊇ [0, n)` have been served. -/
theorem resets_iff_last {store0 : List α} {b : Nat} (hb : 0 < b) {m : MB α} {k : Nat}
    (hmb : m.b = b) (hk : m.idx = k * b) :
    resets store0.length m = true ↔ ¬ (k + 1 < epochLen store0.length b) := by
  simp only [resets, decide_eq_true_eq, hmb, hk, succ_lt_epochLen hb]
  have : (k + 1) * b = k * b + b := by rw [Nat.add_mul]; omega
  omega

/-- The invariant is established by the first request and preserved by every request. -/
theorem inv_next {store0 : List α} {b : Nat} (hb : 0 < b) (hn : b ≤ store0.length)
    {m : MB α} (o : List α) (ho : o.Perm store0)
    (hm : Inv store0 b m ∨ m = init store0 b)
    (hsz : store0.length + 2 ≤ 2147483648) (hb2 : b + 1 ≤ 2147483647) :
    Inv store0 b (next store0.length m o).1 := by
  rcases hm with hm | rfl
  · obtain ⟨k, hk, hidx⟩ := hm.cur
    by_cases hr : resets store0.length m = true
    · rw [next_of_resets _ _ _ hr]
      exact ⟨hm.hb, ho, 0, epochLen_pos hb hn, by simp⟩
    · have hr' : resets store0.length m = false := by simpa using hr
      rw [next_of_not_resets _ _ _ hr']
      have hlt : k + 1 < epochLen store0.length b := by
        by_cases hc : k + 1 < epochLen store0.length b
        · exact hc
        · exact absurd ((resets_iff_last hb hm.hb hidx).2 hc) hr
      refine ⟨hm.hb, hm.perm, k + 1, hlt, ?_⟩
      simp only [hidx, hm.hb, Nat.add_mul, Nat.one_mul]
  · rw [next_of_resets _ _ _ (first_request_resets store0 b hsz hb2)]
    exact ⟨rfl, ho, 0, epochLen_pos hb hn, by simp⟩

/-- **C09 (a): drawing batches never alters the stored set of points, it only permutes it** —
    for every history of requests and every oracle sequence honouring the PRNG contract. -/
theorem store_perm_after_any_history {store0 : List α} {b : Nat} (hb : 0 < b)
    (hn : b ≤ store0.length) (hsz : store0.length + 2 ≤ 2147483648) (hb2 : b + 1 ≤ 2147483647)
    (os : List (List α)) (hos : ∀ o ∈ os, o.Perm store0) :
    (run store0.length (init store0 b) os).1.store.Perm store0 := by
  suffices h : ∀ (m : MB α), (Inv store0 b m ∨ m = init store0 b) →
      ∀ os : List (List α), (∀ o ∈ os, o.Perm store0) →
        (run store0.length m os).1.store.Perm store0 ∧
        (os ≠ [] → Inv store0 b (run store0.length m os).1) by
    exact (h _ (Or.inr rfl) os hos).1
  intro m hm os
  induction os generalizing m with
  | nil =>
    intro _
    refine ⟨?_, fun h => absurd rfl h⟩
    rcases hm with hm | rfl
    · exact hm.perm
    · exact List.Perm.refl _
  | cons o os ih =>
    intro hos
    have ho := hos o (List.mem_cons_self)
    have hinv := inv_next hb hn o ho hm hsz hb2
    have hrec := ih _ (Or.inl hinv) (fun o' ho' => hos o' (List.mem_cons_of_mem _ ho'))
    simp only [run]
    refine ⟨hrec.1, fun _ => ?_⟩
    cases os with
    | nil => simpa [run] using hinv
    | cons o2 os2 => exact hrec.2 (by simp)

/-- Every batch ever served has exactly `b` points and is a sub-list of the store at that moment
    (hence of a permutation of the initial store). -/
theorem batch_shape_and_membership {store0 : List α} {b : Nat} {m : MB α}
    (hm : m.b = b) (o : List α) (hlen : m.store.length = store0.length)
    (holen : o.length = store0.length) (hn : b ≤ store0.length) :
    ((next store0.length m o).2).length = b ∧
    ((next store0.length m o).2).Sublist (next store0.length m o).1.store := by
  by_cases hr : resets store0.length m = true
  · rw [next_of_resets _ _ _ hr]
    exact ⟨by rw [slice_length _ _ _ (by omega), hm], slice_sublist _ _ _⟩
  · have hr' : resets store0.length m = false := by simpa using hr
    rw [next_of_not_resets _ _ _ hr']
    exact ⟨by rw [slice_length _ _ _ (by omega), hm], slice_sublist _ _ _⟩

/-! ### the structure of one epoch -/

/-- The batches of one epoch over the (fixed) store `s`. -/
def epochBatches (s : List α) (b : Nat) : List (List α) :=
  (List.range (epochLen s.length b)).map (fun j => slice s (j * b) b)

/-- From a state whose cursor is `k·b`, the following `r` requests with `k + r < ⌈n/b⌉` do not
    reshuffle, leave the store untouched and serve the contiguous slices `k+1, …, k+r`. -/
theorem run_within_epoch {n b : Nat} (hb : 0 < b) (s : List α) (hs : s.length = n) :
    ∀ (os : List (List α)) (k : Nat) (m : MB α), m.b = b → m.idx = k * b → m.store = s →
      k + os.length < epochLen n b →
      (run n m os).2 = (List.range os.length).map (fun j => slice s ((k + 1 + j) * b) b) ∧
      (run n m os).1.store = s ∧ (run n m os).1.idx = (k + os.length) * b ∧
      (run n m os).1.b = b ∧
      resetFlags n m os = List.replicate os.length false := by
  intro os
  induction os with
  | nil => intro k m hmb hidx hst _; simp [run, resetFlags, hidx, hst, hmb]
  | cons o os ih =>
    intro k m hmb hidx hst hlt
    have hlt1 : k + 1 < epochLen n b := by simp only [List.length_cons] at hlt; omega
    have hr : resets n m = false := by
      have := (resets_iff_last (store0 := s) hb hmb hidx)
      rw [hs] at this
      cases h : resets n m with
      | false => rfl
      | true => exact absurd hlt1 (this.1 h)
    have hstep := next_of_not_resets n m o hr
    have hidx' : ({ m with idx := m.idx + m.b } : MB α).idx = (k + 1) * b := by
      simp only [hidx, hmb, Nat.add_mul, Nat.one_mul]
    have hrec := ih (k + 1) { m with idx := m.idx + m.b } hmb hidx' hst
      (by simp only [List.length_cons] at hlt; omega)
    simp only [run, resetFlags, hstep, List.length_cons]
    refine ⟨?_, hrec.2.1, ?_, hrec.2.2.2.1, ?_⟩
    · rw [hrec.1, List.range_succ_eq_map, List.map_cons, List.map_map]
      congr 1
      · have e : k * b + b = (k + 1 + 0) * b := by rw [Nat.add_zero, Nat.add_mul, Nat.one_mul]
        rw [hst, hidx, hmb, e]
      · apply List.map_congr_left; intro j _; simp only [Function.comp]; congr 1; congr 1; omega
    · rw [hrec.2.2.1]; congr 1; omega
    · rw [hr, hrec.2.2.2.2, List.replicate_succ]

/-- **C09 (b): an epoch is exactly `⌈n/b⌉` requests.**  Right after a reshuffle onto store `s`,
    the reshuffling request and the next `⌈n/b⌉ − 1` requests serve `epochBatches s b` (whatever
    the oracles are), none of the latter reshuffles, and the request after them does. -/
theorem epoch_structure {n b : Nat} (hb : 0 < b) (hn : b ≤ n) (s : List α) (hs : s.length = n)
    (m : MB α) (hmb : m.b = b) (hm : resets n m = true)
    (os : List (List α)) (hos : os.length + 1 = epochLen n b) :
    let st := (next n m s).1
    (next n m s).2 :: (run n st os).2 = epochBatches s b ∧
    resetFlags n st os = List.replicate os.length false ∧
    resets n (run n st os).1 = true ∧
    (run n st os).1.store = s := by
  intro st
  have hst : st = { m with store := s, idx := 0 } := by
    simp only [st, next_of_resets n m s hm]
  have h := run_within_epoch hb s hs os 0 st (by rw [hst]; exact hmb) (by rw [hst]; simp)
    (by rw [hst]) (by omega)
  refine ⟨?_, h.2.2.2.2, ?_, h.2.1⟩
  · rw [h.1, next_of_resets n m s hm, epochBatches, hs, ← hos, List.range_succ_eq_map,
      List.map_cons, List.map_map, hmb]
    congr 1
    · simp
    · apply List.map_congr_left; intro j _; simp only [Function.comp]; congr 1; congr 1; omega
  · have := (resets_iff_last (store0 := s) (m := (run n st os).1) (k := os.length) hb h.2.2.2.1
      (by rw [h.2.2.1]; simp))
    rw [hs] at this
    exact this.2 (by omega)

/-! ### what one epoch serves -/

/-- Concatenating consecutive unclamped slices rebuilds the prefix. -/
theorem flatten_slices_prefix (s : List α) (b : Nat) :
    ∀ q : Nat, q * b ≤ s.length →
      ((List.range q).map (fun j => slice s (j * b) b)).flatten = s.take (q * b) := by
  intro q
  induction q with
  | zero => intro _; simp
  | succ q ih =>
    intro hq
    have hq' : q * b ≤ s.length := by rw [Nat.add_mul] at hq; omega
    rw [List.range_succ, List.map_append, List.flatten_append, ih hq']
    simp only [List.map_cons, List.map_nil, List.flatten_cons, List.flatten_nil, List.append_nil]
    rw [slice_eq_of_le s (q * b) b (by rw [Nat.add_mul] at hq; omega)]
    rw [Nat.add_mul, Nat.one_mul, List.take_add]

/-- **C09 (c), `b ∣ n`: between two reshuffles the batches, concatenated in order, are exactly the
    store** — so no point (position) is served twice and all of them are served. -/
theorem epoch_exact_of_dvd (s : List α) (b : Nat) (hb : 0 < b) (hd : b ∣ s.length) :
    (epochBatches s b).flatten = s := by
  unfold epochBatches
  rw [flatten_slices_prefix s b _ (by rw [epochLen_of_dvd hb hd]; exact Nat.le_refl _),
    epochLen_of_dvd hb hd, List.take_length]

/-- Consequence for distinct points: the batches of an epoch are pairwise disjoint. -/
theorem epoch_nodup_of_dvd (s : List α) (b : Nat) (hb : 0 < b) (hd : b ∣ s.length)
    (hnd : s.Nodup) : (epochBatches s b).flatten.Nodup := by
  rw [epoch_exact_of_dvd s b hb hd]; exact hnd

/-- **C09 (c), general case: every point of the store is served at least once per epoch.** -/
theorem epoch_covers (s : List α) (b : Nat) (hb : 0 < b) (hn : b ≤ s.length) :
    ∀ x ∈ s, ∃ bt ∈ epochBatches s b, x ∈ bt := by
  intro x hx
  obtain ⟨p, hp, rfl⟩ := List.getElem_of_mem hx
  obtain ⟨q, hqdef⟩ : ∃ q, q = epochLen s.length b := ⟨_, rfl⟩
  have hq : 0 < q := hqdef ▸ epochLen_pos hb hn
  unfold epochBatches
  rw [← hqdef]
  by_cases hlast : (p / b) + 1 < q
  · -- an unclamped batch
    have hle : (p / b + 1) * b ≤ s.length := by
      have := (succ_lt_epochLen (n := s.length) hb).1 (hqdef ▸ hlast); omega
    refine ⟨slice s (p / b * b) b, ?_, ?_⟩
    · exact List.mem_map.2 ⟨p / b, List.mem_range.2 (by omega), rfl⟩
    · rw [slice_eq_of_le s _ b (by rw [Nat.add_mul] at hle; omega)]
      have h1 := Nat.div_add_mod p b
      have h2 := Nat.mod_lt p hb
      have h3 : b * (p / b) = p / b * b := Nat.mul_comm _ _
      rw [List.mem_iff_getElem]
      refine ⟨p % b, ?_, ?_⟩
      · simp only [List.length_take, List.length_drop]; rw [Nat.add_mul] at hle; omega
      · simp only [List.getElem_take, List.getElem_drop]; congr 1; omega
  · -- the last (possibly clamped) batch
    refine ⟨slice s ((q - 1) * b) b, ?_, ?_⟩
    · exact List.mem_map.2 ⟨q - 1, List.mem_range.2 (by omega), rfl⟩
    · have hge : s.length ≤ (q - 1) * b + b := by
        have := epochLen_mul_ge (n := s.length) hb
        rw [← hqdef] at this
        have e : (q - 1) * b + b = q * b := by
          have : q = (q - 1) + 1 := by omega
          conv => rhs; rw [this, Nat.add_mul, Nat.one_mul]
        omega
      rw [slice_eq_of_ge s _ b hge]
      -- p ≥ (q-1)·b ≥ n - b
      have hp2 : (q - 1) * b ≤ p := by
        have h1 := Nat.div_add_mod p b
        have hq1 : q - 1 ≤ p / b := by omega
        have := Nat.mul_le_mul_right b hq1
        have h3 : b * (p / b) = p / b * b := Nat.mul_comm _ _
        omega
      have hqle : (q - 1) * b < s.length := by
        by_cases hq1 : q = 1
        · simp [hq1]; omega
        · have := (succ_lt_epochLen (n := s.length) (k := q - 2) hb).1 (by rw [← hqdef]; omega)
          have e : q - 2 + 1 = q - 1 := by omega
          rw [e] at this; exact this
      rw [List.mem_iff_getElem]
      refine ⟨p - (s.length - b), ?_, ?_⟩
      · simp only [List.length_take, List.length_drop]; omega
      · simp only [List.getElem_take, List.getElem_drop]; congr 1; omega

/-! ### non-vacuity -/

example : (epochBatches [10, 11, 12, 13] 2) = [[10, 11], [12, 13]] := by decide
example : (epochBatches [10, 11, 12, 13, 14] 2) = [[10, 11], [12, 13], [13, 14]] := by decide
example :
    (run 4 (init [10, 11, 12, 13] 2) [[12, 10, 13, 11], [], [11, 10, 13, 12], []]).2
      = [[12, 10], [13, 11], [11, 10], [13, 12]] := by decide

end Jinns.Minibatch
