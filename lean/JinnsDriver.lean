import JinnsDriver.Proto
import JinnsDriver.C09
