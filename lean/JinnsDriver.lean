import JinnsDriver.C09
import JinnsDriver.Proto
