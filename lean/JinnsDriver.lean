import JinnsDriver.C09
import JinnsDriver.PolyProto
import JinnsDriver.Proto
