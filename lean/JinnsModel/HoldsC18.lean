/-
`Holds.C18` — the property C18 over what is observed on one call of `jinns.solve`, given the trace
of the textbook loop on the same program (which does not stop on NaN: NaN propagates).
Let `k` be the first iteration whose update produces NaN parameters (`θ_{k+1}` has a NaN, `θ_0 … θ_k`
have none).  Then: exactly `k+1` iterations ran; the returned parameters are `θ_k` and NaN-free;
slots `0 … k` of every history are the reference ones; slots `> k` hold their initial zeros.
If `θ_0` already has a NaN: no iteration ran, histories untouched.  No fault: no claim (C07).
-/
import JinnsModel.SolveTrace
import JinnsModel.HoldsC07
namespace Jinns.Holds
open Jinns.SolveTrace

/-- first `k < n` with a NaN in `θ_{k+1}` -/
def SolveAux.firstFault (ref : RefTrace) : Option Nat :=
  (List.range ref.n).find? (fun k => hasNaN (ref.thetas.getD (k + 1) []))

def SolveAux.zerosVal (m : Nat) : List Val := List.replicate m (some 0)

def holdsC18 (ref : RefTrace) (rejected : Bool) (o : Obs) : Option String :=
  if ref.n == 0 then none
  else if rejected then some "valid-program-rejected"
  else if hasNaN (ref.thetas.getD 0 []) then
    SolveAux.firstFail [
      (o.iters == 0, "no-iteration-on-nan-initial-parameters"),
      (some o.params == ref.thetas[0]?, "returned-parameters"),
      (o.lossH == SolveAux.zerosVal ref.n, "later-entries-untouched")]
  else match SolveAux.firstFault ref with
    | none => none
    | some k =>
      SolveAux.firstFail [
        (o.iters == k + 1, "stops-right-after-the-failing-iteration"),
        (some o.params == ref.thetas[k]?, "returns-parameters-held-before-the-failing-update"),
        (!hasNaN o.params, "returned-parameters-nan-free"),
        (o.lossH.length == ref.n && o.termH.length == ref.n && o.trackH.length == ref.n, "history-length"),
        (o.lossH.take (k + 1) == ref.losses.take (k + 1), "loss-history-up-to-failing-iteration"),
        (o.termH.take (k + 1) == ref.terms.take (k + 1), "term-histories-up-to-failing-iteration"),
        (o.trackH.take (k + 1) == ref.tracked.take (k + 1), "tracked-history-up-to-failing-iteration"),
        (o.lossH.drop (k + 1) == SolveAux.zerosVal (ref.n - (k + 1)), "later-entries-untouched"),
        (o.termH.drop (k + 1) == List.replicate (ref.n - (k + 1)) (SolveAux.zerosVal ref.nTerms),
          "later-entries-untouched"),
        (o.trackH.drop (k + 1) == List.replicate (ref.n - (k + 1)) ref.zeroTracked,
          "later-entries-untouched")]

end Jinns.Holds
