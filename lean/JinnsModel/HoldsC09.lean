/-
`Holds.C09` — the property C09 as a decidable predicate over an *observed* trace of
`get_batch` requests (what a user can see: the store after the request, whether the PRNG key
was consumed = a reshuffle happened, and the batch returned).  Points are labelled by distinct
naturals.  Returns `none` when the trace satisfies the property, `some clause` otherwise.
-/
import JinnsModel.Minibatch
namespace Jinns.Holds

structure Rec09 where
  reset : Bool
  store : List Nat
  batch : List Nat
deriving Repr

def subset (a b : List Nat) : Bool := a.all (fun x => b.contains x)
def disjoint (a b : List Nat) : Bool := a.all (fun x => !b.contains x)

/-- state of the scan: points served since the last reshuffle, and "no request seen yet". -/
def c09Step (store0 : List Nat) (b : Nat) (st : List Nat × Bool) (r : Rec09) :
    Except String (List Nat × Bool) :=
  let (served, first) := st
  if !(r.store.isPerm store0) then .error "store-not-a-permutation-of-the-initial-store"
  else if r.batch.length != b then .error "batch-size"
  else if !(subset r.batch r.store) then .error "batch-point-not-in-store"
  else if first then .ok (r.batch, false)
  else if r.reset then
    if subset store0 served then .ok (r.batch, false)
    else .error "reshuffle-before-all-points-served"
  else
    if subset store0 served then .error "no-reshuffle-although-all-points-served"
    else if store0.length % b == 0 && !(disjoint r.batch served) then
      .error "point-served-twice-within-epoch"
    else .ok (served ++ r.batch, false)

def c09Scan (store0 : List Nat) (b : Nat) : List Nat × Bool → List Rec09 → Option String
  | _, [] => none
  | st, r :: rs =>
    match c09Step store0 b st r with
    | .error e => some e
    | .ok st' => c09Scan store0 b st' rs

def holdsC09 (store0 : List Nat) (b : Nat) (tr : List Rec09) : Option String :=
  c09Scan store0 b ([], true) tr

/-! ### generators with residual-adaptive refinement (`n_eff < n`)

Same clauses, where "all points" means the *active* points (the `n_eff` points with non-zero sampling
probability): the store stays a permutation of the whole initial store, a reshuffle happens exactly when
all active points have been served, no active point is served twice within an epoch when `b ∣ n_eff`.
(Inactive pre-allocated slots may be reached by the last slice of an epoch when `b ∤ n_eff`: no property
forbids it and it is not checked.) -/

def c09StepA (store0 active : List Nat) (b : Nat) (st : List Nat × Bool) (r : Rec09) :
    Except String (List Nat × Bool) :=
  let (served, first) := st
  if !(r.store.isPerm store0) then .error "store-not-a-permutation-of-the-initial-store"
  else if r.batch.length != b then .error "batch-size"
  else if !(subset r.batch r.store) then .error "batch-point-not-in-store"
  else if first then .ok (r.batch, false)
  else if r.reset then
    if subset active served then .ok (r.batch, false)
    else .error "reshuffle-before-all-points-served"
  else
    if subset active served then .error "no-reshuffle-although-all-points-served"
    else if active.length % b == 0 && !(disjoint r.batch served) then
      .error "point-served-twice-within-epoch"
    else .ok (served ++ r.batch, false)

def c09ScanA (store0 active : List Nat) (b : Nat) : List Nat × Bool → List Rec09 → Option String
  | _, [] => none
  | st, r :: rs =>
    match c09StepA store0 active b st r with
    | .error e => some e
    | .ok st' => c09ScanA store0 active b st' rs

/-- `Holds.C09` relative to the set of active points. -/
def holdsC09Active (store0 active : List Nat) (b : Nat) (tr : List Rec09) : Option String :=
  c09ScanA store0 active b ([], true) tr

end Jinns.Holds

namespace Jinns.Minibatch

/-- The trace the *model* produces on a history of oracles, in the vocabulary of `Holds.C09`. -/
def modelTrace (nEff : Nat) : MB Nat → List (List Nat) → List Jinns.Holds.Rec09
  | _, [] => []
  | m, o :: os =>
    let r := next nEff m o
    { reset := resets nEff m, store := r.1.store, batch := r.2 } :: modelTrace nEff r.1 os

end Jinns.Minibatch
