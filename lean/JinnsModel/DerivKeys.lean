/-
Model of the derivative keys of jinns (`jinns/parameters/_derivative_keys.py`:
`_get_masked_parameters`, `DerivativeKeys{ODE,PDEStatio,PDENonStatio}.__post_init__ / from_str`,
`_set_derivatives`) and of the way the losses use them
(`jinns/loss/_LossODE.py`, `jinns/loss/_LossPDE.py`: every term is evaluated on
`_set_derivatives(params, self.derivative_keys.<term>)`, the total is the sum of the terms).

Parameter groups.  The parameter view of one loss term is `Params(nn_params, eq_params)` (or
`ParamsDict`): position `0` is `nn_params` (never traversed: one boolean for the whole network),
positions `1 … nEq` are the leaves of `eq_params` in pytree order.  A mask (`Params` of booleans) is
the list of its booleans in that order.

JAX AD is not modelled but a parameter, with its contract (DESIGN §2.1): the differential of a loss
term at the current parameters is a *linear* map of the tangent.  A tangent is the list of its
per-group components, a term's differential is a table with one rational row vector per group, and
`jvp` is the sum of the dot products - linear by construction; the theorems quantify over all tables.
`stop_gradient` is the identity on values and zero on tangents: on group `g` it keeps the value and
zeroes row `g`.

Imports nothing outside core Lean.
-/
namespace Jinns.DerivKeys

abbrev Vec := List Rat
/-- one component per parameter group -/
abbrev Tangent := List Vec
/-- `Params(nn_params = b₀, eq_params = {k₁ : b₁, …})` as `[b₀, b₁, …]` -/
abbrev Mask := List Bool

def sumQ : List Rat → Rat
  | [] => 0
  | x :: xs => x + sumQ xs

def dot : Vec → Vec → Rat
  | a :: as, b :: bs => a * b + dot as bs
  | _, _ => 0

/-- the differential table applied to a tangent -/
def jvpD : List Vec → Tangent → Rat
  | r :: rs, v :: vs => dot r v + jvpD rs vs
  | _, _ => 0

/-- a loss term at the current parameters: its value and its differential (one row per group) -/
structure LossTerm where
  val  : Rat
  diff : List Vec
deriving Repr

def LossTerm.jvp (t : LossTerm) (w : Tangent) : Rat := jvpD t.diff w

def zeroVec (r : Vec) : Vec := r.map (fun _ => 0)

/-! ### `jax.lax.stop_gradient` and `_set_derivatives` -/

/-- `stop_gradient` on the parameters of group `g`, seen from the term: row `g` becomes zero. -/
def stopGradD : Nat → List Vec → List Vec
  | _, [] => []
  | 0, r :: rs => zeroVec r :: rs
  | g + 1, r :: rs => r :: stopGradD g rs

def stopGrad (g : Nat) (t : LossTerm) : LossTerm := { t with diff := stopGradD g t.diff }

/-- `_set_derivatives_` / `_set_derivatives_ParamsDict`:
    `tree_map(lambda p, d: lax.cond(d, lambda p: p, stop_gradient, p), params, mask)`. -/
def setDerivD : Mask → List Vec → List Vec
  | b :: bs, r :: rs => (if b then r else zeroVec r) :: setDerivD bs rs
  | _, _ => []

def setDerivatives (m : Mask) (t : LossTerm) : LossTerm := { t with diff := setDerivD m t.diff }

/-- the same thing said with `stopGrad`: visit the groups in order, stop the unselected ones -/
def stopAllD : Nat → Mask → List Vec → List Vec
  | _, [], d => d
  | g, b :: bs, d => stopAllD (g + 1) bs (if b then d else stopGradD g d)

/-- zero the components of a tangent whose mask is false (the adjoint view of `setDerivD`) -/
def maskTangent : Mask → Tangent → Tangent
  | b :: bs, v :: vs => (if b then v else zeroVec v) :: maskTangent bs vs
  | _, _ => []

/-! ### masks from strings, defaults (`_get_masked_parameters`, `__post_init__`, `from_str`) -/

/-- `jax.tree.map(lambda x: True, params)` with `nn_params` as a leaf -/
def allTrue (nEq : Nat) : Mask := true :: List.replicate nEq true

/-- `eqx.tree_at(lambda p: p.nn_params, diff_params, b)` -/
def setNN (b : Bool) : Mask → Mask
  | [] => []
  | _ :: eq => b :: eq

/-- `eqx.tree_at(lambda p: p.eq_params, diff_params, eq')` -/
def setEq (eq' : List Bool) : Mask → Mask
  | [] => []
  | nn :: _ => nn :: eq'

/-- `_get_masked_parameters(s, params)`; `none` = `ValueError`. -/
def maskOfString (nEq : Nat) (s : String) : Option Mask :=
  if s = "both" then some (allTrue nEq)
  else if s = "eq_params" then some (setNN false (allTrue nEq))
  else if s = "nn_params" then some (setEq (List.replicate nEq false) (allTrue nEq))
  else none

/-- how one field of a `DerivativeKeys*` object is specified -/
inductive Spec where
  /-- left to `None` (`derivative_keys=None, params=…`, or an omitted field) -/
  | dflt
  /-- a string handed to `from_str` -/
  | str (s : String)
  /-- a `Params` of booleans -/
  | tree (m : Mask)
deriving Repr

/-- `__post_init__` (for `dflt`: `_get_masked_parameters("nn_params", params)`), `from_str` (strings
    go through `_get_masked_parameters`, trees are taken as they are). -/
def resolve (nEq : Nat) : Spec → Option Mask
  | .dflt => maskOfString nEq "nn_params"
  | .str s => maskOfString nEq s
  | .tree m => some m

def allSome : List (Option α) → Option (List α)
  | [] => some []
  | none :: _ => none
  | some a :: r => (allSome r).map (a :: ·)

/-- a whole `DerivativeKeys*` object: one mask per term, or rejection -/
def resolveAll (nEq : Nat) (specs : List Spec) : Option (List Mask) :=
  allSome (specs.map (resolve nEq))

/-! ### from a term's own parameter view to the gradient groups of the whole problem

For a single loss the view is the whole `Params`.  In a system loss the gradient groups are
`nn_params[u]` for every unknown `u` and the leaves of `eq_params`; the dynamic term sees a
`ParamsDict` mask (one boolean for *all* the networks), the constraint terms of unknown `u` see
`Params(nn_params[u], eq_params)` (`extract_params`).  `gmap g = some i` says that gradient group `g`
is governed by position `i` of the term's mask, `none` that the term is not a function of `g`. -/
def liftMask (gmap : List (Option Nat)) (m : Mask) : Mask :=
  gmap.map (fun
    | none => false
    | some i => m.getD i false)

/-! ### a loss: terms with their masks; totals are sums -/

abbrev Family := List (Mask × LossTerm)

/-- what `evaluate` computes: every term on its own `_set_derivatives(params, mask)` -/
def evalTerms (fam : Family) : List LossTerm := fam.map (fun mt => setDerivatives mt.1 mt.2)

def totalVal (ts : List LossTerm) : Rat := sumQ (ts.map (·.val))
def totalJvp (ts : List LossTerm) (w : Tangent) : Rat := sumQ (ts.map (·.jvp w))

/-! ### gradients = the differential on the basis tangents -/

/-- `e_g ⊗ v`: the tangent `v` in group `g`, nothing elsewhere -/
def basis (g : Nat) (v : Vec) : Tangent := List.replicate g [] ++ [v]

def unitVec : Nat → Nat → Vec
  | 0, _ => []
  | n + 1, 0 => 1 :: List.replicate n 0
  | n + 1, j + 1 => 0 :: unitVec n j

/-- the gradient with respect to group `g` (of dimension `n`) of a function with differential `jvp` -/
def gradient (jvp : Tangent → Rat) (g n : Nat) : Vec :=
  (List.range n).map (fun j => jvp (basis g (unitVec n j)))

/-- a tangent that lives in group `g` only -/
def SupportedOn (g : Nat) (w : Tangent) : Prop :=
  ∀ i, i ≠ g → ∀ x ∈ w.getD i [], x = 0

/-! ### the whole observable behaviour for one problem and one specification

What the harness measures on the implementation under the all-true specification (values and
differential tables of the terms) together with the layout of the problem is a `Layout`; `predict`
is what the code returns for a specification: rejection, or the booleans of the constructed object
and the values / gradients of every returned term and of the total. -/
/-- what the harness describes of a problem: the layout and the all-true measurements -/
structure Layout where
  gmaps     : List (List (Option Nat))
  nView     : List Nat
  dims      : List Nat
  baseVals  : List Rat
  baseGrads : List (List Vec)
  returned  : List (List Nat)

def Layout.nTerms (L : Layout) : Nat := L.baseVals.length
def termAt (L : Layout) (k : Nat) : LossTerm := { val := L.baseVals.getD k 0, diff := L.baseGrads.getD k [] }
def maskAt (L : Layout) (specs : List Spec) (k : Nat) : Option Mask :=
  resolve (L.nView.getD k 0 - 1) (specs.getD k .dflt)
def masksOf (L : Layout) (specs : List Spec) : Option (List Mask) :=
  allSome ((List.range L.nTerms).map (maskAt L specs))
def famOf (L : Layout) (masks : List Mask) (members : List Nat) : Family :=
  members.map (fun k => (liftMask (L.gmaps.getD k []) (masks.getD k []), termAt L k))
def gradsOf (L : Layout) (ts : List LossTerm) : List Vec :=
  (List.range L.dims.length).map (fun g => gradient (totalJvp ts) g (L.dims.getD g 0))

structure Prediction where
  masks     : List Mask
  termVals  : List Rat
  totalVal  : Rat
  termGrads : List (List Vec)
  totalGrad : List Vec

def predict (L : Layout) (specs : List Spec) : Option Prediction :=
  match masksOf L specs with
  | none => none
  | some masks =>
    let ev := fun members => evalTerms (famOf L masks members)
    some { masks := masks,
           termVals := L.returned.map (fun ms => totalVal (ev ms)),
           totalVal := totalVal (ev (List.range L.nTerms)),
           termGrads := L.returned.map (fun ms => gradsOf L (ev ms)),
           totalGrad := gradsOf L (ev (List.range L.nTerms)) }

end Jinns.DerivKeys
