/-
`Holds.C20` — property C20 as a decidable predicate over an observed history of calls
(`evaluate` of a loss, or `get_batch` of a generator).  Each record carries the call's identity
(which loss / generator object and which argument objects were passed), the execution mode
(eager, `jax.jit`, primal of `jax.value_and_grad`), deep snapshots of every argument before and after
the call (array bytes, pytree structure, dictionary identities and contents — as opaque digests) and a
canonical rendering of the returned value.  Returns `none` when the history satisfies the property,
`some clause` otherwise.
-/
namespace Jinns.Holds

structure Rec20 where
  call   : Nat            -- identity of (callee, argument objects)
  mode   : String         -- "eager" | "jit" | "value_and_grad"
  before : List String    -- one digest per argument (parameters, batch, loss object / generator, …)
  after  : List String
  result : String         -- canonical exact rendering of the returned value
  rejected : Bool         -- the call raised instead of returning (all calls of a history are valid)
deriving Repr

/-- (1) no call modifies any of its arguments -/
def frameOk (r : Rec20) : Bool := r.before == r.after

/-- (0) a valid call returns in every execution mode;
    (2)+(3) the same call returns the same value wherever it occurs in the history and in whichever
    mode it is executed -/
def c20Scan : List (Nat × String × String) → List Rec20 → Option String
  | _, [] => none
  | seen, r :: rs =>
    if !(frameOk r) then some "argument-modified"
    else if r.rejected then some "valid-call-rejected"
    else match seen.find? (fun s => s.1 == r.call) with
      | none => c20Scan (seen ++ [(r.call, r.mode, r.result)]) rs
      | some s =>
        if s.2.2 == r.result then c20Scan seen rs
        else if s.2.1 == r.mode then some "repeated-call-returns-different-value"
        else some "execution-mode-changes-value"

def holdsC20 (tr : List Rec20) : Option String := c20Scan [] tr

end Jinns.Holds
