/-
`Holds.C16` — the property C16 ("RAR follows its schedule and never exceeds capacity") as a
decidable predicate over an *observed* run: for every iteration `i = 0, 1, …` what a user can see
after the trigger of that iteration — whether a refinement step happened, `rar_iter_nb`, and the
number of non-zero entries of `p_times` / `p_omega` (`none` when the generator has no such store or
when it was not observed at that iteration).  Returns `none` when the run satisfies the property,
`some clause` otherwise.  Only the static configuration type `Cfg` is shared with the model.
-/
import JinnsModel.RarSchedule

namespace Jinns.Holds
open Jinns.Rar

structure Rec16 where
  stepped : Bool
  iterNb  : Nat
  cntT    : Option Nat
  cntX    : Option Nat
deriving Repr, Inhabited

/-- a store of `n` slots with `nStart + J·sel` active ones can take another full set of `sel` -/
def roomFor (n nStart sel J : Nat) : Bool := decide (nStart + J * sel + sel ≤ n)

/-- every store the generator owns can take another full set after `J` steps -/
def roomAll (c : Cfg) (J : Nat) : Bool :=
  (!c.kind.hasT || roomFor c.nt c.ntStart c.selT J) && (!c.kind.hasX || roomFor c.n c.nStart c.selX J)

/-- `i = start + k·every` for some `k` -/
def onSchedule (c : Cfg) (i : Nat) : Bool := decide (c.start ≤ i) && ((i - c.start) % c.every == 0)

/-- observed count (if any) differs from the expected one -/
def cntBad (o : Option Nat) (expected : Nat) : Bool :=
  match o with
  | none => false
  | some v => v != expected

def cntOver (o : Option Nat) (n : Nat) : Bool :=
  match o with
  | none => false
  | some v => decide (n < v)

/-- one iteration; `J` = number of steps observed before it.  Returns the new number of steps. -/
def c16Step (c : Cfg) (i J : Nat) (r : Rec16) : Except String Nat :=
  if r.stepped && decide (i < c.start) then .error "step-before-start"
  else if r.stepped && !onSchedule c i then .error "step-off-schedule"
  else if r.stepped && !roomAll c J then .error "step-beyond-capacity"
  else if !r.stepped && onSchedule c i && roomAll c J then .error "missed-step"
  else
    let J' := if r.stepped then J + 1 else J
    if r.iterNb != J' then .error "step-count"
    else if cntOver r.cntT c.nt || cntOver r.cntX c.n then .error "active-exceeds-store"
    else if cntBad r.cntT (c.ntStart + J' * c.selT) then .error "active-count-times"
    else if cntBad r.cntX (c.nStart + J' * c.selX) then .error "active-count-omega"
    else .ok J'

def c16Scan (c : Cfg) : Nat → Nat → List Rec16 → Option String
  | _, _, [] => none
  | i, J, r :: rs =>
    match c16Step c i J r with
    | .error e => some e
    | .ok J' => c16Scan c (i + 1) J' rs

/-- the property on a run observed from iteration 0 of a freshly constructed generator -/
def holdsC16 (c : Cfg) (tr : List Rec16) : Option String := c16Scan c 0 0 tr

/-! ### rejections -/

/-- one store is configured legally: a non-empty initial set within the allocation, a non-empty
    selected set taken from a candidate sample at least as large and that the allocation can hold at
    all, a batch the allocation can serve -/
def legalStore (n nStart sel samp b : Nat) : Bool :=
  decide (1 ≤ nStart) && decide (nStart ≤ n) && decide (1 ≤ sel) && decide (sel ≤ samp) &&
  decide (sel ≤ n) && decide (1 ≤ b) && decide (b ≤ n)

/-- the configurations the generators and `rar_parameters` document as usable (`missingStart`: RAR
    requested without `n_start` / `nt_start`; `dim`: dimension of the space domain) -/
def legalCfg (c : Cfg) (sampT sampX bT bX dim : Nat) (missingStart : Bool) : Bool :=
  !missingStart && decide (1 ≤ c.every) &&
  (!c.kind.hasT || legalStore c.nt c.ntStart c.selT sampT bT) &&
  (!c.kind.hasX || (legalStore c.n c.nStart c.selX sampX bX && decide (1 ≤ dim)))

/-- a legal configuration must run: its rejection (at construction or when `trigger_rar` is traced)
    breaks the property for every run of that configuration -/
def rejectedCheck (legal : Bool) : Option String :=
  if legal then some "valid-configuration-rejected" else none

/-! ### resumed runs

The generator returned by a first `jinns.solve` (or after a second `init_rar`) keeps its refinement state;
the iteration number of the second run restarts at 0, so the schedule clauses of `Holds.C16` (stated for a
run observed from iteration 0 of a fresh generator) say nothing about it.  The counting clauses do: after
`J` steps IN TOTAL the active counts are `n_start + J·selected`, no step beyond capacity, never more active
points than slots. -/

def c16StepCounts (c : Cfg) (J : Nat) (r : Rec16) : Except String Nat :=
  if r.stepped && !roomAll c J then .error "step-beyond-capacity"
  else
    let J' := if r.stepped then J + 1 else J
    if r.iterNb != J' then .error "step-count"
    else if cntOver r.cntT c.nt || cntOver r.cntX c.n then .error "active-exceeds-store"
    else if cntBad r.cntT (c.ntStart + J' * c.selT) then .error "active-count-times"
    else if cntBad r.cntX (c.nStart + J' * c.selX) then .error "active-count-omega"
    else .ok J'

def c16ScanCounts (c : Cfg) : Nat → List Rec16 → Option String
  | _, [] => none
  | J, r :: rs =>
    match c16StepCounts c J r with
    | .error e => some e
    | .ok J' => c16ScanCounts c J' rs

/-- the counting clauses on the continuation of a run that has already made `J0` steps -/
def holdsC16Resumed (c : Cfg) (J0 : Nat) (tr : List Rec16) : Option String := c16ScanCounts c J0 tr

/-- what the model shows of one iteration -/
def recOfObs (c : Cfg) (o : Obs) : Rec16 :=
  { stepped := o.stepped, iterNb := o.st.steps,
    cntT := if c.kind.hasT then some (active o.st.pT) else none,
    cntX := if c.kind.hasX then some (active o.st.pX) else none }

end Jinns.Holds
