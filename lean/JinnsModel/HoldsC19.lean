/-
`Holds.C19` — the property C19 over what is observed on one call of `jinns.solve` with a
validation module, all parameters being tracked (so that slot `i` of the tracked history is the
parameter value after the update of iteration `i`).

Inputs: the period `c`, `n`, `limit` = the number of iterations the NaN rule (C18) allows on this
program (`n` when the reference parameters stay finite, `k+1` when the update of iteration `k` is
the first to produce NaN parameters, `0` for NaN initial parameters), the initial parameters, the outcome `(criterion, improved, stop)` the
module returned at each of its calls (call order), the parameters each call received, and the
observation.  For the built-in `ValidationLoss` the outcomes are *derived from the observed
criterion values by the wording of the property* (`SolveAux.vlOutcomes`): improvement = strict new minimum,
stop = early stopping enabled and at least `patience` consecutive non-improving invocations
immediately before.
-/
import JinnsModel.SolveTrace
import JinnsModel.HoldsC07
namespace Jinns.Holds
open Jinns.SolveTrace

abbrev SolveAux.Outcome := Val × Bool × Bool      -- (criterion, improved, stop)

def SolveAux.lastIdx (p : Nat → Bool) : Nat → Option Nat
  | 0 => none
  | k + 1 => if p k then some k else SolveAux.lastIdx p k

def holdsC19 (c n limit : Nat) (θ0 : Params) (outcomes : List SolveAux.Outcome) (calls : List Params)
    (rejected : Bool) (o : Obs) : Option String :=
  if n == 0 then none
  else if rejected then some "valid-program-rejected"
  else if c == 0 then none
  else
    let J := calls.length
    let crit := o.critH.getD []
    let firstStop := (List.range J).find? (fun j => (outcomes.getD j (none, false, false)).2.2)
    let lastImp := SolveAux.lastIdx (fun j => (outcomes.getD j (none, false, false)).2.1) J
    SolveAux.firstFail [
      (J == (o.iters + c - 1) / c, "invoked-exactly-at-iterations-divisible-by-period"),
      ((List.range J).all (fun j => some (calls.getD j []) == o.trackH[c * j]?),
        "invoked-with-post-update-parameters"),
      (crit.length == n, "criterion-history-length"),
      ((List.range (min o.iters n)).all (fun i =>
          crit[i]? == some (outcomes.getD (i / c) (none, false, false)).1),
        "criterion-recorded-and-carried-forward"),
      ((List.range n).all (fun i => i < o.iters || crit[i]? == some (some 0)),
        "criterion-untouched-after-stop"),
      (o.iters == (match firstStop with | some j => c * j + 1 | none => limit),
        "stops-right-after-first-request"),
      (o.best == some (match lastImp with | some j => calls.getD j [] | none => θ0),
        "best-parameters-of-last-improving-invocation")]

/-- number of consecutive `false` at the end of a list of improvement flags -/
def SolveAux.trailingFalse (l : List Bool) : Nat := (l.reverse.takeWhile (fun b => !b)).length

/-- The outcomes the built-in validation loss must produce on the criterion values `vs`
    (call order, `none` = NaN), by the wording of the property: an improvement is a strict new
    minimum (a NaN criterion is never one, and never becomes the minimum); a stop is requested when
    early stopping is on and at least `patience` consecutive invocations immediately before did
    not improve. -/
def SolveAux.vlOutcomes (patience : Nat) (early : Bool) (vs : List Val) : List SolveAux.Outcome :=
  let improved := (List.range vs.length).map (fun j =>
    match vs.getD j none with
    | none => false
    | some v => (vs.take j).all (fun x => match x with | none => true | some y => decide (v < y)))
  (List.range vs.length).map (fun j =>
    (vs.getD j none, improved.getD j false,
      early && decide (patience ≤ SolveAux.trailingFalse (improved.take j))))

/-- `ValidationLoss`: the criterion of call `j` is the loss of the parameters it received on the
    `j`-th batch of its own generators (`expected`, `vbatchesObs = vbatchesRef`) — NaN when those
    parameters are —, and the loop follows the outcomes derived from the criteria. -/
def holdsC19VL (c n limit : Nat) (θ0 : Params) (patience : Nat) (early : Bool)
    (expected : List Val) (vbatchesObs vbatchesRef : List Batch) (calls : List Params)
    (rejected : Bool) (o : Obs) : Option String :=
  if n == 0 then none
  else if rejected then some "valid-program-rejected"
  else if c == 0 then none
  else
    let J := calls.length
    let crits : List Val := (List.range J).map (fun j => ((o.critH.getD [])[c * j]?).getD none)
    match SolveAux.firstFail [
      (vbatchesObs == vbatchesRef.take J, "validation-draws-from-its-own-generators"),
      (crits == expected, "criterion-is-the-loss-on-its-own-batch")] with
    | some cl => some cl
    | none => holdsC19 c n limit θ0 (SolveAux.vlOutcomes patience early crits) calls rejected o

end Jinns.Holds
