/-
Executable instance of `FieldOps`: exact multivariate polynomials over ℚ in the variables
`(t, x_0, x_1, …)` (variable 0 is time, variable `i+1` is `x_i`), as un-normalised lists of monomials.
`add` is concatenation, `mul` the pairwise product, derivatives act monomial-wise; two polynomials are
compared through `eval` at points or through `normalize`.
Imports nothing outside core Lean.
-/
import JinnsModel.FieldOps
namespace Jinns.Calc

/-- coefficient and exponents (missing trailing exponents are 0) -/
abbrev Mono := Rat × List Nat
abbrev Poly := List Mono

namespace Poly

def expAdd : List Nat → List Nat → List Nat
  | [], b => b
  | a, [] => a
  | a :: as, b :: bs => (a + b) :: expAdd as bs

def monoMul (m n : Mono) : Mono := (m.1 * n.1, expAdd m.2 n.2)

def mul (p q : Poly) : Poly := p.flatMap (fun m => q.map (fun n => monoMul m n))

def scale (c : Rat) (p : Poly) : Poly := p.map (fun m => (c * m.1, m.2))

/-- scalar multiple; `0 • p` and `1 • p` are special-cased so that the `LawfulOps` laws hold syntactically -/
def smul (c : Rat) (p : Poly) : Poly := if c = 0 then [] else if c = 1 then p else scale c p

def neg (p : Poly) : Poly := scale (-1) p

/-- derivative of a monomial with respect to variable `k` (`none` if it does not depend on it) -/
def monoDeriv (k : Nat) (m : Mono) : Option Mono :=
  let e := m.2.getD k 0
  if e = 0 then none else some (m.1 * (e : Rat), m.2.set k (e - 1))

def deriv (k : Nat) (p : Poly) : Poly := p.filterMap (monoDeriv k)

def const (c : Rat) : Poly := [(c, [])]

/-- the coordinate polynomial of variable `k` -/
def var (k : Nat) : Poly := [(1, (List.replicate k 0) ++ [1])]

def powNat (x : Rat) : Nat → Rat
  | 0 => 1
  | n + 1 => x * powNat x n

def monoEval (pt : List Rat) (m : Mono) : Rat :=
  m.1 * (((List.range m.2.length).map (fun k => powNat (pt.getD k 0) (m.2.getD k 0))).foldr (· * ·) 1)

/-- value at the point `pt = [t, x_0, x_1, …]` -/
def eval (p : Poly) (pt : List Rat) : Rat := (p.map (monoEval pt)).foldr (· + ·) 0

/-- drop trailing zero exponents -/
def trimExp (e : List Nat) : List Nat := (e.reverse.dropWhile (· == 0)).reverse

def insertMono (m : Mono) : Poly → Poly
  | [] => [m]
  | n :: ns => if n.2 == m.2 then (n.1 + m.1, n.2) :: ns else n :: insertMono m ns

/-- canonical form up to order: merged exponents, no zero coefficient -/
def normalize (p : Poly) : Poly :=
  (p.foldl (fun acc m => insertMono (m.1, trimExp m.2) acc) []).filter (fun m => m.1 != 0)

end Poly

/-- The polynomial field algebra: variable 0 is `t`, variable `i + 1` is `x_i`. -/
def polyOps : FieldOps Poly where
  zero := []
  add := fun p q => p ++ q
  neg := Poly.neg
  mul := Poly.mul
  smul := Poly.smul
  dT := Poly.deriv 0
  dX := fun i => Poly.deriv (i + 1)

theorem polyOps_lawful : LawfulOps polyOps where
  add_zero := by intro a; simp [polyOps]
  zero_add := by intro a; simp [polyOps]
  one_smul := by intro a; simp [polyOps, Poly.smul]
  zero_smul := by intro a; simp [polyOps, Poly.smul]

end Jinns.Calc
