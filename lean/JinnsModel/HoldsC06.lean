/-
`Holds.C06` - the property C06 as a decidable predicate over what a user can *observe*:

* the set-up: for every loss term `k` and every parameter group `g`, the gradient of term `k` with
  respect to `g` measured on the implementation when every term differentiates with respect to
  everything (all-true specification), the values of the terms and of the total there, and (when
  the harness could compute it) the exact gradient of the term;
* one observation per derivative specification tried: the specification of every term (left to the
  default / a string / a boolean tree), whether the construction was rejected, the booleans read
  back from the constructed `DerivativeKeys*` object, and the values and gradients of the total and
  of every *returned* term (`jax.grad` of `loss.evaluate`), a returned term being the sum of one or
  several loss terms (system losses return sums over the unknowns).

It states: unknown strings are rejected and nothing else is; the string form, the default and the
boolean-tree form denote the same selection (default = network parameters only); values do not
depend on the specification; every selected (term, group) pair contributes the gradient of the term
and every unselected pair exactly zero; the gradient of the total is the sum over exactly the
selecting terms.  `none` = holds, `some clause` = the clause that fails.
It does not mention the model (`JinnsModel/DerivKeys.lean`).
-/
namespace Jinns.Holds

inductive Spec06 where
  | dflt
  | str (s : String)
  | tree (m : List Bool)
deriving Repr

def specValid : Spec06 → Bool
  | .str s => s == "nn_params" || s == "eq_params" || s == "both"
  | _ => true

/-- Does the specification select position `i` of the term's parameter view
    (`0` = the network parameters, `i ≥ 1` = the `i`-th equation parameter)? -/
def specSelects : Spec06 → Nat → Bool
  | .dflt, i => i == 0
  | .str s, i =>
    if s == "both" then true
    else if s == "eq_params" then i != 0
    else if s == "nn_params" then i == 0
    else false
  | .tree m, i => m.getD i false

/-- Does term `k` (whose view of gradient group `g` is `gmap[g]`) select gradient group `g`?
    A group the term is not a function of is never selected (its gradient is zero anyway). -/
def selects (gmap : List (Option Nat)) (sp : Spec06) (g : Nat) : Bool :=
  match gmap.getD g none with
  | none => false
  | some i => specSelects sp i

structure Setup06 where
  /-- per term: for every gradient group, the position of the term's view that governs it -/
  gmaps     : List (List (Option Nat))
  /-- per term: size of its parameter view (`1 +` number of equation parameters) -/
  nView     : List Nat
  /-- per gradient group: its dimension -/
  dims      : List Nat
  baseVals  : List Rat
  baseTotal : Rat
  /-- term, group ↦ gradient under the all-true specification -/
  baseGrads : List (List (List Rat))
  /-- returned term ↦ the loss terms it sums -/
  returned  : List (List Nat)
  /-- exact gradients (term, group), when available -/
  refGrads  : Option (List (List (List Rat)))

structure Obs06 where
  specs     : List Spec06
  error     : Option String
  /-- booleans read back from the constructed object (per term, in the order of its view) -/
  masks     : List (List Bool)
  termVals  : List Rat
  totalVal  : Rat
  /-- returned term, group ↦ observed gradient -/
  termGrads : List (List (List Rat))
  totalGrad : List (List Rat)

def vzero (n : Nat) : List Rat := List.replicate n 0
def vadd (a b : List Rat) : List Rat := List.zipWith (· + ·) a b
def isZero (v : List Rat) : Bool := v.all (· == 0)
def sumR : List Rat → Rat
  | [] => 0
  | x :: xs => x + sumR xs

def firstSome : List (Option String) → Option String
  | [] => none
  | some e :: _ => some e
  | none :: r => firstSome r

def baseGrad (s : Setup06) (k g : Nat) : List Rat := (s.baseGrads.getD k []).getD g []

/-- the terms among `members` that select group `g` under the observation's specifications -/
def selecting (s : Setup06) (o : Obs06) (members : List Nat) (g : Nat) : List Nat :=
  members.filter (fun k => selects (s.gmaps.getD k []) (o.specs.getD k .dflt) g)

/-- `Σ_{k ∈ members, k selects g} ∇_g term_k` -/
def expectedGrad (s : Setup06) (o : Obs06) (members : List Nat) (g : Nat) : List Rat :=
  (selecting s o members g).foldl (fun acc k => vadd acc (baseGrad s k g)) (vzero (s.dims.getD g 0))

/-- construction clauses for term `k` -/
def checkMask (s : Setup06) (o : Obs06) (k : Nat) : Option String :=
  let sp := o.specs.getD k .dflt
  let seen := o.masks.getD k []
  let n := s.nView.getD k 0
  let want := (List.range n).map (specSelects sp)
  if seen == want then none
  else match sp with
    | .dflt => some "default-is-not-network-parameters-only"
    | .str _ => some "string-form-differs-from-boolean-tree-form"
    | .tree _ => some "boolean-tree-altered-by-construction"

def checkReturned (s : Setup06) (o : Obs06) (r : Nat) : Option String :=
  let members := s.returned.getD r []
  let valOk := o.termVals.getD r 0 == sumR (members.map (fun k => s.baseVals.getD k 0))
  if !valOk then some "term-value-depends-on-derivative-keys"
  else
    firstSome ((List.range s.dims.length).map (fun g =>
      let seen := (o.termGrads.getD r []).getD g []
      let sel := selecting s o members g
      if seen == expectedGrad s o members g then none
      else if sel.length == members.length then some "selected-pair-gradient-differs-from-term-gradient"
      else if sel.isEmpty then some "unselected-pair-contributes-nonzero-gradient"
      else some "returned-term-gradient-not-sum-over-selecting-terms"))

def checkTotal (s : Setup06) (o : Obs06) : Option String :=
  let all := List.range s.baseVals.length
  if o.totalVal != s.baseTotal then some "total-value-depends-on-derivative-keys"
  else
    firstSome ((List.range s.dims.length).map (fun g =>
      if (o.totalGrad.getD g []) == expectedGrad s o all g then none
      else some "total-gradient-not-sum-over-selecting-terms"))

def holdsObs (s : Setup06) (o : Obs06) : Option String :=
  if o.specs.any (fun sp => !specValid sp) then
    (if o.error == some "value_error" then none else some "unknown-string-not-rejected")
  else if o.error.isSome then some "valid-specification-rejected"
  else
    firstSome
      ((List.range s.baseVals.length).map (checkMask s o) ++
       (List.range s.returned.length).map (checkReturned s o) ++
       [checkTotal s o])

/-- set-up clauses: shapes, and the all-true gradients are the exact gradients of the terms -/
def holdsSetup (s : Setup06) : Option String :=
  let shapesOk := (List.range s.baseVals.length).all (fun k =>
    (List.range s.dims.length).all (fun g => (baseGrad s k g).length == s.dims.getD g 0))
  if !shapesOk then some "gradient-shape"
  else match s.refGrads with
    | none => none
    | some ref =>
      if ref == s.baseGrads then none else some "all-true-gradient-differs-from-exact-gradient"

/-- index of the first failing observation and its clause -/
def holdsScan (s : Setup06) : Nat → List Obs06 → Option (Nat × String)
  | _, [] => none
  | i, o :: os =>
    match holdsObs s o with
    | some e => some (i, e)
    | none => holdsScan s (i + 1) os

def holdsC06 (s : Setup06) (obs : List Obs06) : Option String :=
  match holdsSetup s with
  | some e => some e
  | none => (holdsScan s 0 obs).map (·.2)

end Jinns.Holds
