/-
Model of the network wrappers of jinns:

* `jinns/utils/_pinn.py`      : `_MLP.__call__`, `PINN.__call__`, `PINN.eval_nn`, `create_PINN`
* `jinns/utils/_spinn.py`     : `_SPINN.__call__`, `SPINN.__call__`, `SPINN.eval_nn`, `create_SPINN`
* `jinns/utils/_hyperpinn.py` : `_get_param_nb`, `HYPERPINN._hyper_to_pinn`, `HYPERPINN.eval_nn`,
                                `create_HYPERPINN`
* `jinns/parameters/_params.py` : `Params` (`nn_params`, `eq_params`)

Arrays of rank 0 and 1 are `Val` (a 0-d array is *not* a length-one vector: `squeeze`, indexing and the
forced trailing axis distinguish them).  Numbers are exact `Rat`.  A network is data: a list of layers,
each `linear W b` (`eqx.nn.Linear`: `W @ x + b`) or an activation of the exact family
{identity, relu, square}.  Exceptions raised by the code are explicit `Except String` branches whose
string is the harness' error kind (`core.err_kind`).  Imports nothing outside core Lean.
-/
namespace Jinns.Wrappers

abbrev Vec := List Rat

/-! ## error kinds (the strings of `harness/core.py: err_kind`) -/

def eAttr : String := "other:AttributeError"
def eKey : String := "other:KeyError"
def eIndex : String := "other:IndexError"
def eType : String := "type_error"
def eValue : String := "value_error"
def eRuntime : String := "other:RuntimeError"
/-- behaviour that belongs to JAX, not to jinns (clamped out-of-range static indices, scalars fed to a
    `Linear`): never generated, never predicted. -/
def eUnmodelled : String := "unmodelled"

/-! ## arrays of rank 0 / 1 -/

inductive Val where
  | scalar (r : Rat)
  | vec (v : Vec)
deriving Repr, DecidableEq

/-- `a.flatten()` -/
def Val.flat : Val → Vec
  | .scalar r => [r]
  | .vec v => v

/-- `a.shape` -/
def Val.shape : Val → List Nat
  | .scalar _ => []
  | .vec v => [v.length]

/-- `a.squeeze()` on a rank-one array: a length-one vector becomes a 0-d array, anything else is
    unchanged. -/
def squeeze (v : Vec) : Val :=
  match v with
  | [a] => .scalar a
  | _ => .vec v

/-- `if not res.shape: return jnp.expand_dims(res, axis=-1)` (`PINN.eval_nn`, `HYPERPINN.eval_nn`). -/
def ensureTrailingAxis : Val → Vec
  | .scalar a => [a]
  | .vec v => v

/-- numpy broadcasting of a binary operation between arrays of rank ≤ 1
    (`TypeError: … incompatible shapes for broadcasting` otherwise). -/
def bop (f : Rat → Rat → Rat) : Val → Val → Except String Val
  | .scalar a, .scalar b => .ok (.scalar (f a b))
  | .scalar a, .vec v => .ok (.vec (v.map (f a)))
  | .vec u, .scalar b => .ok (.vec (u.map (fun x => f x b)))
  | .vec u, .vec v =>
    if u.length = v.length then .ok (.vec (List.zipWith f u v))
    else match u, v with
      | [a], _ => .ok (.vec (v.map (f a)))
      | _, [b] => .ok (.vec (u.map (fun x => f x b)))
      | _, _ => .error eType

/-! ## the network as data (`_MLP`) -/

inductive Act where
  | id | relu | square
deriving Repr, DecidableEq

def Act.apply : Act → Rat → Rat
  | .id, x => x
  | .relu, x => if x < 0 then 0 else x
  | .square, x => x * x

inductive Layer where
  | linear (W : List Vec) (b : Vec)
  | act (a : Act)
deriving Repr, DecidableEq

def dot (u v : Vec) : Rat := (List.zipWith (· * ·) u v).sum

/-- `eqx.nn.Linear.__call__`: `weight @ x + bias`; an activation is applied component-wise. -/
def Layer.apply : Layer → Vec → Vec
  | .linear W b, x => List.zipWith (· + ·) (W.map (fun row => dot row x)) b
  | .act a, x => x.map a.apply

/-- `_MLP.__call__`: `for layer in self.layers: t = layer(t)`. -/
def mlpEval (ls : List Layer) (x : Vec) : Vec := ls.foldl (fun t l => l.apply t) x

/-- one entry of an `eqx_list`: `(eqx.nn.Linear, in, out)` or `(activation,)` -/
inductive LayerSpec where
  | lin (inF outF : Nat)
  | act (a : Act)
deriving Repr, DecidableEq

def Layer.spec : Layer → LayerSpec
  | .linear W b => .lin ((W.headD []).length) b.length
  | .act a => .act a

/-- A layer honours its declared sizes. -/
def Layer.wf : Layer → Bool
  | .linear W b => W.length == b.length && W.all (fun r => r.length == (W.headD []).length)
  | .act _ => true

/-! ## the parameter argument: the full `Params` object or the bare network parameters -/

inductive PArg (θ : Type) where
  | full (nn : θ) (eq : List (String × Val))
  | bare (nn : θ)

/-- `try: params.nn_params  except (KeyError, AttributeError, TypeError): params`
    (`PINN.eval_nn`, `SPINN.__call__`, `HYPERPINN.eval_nn`): the bare network parameters have no
    attribute `nn_params`, the `AttributeError` is caught and the argument itself is used. -/
def PArg.nn : PArg θ → θ
  | .full nn _ => nn
  | .bare nn => nn

/-- `params.eq_params` *outside* any `try`: on bare network parameters the `AttributeError`
    propagates to the caller. -/
def PArg.eqParams : PArg θ → Except String (List (String × Val))
  | .full _ eq => .ok eq
  | .bare _ => .error eAttr

/-- `eq_params[k]` (`KeyError` when absent). -/
def lookupEq (eq : List (String × Val)) (k : String) : Except String Val :=
  match eq.lookup k with
  | some v => .ok v
  | none => .error eKey

/-! ## the exact family of transforms used by the correspondence

`input_transform  = lambda inputs, p: inputs * A + B`,
`output_transform = lambda inputs, o, p: o * A + B`,
with `A`, `B` a constant, `p.eq_params[k]` or (output only) an input coordinate `inputs[i]`;
or the default "no operation". -/

inductive Coef where
  | const (c : Rat)
  | eq (k : String)
  | inp (i : Nat)
deriving Repr, DecidableEq

def Coef.eval (c : Coef) (inputs : Vec) (p : PArg θ) : Except String Val :=
  match c with
  | .const c => .ok (.scalar c)
  | .eq k => do
    let e ← p.eqParams
    lookupEq e k
  | .inp i =>
    match inputs[i]? with
    | some r => .ok (.scalar r)
    | none => .error eUnmodelled

def Coef.needsEq : Coef → Bool
  | .eq _ => true
  | _ => false

inductive TDesc where
  | id
  | affine (a b : Coef)
deriving Repr, DecidableEq

def TDesc.needsEq : TDesc → Bool
  | .id => false
  | .affine a b => a.needsEq || b.needsEq

/-- `o * A + B`, evaluated left to right as Python does. -/
def TDesc.applyVal (d : TDesc) (inputs : Vec) (o : Val) (p : PArg θ) : Except String Val :=
  match d with
  | .id => .ok o
  | .affine a b => do
    let av ← a.eval inputs p
    let m ← bop (· * ·) o av
    let bv ← b.eval inputs p
    bop (· + ·) m bv

def TDesc.applyIn (d : TDesc) (inputs : Vec) (p : PArg θ) : Except String Vec := do
  let r ← d.applyVal inputs (.vec inputs) p
  pure r.flat

def TDesc.applyOut (d : TDesc) (inputs : Vec) (o : Val) (p : PArg θ) : Except String Val :=
  d.applyVal inputs o p

/-! ## `PINN.eval_nn` -/

/-- `output_slice`: a `jnp.s_[a:b]` (either bound may be absent, either may be negative) or an
    integer `jnp.s_[i]` (possibly negative) — entries of `shared_pinn_outputs`, `slice_solution`. -/
inductive OutSlice where
  | range (a b : Option Int)
  | index (i : Int)
deriving Repr, DecidableEq

/-- `v[a:b]` for naturals `a`, `b`. -/
def sliceFT (v : List α) (a b : Nat) : List α := (v.drop a).take (b - a)

/-- Python's normalisation of a slice bound on a sequence of length `n`: a negative bound counts
    from the end; the result is clamped to `[0, n]`. -/
def normBound (n : Nat) (i : Int) : Nat :=
  if i < 0 then (i + (n : Int)).toNat else min i.toNat n

/-- `v[a:b]` with Python semantics (step 1): absent bounds are `0` and `len(v)`. -/
def pySlice (v : List α) (a b : Option Int) : List α :=
  sliceFT v (match a with | none => 0 | some a => normBound v.length a)
    (match b with | none => v.length | some b => normBound v.length b)

/-- `v[i]` with Python semantics: `-len(v) ≤ i < len(v)`, a negative index counts from the end.
    (Outside that range JAX clamps instead of raising: not modelled, never generated.) -/
def pyIndex (v : List α) (i : Int) : Option α :=
  if 0 ≤ i then v[i.toNat]?
  else if -i ≤ (v.length : Int) then v[(i + (v.length : Int)).toNat]?
  else none

/-- `if self.output_slice is not None: res = res[self.output_slice]`: a 0-d array cannot be indexed
    (`IndexError`); a slice keeps the axis; an integer index drops it (0-d result, which the forced
    trailing axis then turns into a length-one vector). -/
def applySlice : Option OutSlice → Val → Except String Val
  | none, v => .ok v
  | some _, .scalar _ => .error eIndex
  | some (.range a b), .vec v => .ok (.vec (pySlice v a b))
  | some (.index i), .vec v =>
    match pyIndex v i with
    | some r => .ok (.scalar r)
    | none => .error eUnmodelled

/-- a selection that designates at least one existing component of a vector of length `n` -/
def OutSlice.legal (n : Nat) : OutSlice → Bool
  | .index i => decide (-(n : Int) ≤ i ∧ i < (n : Int))
  | .range a b =>
    decide ((match a with | none => 0 | some a => normBound n a)
      < (match b with | none => n | some b => normBound n b))

/-- `PINN.eval_nn(inputs, params)`:
    `res = output_transform(inputs, model(input_transform(inputs, params)).squeeze(), params)`;
    `res = res[output_slice]`; forced trailing axis.  `model` is `net` closed over the network
    parameters selected by the `try/except` (`p.nn`); the transforms receive the argument `p` as given. -/
def evalNN (net : θ → Vec → Vec)
    (inT : Vec → PArg θ → Except String Vec)
    (outT : Vec → Val → PArg θ → Except String Val)
    (sl : Option OutSlice) (inputs : Vec) (p : PArg θ) : Except String Vec := do
  let z ← inT inputs p
  let y := squeeze (net p.nn z)
  let r ← outT inputs y p
  let s ← applySlice sl r
  pure (ensureTrailingAxis s)

/-! ## `PINN.__call__` -/

inductive EqType where
  | ode | statio | nonstatio
  | other            -- any other string
deriving Repr, DecidableEq

/-- The positional arguments before `params`.
    ODE: `(t, params) = args`; a 0-d `t` becomes `t[..., None]`.
    statio: `(x, params) = args`.  non-stationary: `(t, x, params) = args`, `concatenate([t, x], -1)`
    (`ValueError` on a 0-d `t`).  A wrong number of arguments fails in the tuple unpacking
    (`ValueError`); an unknown `eq_type` raises `ValueError`. -/
def callInputs : EqType → List Val → Except String Vec
  | .ode, [.scalar t] => .ok [t]
  | .ode, [.vec t] => .ok t
  | .statio, [.vec x] => .ok x
  | .statio, [.scalar _] => .error eUnmodelled
  | .nonstatio, [.vec t, .vec x] => .ok (t ++ x)
  | .nonstatio, [_, _] => .error eValue
  | _, _ => .error eValue

def pinnCall (eqT : EqType) (net : θ → Vec → Vec)
    (inT : Vec → PArg θ → Except String Vec)
    (outT : Vec → Val → PArg θ → Except String Val)
    (sl : Option OutSlice) (args : List Val) (p : PArg θ) : Except String Vec := do
  let inputs ← callInputs eqT args
  evalNN net inT outT sl inputs p

/-! ## `create_PINN` / `create_HYPERPINN`: argument checks, `slice_solution` -/

/-- the three `RuntimeError`s at the top of `create_PINN` / `create_HYPERPINN` -/
def createCheck (eqT : EqType) (dimX : Nat) : Except String Unit :=
  if eqT == .other then .error eRuntime
  else if eqT == .ode && dimX != 0 then .error eRuntime
  else if eqT != .ode && dimX == 0 then .error eRuntime
  else .ok ()

/-- `try: eqx_list[-1][2]  except IndexError: eqx_list[-2][2]` -/
def declaredOut (specs : List LayerSpec) : Except String Nat :=
  match specs.reverse with
  | .lin _ o :: _ => .ok o
  | .act _ :: .lin _ o :: _ => .ok o
  | _ => .error eIndex

/-- `try: eqx_list[0][1]  except IndexError: eqx_list[1][1]` -/
def declaredIn (specs : List LayerSpec) : Except String Nat :=
  match specs with
  | .lin i _ :: _ => .ok i
  | .act _ :: .lin i _ :: _ => .ok i
  | _ => .error eIndex

/-- `slice_solution` as stored by `create_PINN` / `create_HYPERPINN`: `None` ↦ `0:nb_outputs_declared`,
    an `int i` ↦ `i:i+1`, with an open upper bound for `i = -1` (`s_[-1:0]` would select nothing —
    repaired in /repo cbb01ea), a slice is kept. -/
def sliceSolution (user : Option OutSlice) (nOut : Nat) : Option Int × Option Int :=
  match user with
  | none => (some 0, some (nOut : Int))
  | some (.index i) => (some i, if i = -1 then none else some (i + 1))
  | some (.range a b) => (a, b)

/-! ## HYPERPINN -/

/-- a parameter leaf: its shape and its entries in row-major order -/
structure Leaf where
  shape : List Nat
  data : Vec
deriving Repr, DecidableEq

def Leaf.wf (l : Leaf) : Bool := l.data.length == l.shape.prod

/-- The order of `jax.tree_util.tree_leaves` on the parameters of an `_MLP`: layers in list order,
    and for each `eqx.nn.Linear` its `weight` (shape `(out, in)`) then its `bias` (shape `(out,)`);
    activations carry no parameter. -/
def leafShapes : List LayerSpec → List (List Nat)
  | [] => []
  | .lin i o :: ls => [o, i] :: [o] :: leafShapes ls
  | .act _ :: ls => leafShapes ls

def leavesOf : List Layer → List Leaf
  | [] => []
  | .linear W b :: ls =>
    ⟨[W.length, (W.headD []).length], W.flatten⟩ :: ⟨[b.length], b⟩ :: leavesOf ls
  | .act _ :: ls => leavesOf ls

/-- `a.reshape((rows, cols))` of row-major data, as a list of rows -/
def toMatrix (rows cols : Nat) (data : Vec) : List Vec :=
  (List.range rows).map (fun i => (data.drop (i * cols)).take cols)

/-- `eqx.combine(pinn_params, self.static)`: the architecture filled with the leaves, in leaf order -/
def build : List LayerSpec → List Leaf → List Layer
  | [], _ => []
  | .act a :: ss, ls => .act a :: build ss ls
  | .lin i o :: ss, w :: b :: ls => .linear (toMatrix o i w.data) b.data :: build ss ls
  | .lin _ _ :: ss, _ => .linear [] [] :: build ss []

/-- `onp.cumsum` (running total starting from `acc`) -/
def cumsumFrom (acc : Nat) : List Nat → List Nat
  | [] => []
  | a :: as => (acc + a) :: cumsumFrom (acc + a) as

/-- `_get_param_nb`: `(sum, cumsum)` of the leaf sizes `prod(a.shape)` in leaf order -/
def paramNb (shapes : List (List Nat)) : Nat × List Nat :=
  ((shapes.map List.prod).sum, cumsumFrom 0 (shapes.map List.prod))

/-- `jnp.split(v, indices)`: pieces `v[0:i₁], v[i₁:i₂], …, v[i_L:]` -/
def splitFrom (v : Vec) (start : Nat) : List Nat → List Vec
  | [] => [v.drop start]
  | i :: is => sliceFT v start i :: splitFrom v i is

def jnpSplit (v : Vec) (idx : List Nat) : List Vec := splitFrom v 0 idx

/-- `a.reshape(b.shape)` (`TypeError` when the sizes differ) -/
def reshape (shape : List Nat) (piece : Vec) : Except String Leaf :=
  if piece.length = shape.prod then .ok ⟨shape, piece⟩ else .error eType

def reshapeAll : List (List Nat) → List Vec → Except String (List Leaf)
  | [], [] => .ok []
  | s :: ss, p :: ps => do
    let l ← reshape s p
    let ls ← reshapeAll ss ps
    pure (l :: ls)
  | _, _ => .error eValue

/-- `HYPERPINN._hyper_to_pinn`: `jnp.split(hyper_output, self.pinn_params_cumsum[:-1])`, the pieces
    put at the leaves in leaf order (`eqx.tree_at` over `tree_leaves`), each reshaped to its leaf's
    shape. -/
def hyperToPinn (shapes : List (List Nat)) (flat : Vec) : Except String (List Leaf) :=
  reshapeAll shapes (jnpSplit flat (paramNb shapes).2.dropLast)

/-- `jnp.concatenate([params.eq_params[k].flatten() for k in self.hyperparams])` -/
def hyperInput (eq : List (String × Val)) : List String → Except String Vec
  | [] => .ok []
  | k :: ks => do
    let v ← lookupEq eq k
    let r ← hyperInput eq ks
    pure (v.flat ++ r)

/-- `HYPERPINN.eval_nn`: the network parameters of the argument are those of the *hyper* network
    (same `try/except`); `params.eq_params` is read unconditionally. -/
def hyperEvalNN (hyperparams : List String) (innerSpec : List LayerSpec)
    (inT : Vec → PArg (List Layer) → Except String Vec)
    (outT : Vec → Val → PArg (List Layer) → Except String Val)
    (sl : Option OutSlice) (inputs : Vec) (p : PArg (List Layer)) : Except String Vec := do
  let eq ← p.eqParams
  let hin ← hyperInput eq hyperparams
  let flat := mlpEval p.nn hin
  let leaves ← hyperToPinn (leafShapes innerSpec) flat
  let inner := build innerSpec leaves
  evalNN (fun _ z => mlpEval inner z) inT outT sl inputs p

def hyperCall (eqT : EqType) (hyperparams : List String) (innerSpec : List LayerSpec)
    (inT : Vec → PArg (List Layer) → Except String Vec)
    (outT : Vec → Val → PArg (List Layer) → Except String Val)
    (sl : Option OutSlice) (args : List Val) (p : PArg (List Layer)) : Except String Vec := do
  let inputs ← callInputs eqT args
  hyperEvalNN hyperparams innerSpec inT outT sl inputs p

/-- `create_HYPERPINN` rewrites the hyper-network's `eqx_list`: the output size of the last entry
    (of the entry before it when the last one is an activation) becomes the number of parameters of
    the inner network; then the input size of the first entry (of the second one when the first is an
    activation) becomes `hypernet_input_size`.  Activations at either end are kept.
    (Two activations in a row at an end are outside the model: `IndexError` at the front, a
    mis-built layer at the back.) -/
def hyperArch (specs : List LayerSpec) (inSize nParams : Nat) : Except String (List LayerSpec) := do
  let lastDone ← match specs.reverse with
    | .lin i _ :: rest => pure (LayerSpec.lin i nParams :: rest).reverse
    | .act a :: .lin i _ :: rest => pure (LayerSpec.act a :: .lin i nParams :: rest).reverse
    | _ => throw eUnmodelled
  match lastDone with
  | .lin _ o :: tl => pure (.lin inSize o :: tl)
  | .act a :: .lin _ o :: tl => pure (.act a :: .lin inSize o :: tl)
  | .act _ :: .act _ :: _ => throw eIndex
  | _ => throw eUnmodelled

/-! ## SPINN -/

/-- `_SPINN.__call__` under `jax.vmap` over the batch: for sample `i`,
    `dimensions = concatenate([t_i, x_i.flatten()])` and `outputs[k] = mlp_k(dimensions[k][None])`.
    `feat[k][i]` = the `r*m` features of dimension `k` at sample `i`. -/
def spinnFeatures (nets : List (List Layer)) (pts : List Vec) : List (List Vec) :=
  (List.range nets.length).map (fun k =>
    pts.map (fun pt => mlpEval (nets.getD k []) [pt.getD k 0]))

/-- `res[:, d, m*r:(m+1)*r]` for one sample -/
def block (R m : Nat) (row : Vec) : Vec := sliceFT row (m * R) ((m + 1) * R)

/-- `jnp.einsum("az, bz, … -> ab…", …)` at one index tuple: `rows[k]` is the (length `R`) operand row
    selected for dimension `k`; nested folds over the summed letter `z` and over the operands. -/
def einsumEntry (R : Nat) (rows : List Vec) : Rat :=
  (List.range R).foldl (fun acc z => acc + rows.foldl (fun p row => p * row.getD z 0) 1) 0

/-- all index tuples of `{0..n-1}^d` in row-major (lexicographic) order -/
def allIdx : Nat → Nat → List (List Nat)
  | 0, _ => [[]]
  | d + 1, n => (List.range n).flatMap (fun i => (allIdx d n).map (fun t => i :: t))

/-- rows selected by an index tuple -/
def selectRows (feat : List (List Vec)) (idx : List Nat) : List Vec :=
  (List.range feat.length).map (fun k => (feat.getD k []).getD (idx.getD k 0) [])

/-- `SPINN.eval_nn(res)`: entry `[idx…, m]` of the stacked einsums. -/
def spinnEntry (R : Nat) (feat : List (List Vec)) (idx : List Nat) (m : Nat) : Rat :=
  einsumEntry R ((selectRows feat idx).map (block R m))

/-- the whole output, flattened row-major to `(n^d, M)` -/
def spinnEval (R M n : Nat) (feat : List (List Vec)) : List Vec :=
  (allIdx feat.length n).map (fun idx => (List.range M).map (fun m => spinnEntry R feat idx m))

/-- shape of the result: `stack(…, axis=-1)` of `M` arrays of shape `(n,)*d`, then
    `if len(res.shape) == self.d: expand_dims(res, -1)`. -/
def spinnShape (d n M : Nat) : List Nat :=
  let s := List.replicate d n ++ [M]
  if s.length == d then s ++ [1] else s

/-- `SPINN.__call__`: the per-sample coordinates (`x`, or `t ++ x`); `RuntimeError` for any other
    `eq_type` (including "ODE", which `create_SPINN` accepts). -/
def spinnPoints : EqType → Option (List Vec) → List Vec → Except String (List Vec)
  | .statio, none, x => .ok x
  | .nonstatio, some t, x => .ok (List.zipWith (· ++ ·) t x)
  | .statio, some _, _ => .error eValue
  | .nonstatio, none, _ => .error eValue
  | _, _, _ => .error eRuntime

def spinnCall (eqT : EqType) (R M : Nat) (t : Option (List Vec)) (x : List Vec)
    (p : PArg (List (List Layer))) : Except String (List Vec × List Nat) := do
  let pts ← spinnPoints eqT t x
  let nets := p.nn
  let feat := spinnFeatures nets pts
  pure (spinnEval R M pts.length feat, spinnShape nets.length pts.length M)

/-- the checks of `create_SPINN`, in the order of the code -/
def createSpinnCheck (eqT : EqType) (specs : List LayerSpec) (d r m : Nat) : Except String Unit := do
  if eqT == .other then throw eRuntime
  let nIn ← declaredIn specs
  if nIn != 1 then throw eValue
  let nOut ← declaredOut specs
  if nOut != r * m then throw eValue
  if d > 24 then throw eValue
  pure ()

end Jinns.Wrappers
