/-
Abstract algebra of scalar fields on `(t, x_0, …, x_{d-1})` with the derivations JAX's AD provides.
The network applied at fixed parameters is a family of fields `u : Nat → F` (component ↦ scalar field).
The AD primitives are defined once, in the shape JAX returns them (trusted AD contract, DESIGN §2.1):

  `grad(f, argnum = x)[i]`           = `∂_i f`                  (`gradX`)
  `hessian(f, argnum = x)[i][j]`     = `∂_j ∂_i f`              (`hessX`)
  `jvp(f, (x,), (v,))`               = `Σ_j v_j • ∂_j f`        (`jvpX`)
  `grad(f, argnum = t)`              = `∂_t f`                  (`ops.dT`)

Imports nothing outside core Lean.
-/
namespace Jinns.Calc

structure FieldOps (F : Type) where
  zero : F
  add  : F → F → F
  neg  : F → F
  mul  : F → F → F
  smul : Rat → F → F
  /-- derivative with respect to the time argument -/
  dT   : F → F
  /-- derivative with respect to spatial coordinate `i` -/
  dX   : Nat → F → F

variable {F : Type}

/-- `Σ_{i<n} g i` as a right fold starting from `zero` (the shape of `jnp.sum` over a scan). -/
def FieldOps.sum (ops : FieldOps F) (n : Nat) (g : Nat → F) : F :=
  ((List.range n).map g).foldr ops.add ops.zero

def FieldOps.sub (ops : FieldOps F) (a b : F) : F := ops.add a (ops.neg b)

/-- the gradient vector w.r.t. the spatial argument, as JAX returns it: entry `i` is `∂_i f` -/
def gradX (ops : FieldOps F) (d : Nat) (f : F) : List F := (List.range d).map (fun i => ops.dX i f)

/-- the Hessian w.r.t. the spatial argument: `H[i][j] = ∂_j (∂_i f)` -/
def hessX (ops : FieldOps F) (d : Nat) (f : F) : List (List F) :=
  (List.range d).map (fun i => (List.range d).map (fun j => ops.dX j (ops.dX i f)))

/-- `jnp.trace`: sum of the diagonal entries of a (square, `d × d`) matrix of fields;
    a missing entry counts as `zero` (never happens for `hessX`). -/
def trace (ops : FieldOps F) (d : Nat) (M : List (List F)) : F :=
  ops.sum d (fun i => ((M.getD i []).getD i ops.zero))

/-- `jax.nn.one_hot(i, d)` -/
def oneHot (i : Nat) (j : Nat) : Rat := if i = j then 1 else 0

/-- forward-mode directional derivative in the spatial argument with tangent `v` -/
def jvpX (ops : FieldOps F) (d : Nat) (v : Nat → Rat) (f : F) : F :=
  ops.sum d (fun j => ops.smul (v j) (ops.dX j f))

/-- The few algebraic laws the forward-mode theorems need (`Σ_j δ_ij a_j = a_i`). -/
structure LawfulOps (ops : FieldOps F) : Prop where
  add_zero : ∀ a, ops.add a ops.zero = a
  zero_add : ∀ a, ops.add ops.zero a = a
  one_smul : ∀ a, ops.smul 1 a = a
  zero_smul : ∀ a, ops.smul 0 a = ops.zero

end Jinns.Calc
