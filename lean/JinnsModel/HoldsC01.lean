/-
`Holds.C01` — the property C01 as a decidable predicate over what a user observes: the value an
operator of `jinns.loss` returns for a known polynomial field at a known point, the value it returns
again after unrelated parameters were changed, and the value the time-free operator returns for the
field frozen at the same time.

The right-hand sides are the MATHEMATICAL operators on exact polynomials in the variables
`(t, x_0, x_1, …)` (variable `i + 1` is `x_i`), written directly with `Σ_{i<d}` and partial derivatives in
the spatial variables only — not the model of the code (`JinnsModel/Operators.lean`); that the two
coincide is the content of `JinnsProofs/C01.lean`.

Returns `none` when the observation satisfies the property, `some clause` otherwise.
-/
import JinnsModel.Poly
import JinnsModel.OpNames
namespace Jinns.Holds
open Jinns.Calc

/-- `∂/∂x_i` on polynomials in `(t, x_0, …)` -/
def dxP (i : Nat) (p : Poly) : Poly := Poly.deriv (i + 1) p

/-- `Σ_{i<n} g i` (polynomial addition is concatenation of monomial lists) -/
def sumP (n : Nat) (g : Nat → Poly) : Poly := ((List.range n).map g).foldr (· ++ ·) []

/-- `Δ f = Σ_{i<d} ∂²f/∂x_i²` -/
def mathLap (d : Nat) (f : Poly) : Poly := sumP d (fun i => dxP i (dxP i f))

/-- `∇·u = Σ_{i<d} ∂u_i/∂x_i` -/
def mathDiv (d : Nat) (u : Nat → Poly) : Poly := sumP d (fun i => dxP i (u i))

/-- `((u·∇)u)_k = Σ_{j<2} u_j ∂u_k/∂x_j` -/
def mathAdv (u : Nat → Poly) (k : Nat) : Poly := sumP 2 (fun j => Poly.mul (u j) (dxP j (u k)))

/-- component `k` of the stationary Navier-Stokes residual `(u·∇)u + (1/ρ)∇p − ν Δu` -/
def mathNS (nu rho : Rat) (u : Nat → Poly) (p : Poly) (k : Nat) : Poly :=
  (mathAdv u k ++ Poly.smul (1 / rho) (dxP k p)) ++ Poly.neg (Poly.smul nu (mathLap 2 (u k)))

/-- one observation of an operator `op`; `u` are the components
    of the field (for `"ns"`: `u_x, u_y, p`); `pt = [t, x_0, …, x_{d-1}]` (`t` is any number when the operator
    was called without a time argument and the field does not depend on `t`). -/
structure Obs01 where
  op : OpName
  d : Nat
  m : Nat
  u : List Poly
  pt : List Rat
  nu : Rat
  rho : Rat
  /-- the value returned (one number per output component) -/
  value : List Rat
  /-- the values returned after changing only parameters the operator has nothing to do with -/
  perturbed : List (List Rat)
  /-- the value the operator returns WITHOUT time argument for the frozen field `x ↦ u(t, x)` -/
  frozen : Option (List Rat)

def comp (u : List Poly) (i : Nat) : Poly := u.getD i []

/-- the mathematical operator's value at the point -/
def expected01 (op : OpName) (d m : Nat) (u : List Poly) (nu rho : Rat) (pt : List Rat) : List Rat :=
  match op with
  | .lap => [Poly.eval (mathLap d (comp u 0)) pt]
  | .div => [Poly.eval (mathDiv d (comp u)) pt]
  | .veclap => (List.range m).map (fun j => Poly.eval (mathLap d (comp u j)) pt)
  | .adv => (List.range 2).map (fun k => Poly.eval (mathAdv (comp u) k) pt)
  | .ns => (List.range 2).map (fun k => Poly.eval (mathNS nu rho (comp u) (comp u 2) k) pt)

def holdsC01 (o : Obs01) : Option String :=
  let e := expected01 o.op o.d o.m o.u o.nu o.rho o.pt
  if o.pt.length != o.d + 1 then some "point-dimension"
  else if o.value != e then some "value-differs-from-mathematical-operator"
  else if o.perturbed.any (fun v => v != o.value) then some "value-depends-on-unrelated-parameter"
  else match o.frozen with
    | some v => if v != o.value then some "time-argument-not-held-fixed" else none
    | none => none

end Jinns.Holds
