/-
Model of the mini-batch cursor shared by every jinns data generator
(`jinns/data/_DataGenerators.py`: `_reset_or_increment`,
`_reset_batch_idx_and_permute`, `_increment_batch_idx` and the
`dynamic_slice` in `temporal_batch`, `inside_batch`, `border_batch`,
`obs_batch`, `param_batch`).

The PRNG is an oracle: every request carries the store that
`jax.random.choice(..., replace=False)` would produce if a reshuffle happens
(it is ignored otherwise).  Its contract is `oracle ~ store` (`List.Perm`).
Imports nothing outside core Lean.
-/
namespace Jinns.Minibatch

/-- State of one cursor: the (permuted) store, the cursor and the static batch size. -/
structure MB (α : Type) where
  store : List α
  idx   : Nat
  b     : Nat
deriving Repr

/-- `jnp.iinfo(jnp.int32).max - b - 1` : the cursor right after construction. -/
def initIdx (b : Nat) : Nat := 2147483647 - b - 1

def init (store : List α) (b : Nat) : MB α := { store := store, idx := initIdx b, b := b }

/-- `jax.lax.dynamic_slice(store, (i,), (b,))`: the start index is clamped to `len - b`. -/
def slice (s : List α) (i b : Nat) : List α := (s.drop (min i (s.length - b))).take b

/-- Does the request reshuffle?  (`bend >= n_eff` with `bend = idx + b`.) -/
def resets (nEff : Nat) (m : MB α) : Bool := decide (nEff ≤ m.idx + m.b)

/-- One `get_batch` request on one cursor.  `oracle` is the reshuffled store the PRNG would
    produce; it is used only when the request reshuffles.  Returns the new state and the batch. -/
def next (nEff : Nat) (m : MB α) (oracle : List α) : MB α × List α :=
  let m' : MB α :=
    if resets nEff m then { m with store := oracle, idx := 0 }
    else { m with idx := m.idx + m.b }
  (m', slice m'.store m'.idx m'.b)

/-- A whole history of requests: the list of batches served, and the final state. -/
def run (nEff : Nat) : MB α → List (List α) → MB α × List (List α)
  | m, [] => (m, [])
  | m, o :: os =>
    let (m', bt) := next nEff m o
    let (m'', bts) := run nEff m' os
    (m'', bt :: bts)

/-- The flags "this request reshuffled", along a history. -/
def resetFlags (nEff : Nat) : MB α → List (List α) → List Bool
  | _, [] => []
  | m, o :: os => resets nEff m :: resetFlags nEff (next nEff m o).1 os

/-- Number of requests in one epoch: `⌈n / b⌉`. -/
def epochLen (n b : Nat) : Nat := (n + b - 1) / b

end Jinns.Minibatch
