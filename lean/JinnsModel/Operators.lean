/-
C01 / C11 — the differential operators of `jinns/loss/_operators.py`, transcribed IN THE SHAPE OF THE CODE
over the abstract field algebra `FieldOps F` (JAX AD = the derivations `dT`, `dX i`; trusted AD
contract of DESIGN §2.1).

A network applied at fixed parameters is `u : Nat → F` (component ↦ scalar field on `(t, x)`).

Every operator has a `t is None` branch (the network has signature `u(x, params)`, the spatial
argument is positional argument 0) and a `t` given branch (signature `u(t, x, params)`, the spatial
argument is positional argument 1).  The two branches are the two constructors of `Sig`; which
positional argument JAX differentiates is the explicit `argnum` handed to `gradArg` / `hessArg`, so a
wrong `argnums` is a different model.

Reverse mode (PINN):   `_laplacian_rev`, `_div_rev`, `_vectorial_laplacian`, `_u_dot_nabla_times_u_rev`
Forward mode (SPINN):  `_laplacian_fwd`, `_div_fwd`, `_vectorial_laplacian` (SPINN branch),
                       `_u_dot_nabla_times_u_fwd`

Imports nothing outside core Lean.
-/
import JinnsModel.FieldOps
namespace Jinns.Operators
open Jinns.Calc

variable {F : Type}

/-- the call signature of the network seen by an operator: `t is None` (`u(x, params)`) or `t` given
    (`u(t, x, params)`) -/
inductive Sig where
  | noTime
  | withTime
deriving DecidableEq, Repr

/-- the positional index of the spatial argument `x` in the lambda the code differentiates:
    `grad(lambda x, params: …, 0)` / `grad(lambda t, x, params: …, 1)`;
    `jax.hessian(u_)` (default `argnums = 0`) / `jax.hessian(u_, argnums=1)` -/
def xArg : Sig → Nat
  | .noTime => 0
  | .withTime => 1

/-- `jax.grad(f, argnum)` of a function with signature `sig`, as the vector JAX returns:
    w.r.t. `x` the `d` spatial partials, w.r.t. `t` (shape `(1,)`) the single time derivative.
    An `argnum` outside the signature is a JAX error (empty vector here; never reached by the
    transcriptions below). -/
def gradArg (ops : FieldOps F) (d : Nat) : Sig → Nat → F → List F
  | .noTime, 0 => gradX ops d
  | .withTime, 0 => fun f => [ops.dT f]
  | .withTime, 1 => gradX ops d
  | _, _ => fun _ => []

/-- `jax.hessian(f, argnums = argnum)` of a function with signature `sig` -/
def hessArg (ops : FieldOps F) (d : Nat) : Sig → Nat → F → List (List F)
  | .noTime, 0 => hessX ops d
  | .withTime, 0 => fun f => [[ops.dT (ops.dT f)]]
  | .withTime, 1 => hessX ops d
  | _, _ => fun _ => []

/-- entry `i` of a JAX vector; the indices transcribed below are in range, the default is never used -/
def nth (ops : FieldOps F) (l : List F) (i : Nat) : F := l.getD i ops.zero

/-! ## reverse mode -/

/-- `_laplacian_rev`:
    `u_ = lambda x: u(x, params)[0]`, `return jnp.trace(jax.hessian(u_)(x))`                (`t is None`)
    `u_ = lambda t, x: u(t, x, params)[0]`, `return jnp.trace(jax.hessian(u_, argnums=1)(t, x))` -/
def lapRev (ops : FieldOps F) (d : Nat) : Sig → (Nat → F) → F
  | .noTime, u => trace ops d (hessArg ops d .noTime 0 (u 0))
  | .withTime, u => trace ops d (hessArg ops d .withTime 1 (u 0))

/-- `_div_rev`: `scan` over `jnp.arange(x.shape[0])` of
    `grad(lambda x, params: u(x, params)[i], 0)(x, params)[i]`            (`t is None`)
    `grad(lambda t, x, params: u(t, x, params)[i], 1)(t, x, params)[i]`   (`t` given),
    then `jnp.sum(accu)` -/
def divRev (ops : FieldOps F) (d : Nat) : Sig → (Nat → F) → F
  | .noTime, u => ops.sum d (fun i => nth ops (gradArg ops d .noTime 0 (u i)) i)
  | .withTime, u => ops.sum d (fun i => nth ops (gradArg ops d .withTime 1 (u i)) i)

/-- `_vectorial_laplacian(t, x, u, params, u_vec_ndim = m)`, PINN branch: `scan` over `jnp.arange(m)`
    of `_laplacian_rev(t, x, uj, params)` with `uj = expand_dims(u(…)[j], axis=-1)` (a one-component
    network whose component 0 is `u j`) -/
def vecLapRev (ops : FieldOps F) (d : Nat) (sig : Sig) (m : Nat) (u : Nat → F) : List F :=
  (List.range m).map (fun j => lapRev ops d sig (fun _ => u j))

/-- `_u_dot_nabla_times_u_rev` (`x.shape[0] == 2`): `ux`, `uy` = components 0, 1;
    `dux_dx = grad(ux, a)(…)[0]`, `dux_dy = grad(ux, a)(…)[1]`, `duy_dx = grad(uy, a)(…)[0]`,
    `duy_dy = grad(uy, a)(…)[1]` with `a = 0` (`t is None`) / `a = 1` (`t` given); returns
    `[ux*dux_dx + uy*dux_dy, ux*duy_dx + uy*duy_dy]` -/
def advRev (ops : FieldOps F) : Sig → (Nat → F) → List F
  | .noTime, u =>
    let ux := u 0
    let uy := u 1
    let dux_dx := nth ops (gradArg ops 2 .noTime 0 ux) 0
    let dux_dy := nth ops (gradArg ops 2 .noTime 0 ux) 1
    let duy_dx := nth ops (gradArg ops 2 .noTime 0 uy) 0
    let duy_dy := nth ops (gradArg ops 2 .noTime 0 uy) 1
    [ ops.add (ops.mul ux dux_dx) (ops.mul uy dux_dy),
      ops.add (ops.mul ux duy_dx) (ops.mul uy duy_dy) ]
  | .withTime, u =>
    let ux := u 0
    let uy := u 1
    let dux_dx := nth ops (gradArg ops 2 .withTime 1 ux) 0
    let dux_dy := nth ops (gradArg ops 2 .withTime 1 ux) 1
    let duy_dx := nth ops (gradArg ops 2 .withTime 1 uy) 0
    let duy_dy := nth ops (gradArg ops 2 .withTime 1 uy) 1
    [ ops.add (ops.mul ux dux_dx) (ops.mul uy dux_dy),
      ops.add (ops.mul ux duy_dx) (ops.mul uy duy_dy) ]

/-! ## forward mode (separable networks)

In every forward operator the time argument is captured by the closure
(`lambda x: u(t, x, params)[..., 0]`) and `jax.jvp` differentiates the single positional argument `x`,
so the two `t` branches of the code are the same expression; the tangent is
`jnp.repeat(jax.nn.one_hot(i, x.shape[-1])[None], x.shape[0], axis=0)`: the same one-hot direction at
every row of the batch. -/

/-- `_laplacian_fwd`: `scan` over `jnp.arange(x.shape[1])` of
    `jvp(lambda x: jvp(lambda x: u(…)[..., 0], (x,), (tangent_vec,))[1], (x,), (tangent_vec,))[1]`,
    then `jnp.sum(trace_hessian, axis=0)` -/
def lapFwd (ops : FieldOps F) (d : Nat) (u : Nat → F) : F :=
  ops.sum d (fun i => jvpX ops d (oneHot i) (jvpX ops d (oneHot i) (u 0)))

/-- `_div_fwd`: `scan` over `jnp.arange(x.shape[1])` of
    `jvp(lambda x: u(…)[..., i], (x,), (tangent_vec,))[1]`, then `jnp.sum(accu, axis=0)` -/
def divFwd (ops : FieldOps F) (d : Nat) (u : Nat → F) : F :=
  ops.sum d (fun i => jvpX ops d (oneHot i) (u i))

/-- `_vectorial_laplacian`, SPINN branch: `scan` over `jnp.arange(m)` of `_laplacian_fwd(t, x, uj, params)`
    with `uj = expand_dims(u(…)[..., j], axis=-1)` -/
def vecLapFwd (ops : FieldOps F) (d m : Nat) (u : Nat → F) : List F :=
  (List.range m).map (fun j => lapFwd ops d (fun _ => u j))

/-- `jnp.array([1.0, 0.0])` -/
def tangent0 (j : Nat) : Rat := ([1, 0] : List Rat).getD j 0
/-- `jnp.array([0.0, 1.0])` -/
def tangent1 (j : Nat) : Rat := ([0, 1] : List Rat).getD j 0

/-- `_u_dot_nabla_times_u_fwd` (`x.shape[-1] == 2`):
    `u_at_x, du_dx = jvp(lambda x: u(…), (x,), (tangent_vec_0,))`, `…, du_dy = jvp(…, (tangent_vec_1,))`,
    returns `[u[...,0]*du_dx[...,0] + u[...,1]*du_dy[...,0], u[...,0]*du_dx[...,1] + u[...,1]*du_dy[...,1]]` -/
def advFwd (ops : FieldOps F) (u : Nat → F) : List F :=
  let du_dx := fun k => jvpX ops 2 tangent0 (u k)
  let du_dy := fun k => jvpX ops 2 tangent1 (u k)
  [ ops.add (ops.mul (u 0) (du_dx 0)) (ops.mul (u 1) (du_dy 0)),
    ops.add (ops.mul (u 0) (du_dx 1)) (ops.mul (u 1) (du_dy 1)) ]

end Jinns.Operators
