/-
Model of per-sample ("batched") and heterogeneous equation parameters (property C12).

Mirrors
* `jinns/parameters/_params.py`: `_update_eq_params_dict` (`updateEq`), `_get_vmap_in_axes_params`
  (`inAxes`);
* `jax.vmap` with an in-axes tree over the parameters (`pick`, `select`, `vmapTerm`);
* `jinns/loss/_DynamicLossAbstract.py`: `_eval_heterogeneous_parameters` (`evalHetero`) and
  `_decorator_heteregeneous_params` (`heteroWrap`);
* the `evaluate` methods of `LossODE`, `LossPDEStatio`, `LossPDENonStatio`
  (`jinns/loss/_LossODE.py`, `_LossPDE.py`) and the `*_apply` helpers of `_loss_utils.py`
  (`evalSingleT`): which parameters each sample of each term sees, and how the samples are
  aggregated.

Parameters are association lists key ↦ value, a value being the flattened list of its entries
(shape `()` and `(1,)` are lists of length one, `(k,)` a list of length `k`).  A parameter batch is an
association list key ↦ rows (`(B,1)` arrays: `B` rows of length one).

User functions (networks, residual maps, boundary / initial functions, heterogeneity maps) are
*arguments*: `f : point → parameters → value`.  Any per-sample datum (observed value, target) rides
in the point.  The specification-side function is `override`; the code-side functions are
`updateEq`/`inAxes`/`select`; `JinnsProofs/C12.lean` proves that they coincide.
Imports nothing outside core Lean.
-/
namespace Jinns.ParamBatch

abbrev Val := List Rat
abbrev Params := List (String × Val)
/-- batched keys with their rows (`param_batch_dict`, `obs_batch_dict["eq_params"]`) -/
abbrev Rows := List (String × List Val)

/-- association-list lookup (first match) -/
def get? {α : Type} (k : String) : List (String × α) → Option α
  | [] => none
  | kv :: r => if kv.1 = k then some kv.2 else get? k r

def keys {α : Type} (l : List (String × α)) : List String := l.map (·.1)

def hasKey {α : Type} (k : String) (l : List (String × α)) : Bool := (get? k l).isSome

/-! ### specification side -/

/-- Parameters seen by sample `i`: row `i` of every batched key, the caller's value of all others.
    Only the caller's keys exist in the result. -/
def rowOr (rows : Rows) (i : Nat) (k : String) (v : Val) : Val :=
  match get? k rows with
  | some rs => rs.getD i []
  | none => v

def override (p : Params) (rows : Rows) (i : Nat) : Params :=
  p.map fun kv => (kv.1, rowOr rows i kv.1 kv.2)

/-! ### code side -/

/-- a leaf of `params.eq_params` after `_update_eq_params_dict`: the caller's array or the whole
    stacked batch -/
inductive Entry where
  | plain (v : Val)
  | stacked (rs : List Val)
deriving Repr, BEq

abbrev Tree := List (String × Entry)

def ofParams (p : Params) : Tree := p.map fun kv => (kv.1, Entry.plain kv.2)

/-- `_update_eq_params_dict(params, batch_dict)`: a *new* tree in which the batched keys hold the
    stacked rows; `jax.tree_util.tree_map` raises (`ValueError`) when the batch names a key the
    caller does not have. -/
def stackEntry (rows : Rows) (k : String) (e : Entry) : Entry :=
  match get? k rows with
  | some rs => Entry.stacked rs
  | none => e

def stackTree (t : Tree) (rows : Rows) : Tree := t.map fun e => (e.1, stackEntry rows e.1 e.2)

def updateEq (t : Tree) (rows : Rows) : Except String Tree :=
  if rows.all (fun r => hasKey r.1 t) then .ok (stackTree t rows) else .error "value_error"

/-- `_get_vmap_in_axes_params(batch_dict, params)`: `none` stands for `(None,)` (no batch at all);
    otherwise `0` on batched keys and `None` elsewhere (`nn_params = None` is implicit). -/
def axisOf (ks : List String) (k : String) : Option Nat := if ks.contains k then some 0 else none

def inAxes (t : Tree) (batched : Option (List String)) : Option (List (String × Option Nat)) :=
  batched.map fun ks => t.map fun e => (e.1, axisOf ks e.1)

/-- what `vmap` hands to the mapped function at index `i` for one leaf -/
def pick : Entry → Option Nat → Nat → Val
  | .plain v, none, _ => v
  | .stacked rs, none, _ => rs.flatten            -- unmapped: the whole stack
  | .stacked rs, some _, i => rs.getD i []          -- mapped over axis 0: row i
  | .plain v, some _, i => [v.getD i 0]             -- mapped over axis 0 of the caller's own array

def entryVal : Entry → Val
  | .plain v => v
  | .stacked rs => rs.flatten

/-- the parameters the mapped function receives at index `i` -/
def select (t : Tree) (axes : Option (List (String × Option Nat))) (i : Nat) : Params :=
  match axes with
  | none => t.map fun e => (e.1, entryVal e.2)
  | some ax => t.map fun e => (e.1, pick e.2 ((get? e.1 ax).getD none) i)

/-- size of axis 0 of a leaf -/
def entrySize : Entry → Nat
  | .plain v => v.length
  | .stacked rs => rs.length

/-- sizes of all mapped parameter axes -/
def mappedSizes (t : Tree) (axes : Option (List (String × Option Nat))) : List Nat :=
  match axes with
  | none => []
  | some ax => (t.filter fun e => ((get? e.1 ax).getD none).isSome).map fun e => entrySize e.2

/-- `vmap` checks that all mapped axes have the same size -/
def sizesOk (n : Nat) (t : Tree) (axes : Option (List (String × Option Nat))) : Bool :=
  (mappedSizes t axes).all (· == n)

/-- `vmap(lambda x, params: f(x, params), (0,) + axes)(xs, params)` -/
def vmapTerm (f : List Rat → Params → Val) (xs : List (List Rat)) (t : Tree)
    (axes : Option (List (String × Option Nat))) : List Val :=
  (List.range xs.length).map fun i => f (xs.getD i []) (select t axes i)

/-! ### aggregation (re-defined here: this model does not depend on the C03/C05 files) -/

def sum (l : List Rat) : Rat := l.foldr (· + ·) 0
def mean (l : List Rat) : Rat := sum l / (l.length : Nat)
def sq (v : Val) : Rat := sum (v.map fun x => x * x)

/-- `jnp.mean(jnp.sum(w * res**2, axis=-1))` -/
def mseOf (w : Rat) (vs : List Val) : Rat := mean (vs.map fun v => w * sq v)

/-- `w * (jnp.mean(vals, axis=(-2,-1)) * L - 1)**2` (stationary normalisation) -/
def normOf (w L : Rat) (vs : List Val) : Rat :=
  let m := mean vs.flatten
  w * ((m * L - 1) * (m * L - 1))

/-! ### heterogeneous parameters -/

/-- a heterogeneity declaration: key ↦ `None` or a function of the point and the parameters -/
abbrev Het := List (String × Option (List Rat → Params → Val))

/-- `_eval_heterogeneous_parameters`: loops over the keys of `params.eq_params`; a declared function
    is applied to the point and the **original** parameters; `None`, a missing key (`KeyError`
    caught) or no declaration at all pass the value through. -/
def hetVal (h : Het) (pt : List Rat) (p : Params) (k : String) (v : Val) : Val :=
  match get? k h with
  | some (some g) => g pt p
  | _ => v

def evalHetero (het : Option Het) (p : Params) (pt : List Rat) : Params :=
  match het with
  | none => p
  | some h => p.map fun kv => (kv.1, hetVal h pt p kv.1 kv.2)

/-- `_decorator_heteregeneous_params`: the wrapped `evaluate` replaces its last argument; so
    `equation` – and whatever `equation` passes on to the network – receives the replaced parameters,
    nothing outside the dynamic loss does. -/
def heteroWrap (het : Option Het) (eq : List Rat → Params → Val) : List Rat → Params → Val :=
  fun pt p => eq pt (evalHetero het p pt)

/-! ### the single losses -/

/-- one `vmap`ped mean-squared term -/
structure MseIn where
  w  : Rat
  f  : List Rat → Params → Val
  xs : List (List Rat)

/-- Configuration and batch of one `LossODE` / `LossPDEStatio` / `LossPDENonStatio` evaluation.
    Absent terms are `none` / `[]` and evaluate to `0` as in the code. -/
structure Single where
  paramRows : Option Rows              -- `batch.param_batch_dict`
  obsRows   : Option Rows              -- `batch.obs_batch_dict["eq_params"]` (with `obs`)
  het       : Option Het               -- `dynamic_loss.eq_params_heterogeneity`
  dyn       : Option MseIn             -- `equation` and the collocation points
  icODE     : Option (Rat × (List Rat → Params → Val) × List Rat)   -- weight, `u(t0,·) − u0`, point
  icPDE     : Option MseIn             -- `u0(x) − u(0,x,·)` over the omega batch
  boundary  : List MseIn               -- one entry per facet with a condition
  norm      : Option (Rat × Rat × (List Rat → Params → Val) × List (List Rat))  -- w, L, u, samples
  normNS    : Option (Rat × Rat × (List Rat → Params → Val) × List (List Rat) × List (List Rat))
              -- non-stationary normalisation: w, L, u, time rows `(t)`, samples `(x…)`
  obs       : Option MseIn             -- `u(in_i,·)[slices] − val_i`

structure Terms where
  dyn : Rat
  ic : Rat
  boundary : Rat
  norm : Rat
  obs : Rat
deriving Repr, BEq

def Terms.total (t : Terms) : Rat := t.dyn + t.ic + t.boundary + t.norm + t.obs

/-- a vmapped term, with the size check of `vmap` -/
def mseTerm (m : MseIn) (t : Tree) (axes : Option (List (String × Option Nat))) : Except String Rat :=
  if sizesOk m.xs.length t axes then .ok (mseOf m.w (vmapTerm m.f m.xs t axes))
  else .error "value_error"

def optTerm (m : Option MseIn) (t : Tree) (axes : Option (List (String × Option Nat))) :
    Except String Rat :=
  match m with
  | none => .ok 0
  | some m => mseTerm m t axes

def sumTerms (ms : List MseIn) (t : Tree) (axes : Option (List (String × Option Nat))) :
    Except String Rat :=
  match ms with
  | [] => .ok 0
  | m :: r => do
    let a ← mseTerm m t axes
    let b ← sumTerms r t axes
    pure (a + b)

/-- initial condition of `LossODE`: `vmap(u, (None,) + axes)` when at least one parameter axis is
    mapped (then the mean runs over the parameter batch), the plain call otherwise -/
def icODETerm (ic : Option (Rat × (List Rat → Params → Val) × List Rat)) (t : Tree)
    (axes : Option (List (String × Option Nat))) : Except String Rat :=
  match ic with
  | none => .ok 0
  | some (w, f, pt) =>
    match mappedSizes t axes with
    | [] => .ok (mseOf w [f pt (select t axes 0)])
    | n :: rest =>
      if rest.all (· == n) then
        .ok (mseOf w ((List.range n).map fun i => f pt (select t axes i)))
      else .error "value_error"

def normTerm (nm : Option (Rat × Rat × (List Rat → Params → Val) × List (List Rat))) (t : Tree)
    (axes : Option (List (String × Option Nat))) : Except String Rat :=
  match nm with
  | none => .ok 0
  | some (w, L, f, xs) =>
    if sizesOk xs.length t axes then .ok (normOf w L (vmapTerm f xs t axes))
    else .error "value_error"

/-- non-stationary normalisation (`normalization_loss_apply`, two-batch branch): the outer `vmap` maps the
    time rows together with the parameters, the inner one maps the normalisation samples only (the
    parameters are already per time sample):
    `w · mean_i (L · mean_{j,c} u(t_i, s_j; params_i)_c − 1)²` -/
def normNSOf (w L : Rat) (f : List Rat → Params → Val) (ts ss : List (List Rat)) (sel : Nat → Params) : Rat :=
  w * mean ((List.range ts.length).map fun i =>
    let m := mean ((ss.map fun s => f ((ts.getD i []) ++ s) (sel i)).flatten)
    (m * L - 1) * (m * L - 1))

def normNSTerm
    (nm : Option (Rat × Rat × (List Rat → Params → Val) × List (List Rat) × List (List Rat)))
    (t : Tree) (axes : Option (List (String × Option Nat))) : Except String Rat :=
  match nm with
  | none => .ok 0
  | some (w, L, f, ts, ss) =>
    if sizesOk ts.length t axes then .ok (normNSOf w L f ts ss fun i => select t axes i)
    else .error "value_error"

/-- `if batch.param_batch_dict is not None: params = _update_eq_params_dict(params, …)` -/
def stage1 (t0 : Tree) (pr : Option Rows) : Except String Tree :=
  match pr with
  | none => .ok t0
  | some rows => updateEq t0 rows

/-- observation term: second update with the observed parameters
    (`batch.obs_batch_dict["eq_params"]`), in-axes over both key sets -/
def obsTerm (t1 : Tree) (pr orows : Option Rows) (obs : Option MseIn) : Except String Rat :=
  match obs with
  | none => .ok 0
  | some m =>
    match updateEq t1 (orows.getD []) with
    | .error e => .error e
    | .ok t2 => mseTerm m t2 (inAxes t2 (some (((pr.map keys).getD []) ++ keys (orows.getD []))))

/-- `evaluate` of a single loss, started from an already built parameter tree (the system losses
    hand the updated tree to their internal single losses, which update it again). -/
def evalSingleT (t0 : Tree) (s : Single) : Except String Terms := do
  let t1 ← stage1 t0 s.paramRows
  let ax1 := inAxes t1 (s.paramRows.map keys)
  let dyn ← optTerm (s.dyn.map fun m => { m with f := heteroWrap s.het m.f }) t1 ax1
  let icO ← icODETerm s.icODE t1 ax1
  let icP ← optTerm s.icPDE t1 ax1
  let bd ← sumTerms s.boundary t1 ax1
  let nm ← normTerm s.norm t1 ax1
  let nmNS ← normNSTerm s.normNS t1 ax1
  let ob ← obsTerm t1 s.paramRows s.obsRows s.obs
  pure { dyn := dyn, ic := icO + icP, boundary := bd, norm := nm + nmNS, obs := ob }

def evalSingle (p : Params) (s : Single) : Except String Terms := evalSingleT (ofParams p) s

/-! ### derivative routing of the dynamic term

`_set_derivatives(params, derivative_keys.dyn_loss)` is applied to the parameters *after* the batch has
been written into them: the derivative key of `k` gates the gradient that flows into the rows of a
batched key, and nothing flows into the caller's own value of a batched key (it is not an input of any
sample any more).  JAX AD is a contract, not a model: `df k j pt params` is the partial derivative of the
user function with respect to entry `j` of the value of key `k` (tangent oracle). -/

abbrev Tangent := String → Nat → List Rat → Params → Val

def dotV (a b : Val) : Rat := sum (List.zipWith (· * ·) a b)

/-- derivative of `w · Σ_c f_c²` at one sample -/
def sampleGrad (w : Rat) (f : List Rat → Params → Val) (df : Tangent) (x : List Rat) (q : Params)
    (k : String) (j : Nat) : Rat :=
  w * (2 * dotV (f x q) (df k j x q))

/-- gradient of the dynamic term with respect to entry `j` of row `i` of the batched key `k` -/
def dynGradRow (m : MseIn) (df : Tangent) (t : Tree) (axes : Option (List (String × Option Nat)))
    (mask : String → Bool) (k : String) (i j : Nat) : Rat :=
  if mask k then sampleGrad m.w m.f df (m.xs.getD i []) (select t axes i) k j / (m.xs.length : Nat)
  else 0

/-- gradient of the dynamic term with respect to entry `j` of the caller's value of key `k` -/
def dynGradCaller (m : MseIn) (df : Tangent) (t : Tree) (axes : Option (List (String × Option Nat)))
    (mask : String → Bool) (batchedKeys : List String) (k : String) (j : Nat) : Rat :=
  if batchedKeys.contains k then 0
  else if mask k then
    mean ((List.range m.xs.length).map fun i => sampleGrad m.w m.f df (m.xs.getD i []) (select t axes i) k j)
  else 0

end Jinns.ParamBatch
