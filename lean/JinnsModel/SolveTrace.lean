/-
Plain data shared by the executable instance of the training-loop model (`SolveFamily`) and by
the trace predicates `Holds.C07 / C18 / C19`: exact values with NaN, batches, and the two kinds
of trace (what the textbook reference loop produces; what was observed on `jinns.solve`).
Imports nothing outside core Lean.
-/
namespace Jinns.SolveTrace

/-- a float64 value of an exact program: an exact rational, or NaN (`none`) -/
abbrev Val := Option Rat

def vadd : Val → Val → Val
  | some x, some y => some (x + y)
  | _, _ => none

def vmul : Val → Val → Val
  | some x, some y => some (x * y)
  | _, _ => none

def vsum (l : List Val) : Val := l.foldl vadd (some 0)

/-- parameters: the leaves of the `Params` pytree in `jax.tree_util.tree_leaves` order, each
    flattened -/
abbrev Params := List (List Val)

def hasNaN (θ : Params) : Bool := θ.any (fun leaf => leaf.any (fun v => v.isNone))

/-- a batch: its columns (time points; then one column per sampled equation parameter; then the
    observation inputs and values), each flattened -/
structure Batch where
  cols : List (List Rat)
deriving Repr, DecidableEq, Inhabited

/-- what can be read off an optax state of the exact optimizer family -/
structure OptObs where
  count : Option Nat          -- step counter(s), when the chain has one
  trace : Option Params       -- momentum trace, when momentum is used
deriving Repr, DecidableEq, Inhabited

/-- The trace of the textbook loop on a program, for `n` iterations (it does not stop on NaN:
    NaN simply propagates through the arithmetic). -/
structure RefTrace where
  n       : Nat
  batches : List Batch        -- the i-th batch of the generators passed in, i < n
  thetas  : List Params       -- θ_0 … θ_n
  opts    : List OptObs       -- opt_0 … opt_n
  gens    : List (List String)-- fingerprints of the data generator after 0 … n draws
  losses  : List Val          -- loss at θ_i on batch i
  terms   : List (List Val)   -- its terms
  tracked : List Params       -- tracked leaves of θ_{i+1}
  zeroTracked : Params        -- initial content of one slot of the tracked histories
  nTerms  : Nat
deriving Inhabited

/-- What is observed on one call of `jinns.solve` (the 9-tuple, plus what the harness-side loss
    and validation module recorded while the compiled loop ran). -/
structure Obs where
  iters    : Nat               -- loss evaluations inside the loop = iterations run
  batches  : List Batch        -- the batch each of them was given
  params   : Params            -- returned parameters
  lossH    : List Val          -- total_loss_values
  termH    : List (List Val)   -- stored_loss_terms, one record per slot
  trackH   : List Params       -- stored_params, one record per slot (tracked leaves only)
  opt      : OptObs            -- returned optimizer state
  gen      : List String       -- fingerprint of the returned data generator
  critH    : Option (List Val) -- validation_crit_values
  best     : Option Params     -- best_val_params
deriving Inhabited

end Jinns.SolveTrace
