/-
Model of the system losses (property C13; the parameter-batch statements of C12 for systems).

Mirrors `SystemLossODE` (`jinns/loss/_LossODE.py`) and `SystemLossPDE` (`jinns/loss/_LossPDE.py`):
* `set_loss_weights` (`setOne`, `setLossWeights`): a scalar is broadcast over the *equations* for
  `dyn_loss` and over the *unknowns* for every other field; a dictionary must have exactly the keys of
  `dynamic_loss_dict` (resp. `u_dict`); `None` is a null weight per equation (resp. per unknown);
  a vectorial value is rejected;
* `evaluate`: functional update of the parameters with the batch (`ParamBatch.stage1`), one
  `dynamic_loss_apply` per equation with that equation's weight, the equation being called on the
  collocation row `(t, x…)` in the documented order with all networks and all parameters
  (`sysDyn`); then `constraints_system_loss_apply` (`jinns/loss/_loss_utils.py`): every unknown's
  internal single loss (unit weights, no dynamic part) is evaluated on the same batch with its own
  observation batch, its terms are multiplied by the unknown's weights and summed over the unknowns
  (`consSum`); `res_dict["dyn_loss"] += mse_dyn_loss`, `total_loss += mse_dyn_loss`.

User functions are arguments: the residual of an equation is `f : row → parameters → value` (the
networks are closed over).  Imports nothing outside core Lean (and the C12 model).
-/
import JinnsModel.ParamBatch

namespace Jinns.SystemLoss
open Jinns.ParamBatch

/-- one field of `LossWeightsODEDict` / `LossWeightsPDEDict` as the user may give it -/
inductive WSpec where
  | none                                  -- `None` (missing)
  | scalar (w : Rat)                      -- int, float, 0-d or `(1,)` array
  | dict (d : List (String × Rat))        -- per-key dictionary of scalars
  | vector                                -- an array that is not a scalar
  | dictVector (ks : List String)         -- a dictionary holding a non-scalar array
deriving Repr

/-- `a.keys() == b.keys()` (set equality of dictionary keys) -/
def sameKeys (a b : List String) : Bool := a.all b.contains && b.all a.contains

/-- one iteration of the loop of `set_loss_weights`; `ks` are the keys of `dynamic_loss_dict` for
    the field `dyn_loss` and the keys of `u_dict` for every other field -/
def setOne (ks : List String) : WSpec → Except String (List (String × Rat))
  | .dict d => if sameKeys (keys d) ks then .ok d else .error "value_error"
  | .none => .ok (ks.map fun k => (k, 0))
  | .scalar w => .ok (ks.map fun k => (k, w))
  | .vector => .error "value_error"
  | .dictVector _ => .error "value_error"

structure WSpecs where
  dyn : WSpec
  ic : WSpec
  boundary : WSpec
  norm : WSpec
  obs : WSpec

structure Weights where
  dyn : List (String × Rat)
  ic : List (String × Rat)
  boundary : List (String × Rat)
  norm : List (String × Rat)
  obs : List (String × Rat)

/-- `set_loss_weights` (fields in declaration order; the ODE class has no `norm_loss` /
    `boundary_loss` fields: give them `WSpec.none`) -/
def setLossWeights (eqKeys uKeys : List String) (w : WSpecs) : Except String Weights := do
  let d ← setOne eqKeys w.dyn
  let n ← setOne uKeys w.norm
  let b ← setOne uKeys w.boundary
  let o ← setOne uKeys w.obs
  let i ← setOne uKeys w.ic
  pure { dyn := d, ic := i, boundary := b, norm := n, obs := o }

def weightOf (w : List (String × Rat)) (k : String) : Rat := (get? k w).getD 0

/-- one entry of `dynamic_loss_dict` -/
structure Eqn where
  het : Option Het
  f : List Rat → Params → Val

/-- a system loss and the batch it is evaluated on -/
structure Sys where
  paramRows : Option Rows
  pts : List (List Rat)               -- collocation rows: `(t)`, `(x…)` or `(t, x…)`
  eqs : List (String × Eqn)           -- `dynamic_loss_dict`
  unknowns : List (String × Single)   -- `u_constraints_dict` with each unknown's observation batch
  weights : WSpecs

/-- the internal single loss of an unknown: `dynamic_loss=None`, unit weights, the system's batch -/
def unitMse (m : MseIn) : MseIn := { m with w := 1 }

def unitSingle (pr : Option Rows) (s : Single) : Single :=
  { paramRows := pr, obsRows := s.obsRows, het := none, dyn := none,
    icODE := s.icODE.map fun q => (1, q.2.1, q.2.2),
    icPDE := s.icPDE.map unitMse,
    boundary := s.boundary.map unitMse,
    norm := s.norm.map fun q => (1, q.2.1, q.2.2.1, q.2.2.2),
    normNS := s.normNS.map fun q => (1, q.2.1, q.2.2.1, q.2.2.2.1, q.2.2.2.2),
    obs := s.obs.map unitMse }

/-- `tree_map(dyn_loss_for_one_key, dynamic_loss_dict, _loss_weights["dyn_loss"])` reduced with `+` -/
def sysDyn (eqs : List (String × Eqn)) (w : List (String × Rat)) (pts : List (List Rat)) (t : Tree)
    (ax : Option (List (String × Option Nat))) : Except String Rat :=
  match eqs with
  | [] => .ok 0
  | ke :: r => do
    let a ← mseTerm { w := weightOf w ke.1, f := heteroWrap ke.2.het ke.2.f, xs := pts } t ax
    let b ← sysDyn r w pts t ax
    pure (a + b)

def zeroTerms : Terms := { dyn := 0, ic := 0, boundary := 0, norm := 0, obs := 0 }

/-- `constraints_system_loss_apply`: weighted terms of every unknown, summed over the unknowns
    (the `dyn_loss` entry carries a null weight) -/
def consSum (us : List (String × Single)) (W : Weights) (t : Tree) (pr : Option Rows) :
    Except String Terms :=
  match us with
  | [] => .ok zeroTerms
  | ku :: r => do
    let a ← evalSingleT t (unitSingle pr ku.2)
    let b ← consSum r W t pr
    pure { dyn := 0 * a.dyn + b.dyn,
           ic := weightOf W.ic ku.1 * a.ic + b.ic,
           boundary := weightOf W.boundary ku.1 * a.boundary + b.boundary,
           norm := weightOf W.norm ku.1 * a.norm + b.norm,
           obs := weightOf W.obs ku.1 * a.obs + b.obs }

/-- `SystemLossODE.evaluate` / `SystemLossPDE.evaluate`: `(terms, total)` -/
def sysEvaluate (p : Params) (S : Sys) : Except String (Terms × Rat) := do
  let W ← setLossWeights (keys S.eqs) (keys S.unknowns) S.weights     -- at construction
  let t1 ← stage1 (ofParams p) S.paramRows
  let ax1 := inAxes t1 (S.paramRows.map keys)
  let dyn ← sysDyn S.eqs W.dyn S.pts t1 ax1
  let c ← consSum S.unknowns W t1 S.paramRows
  let total := (c.dyn + c.ic + c.boundary + c.norm + c.obs) + dyn
  pure ({ c with dyn := c.dyn + dyn }, total)

end Jinns.SystemLoss
