/-
`Holds.C12` — property C12 as a decidable predicate over what a user observes: the terms returned
by `evaluate` for a batch carrying per-sample parameters / observed parameters / a heterogeneity
declaration.  It is written with the *specification* functions only (`override`: row `i` of every
batched key, the caller's value of all others; `hetSpec`: declared keys replaced inside the
equation) and does not mention the code-shaped pipeline (`updateEq` / `inAxes` / `select`) of the
model.  Returns `none` when the observation satisfies the property, `some clause` otherwise.
-/
import JinnsModel.ParamBatch

namespace Jinns.Holds
open Jinns.ParamBatch

/-- the function declared for key `k`, if any (`None` entries and missing keys: no declaration) -/
def declared (het : Option Het) (k : String) : Option (List Rat → Params → Val) :=
  match het with
  | none => none
  | some h => match get? k h with
    | some (some g) => some g
    | _ => none

/-- a heterogeneous parameter is replaced by the value of its function at the current point (the
    function sees the sample's own parameters); undeclared parameters pass through -/
def hetSpecVal (het : Option Het) (q : Params) (pt : List Rat) (k : String) (v : Val) : Val :=
  match declared het k with
  | some g => g pt q
  | none => v

def hetSpec (het : Option Het) (q : Params) (pt : List Rat) : Params :=
  q.map fun kv => (kv.1, hetSpecVal het q pt kv.1 kv.2)

/-- mean over the samples of `w · Σ_c f(x_i, sel i)_c²` -/
def specMse (w : Rat) (f : List Rat → Params → Val) (xs : List (List Rat)) (sel : Nat → Params) :
    Rat :=
  mean ((List.range xs.length).map fun i => w * sq (f (xs.getD i []) (sel i)))

def specMseOpt (m : Option MseIn) (sel : Nat → Params) : Rat :=
  match m with
  | none => 0
  | some m => specMse m.w m.f m.xs sel

def specMseSum (ms : List MseIn) (sel : Nat → Params) : Rat :=
  sum (ms.map fun m => specMse m.w m.f m.xs sel)

/-- number of rows of the parameter batch (`none`: no batched key at all) -/
def batchSize (rows : Rows) : Option Nat :=
  match rows with
  | [] => none
  | r :: _ => some r.2.length

/-- numbers of samples of the terms that are mapped together with the parameter batch -/
def termSizes (s : Single) : List Nat :=
  (match s.dyn with | some m => [m.xs.length] | none => []) ++
  (match s.icPDE with | some m => [m.xs.length] | none => []) ++
  (s.boundary.map fun m => m.xs.length) ++
  (match s.norm with | some (_, _, _, xs) => [xs.length] | none => []) ++
  (match s.normNS with | some (_, _, _, ts, _) => [ts.length] | none => []) ++
  (match s.obs with | some m => [m.xs.length] | none => [])

def wfKeys (p : Params) (s : Single) : Bool :=
  (s.paramRows.getD []).all (fun r => hasKey r.1 p) && (s.obsRows.getD []).all (fun r => hasKey r.1 p)

def wfBatch (s : Single) : Bool :=
  match batchSize (s.paramRows.getD []) with
  | none => true
  | some B => (s.paramRows.getD []).all (fun r => r.2.length == B) && (termSizes s).all (· == B)

def wfObs (s : Single) : Bool :=
  match s.obs with
  | none => true
  | some m => (s.obsRows.getD []).all (fun r => r.2.length == m.xs.length)

/-- A batch is well formed when it only names keys of the caller, all its rows have the same
    number `B` of entries and every term mapped together with it has `B` samples (what `vmap`
    requires).  The property constrains well-formed batches only. -/
def wellFormed (p : Params) (s : Single) : Bool := wfKeys p s && wfBatch s && wfObs s

/-- stationary normalisation: `w · (L · mean_{i,c} u(s_i; sel i)_c − 1)²` -/
def specNorm (nm : Option (Rat × Rat × (List Rat → Params → Val) × List (List Rat)))
    (sel : Nat → Params) : Rat :=
  match nm with
  | none => 0
  | some (w, L, f, xs) =>
    let m := mean (((List.range xs.length).map fun i => f (xs.getD i []) (sel i)).flatten)
    w * ((m * L - 1) * (m * L - 1))

/-- non-stationary normalisation: time sample `i` sees its own parameters for all normalisation samples -/
def specNormNS
    (nm : Option (Rat × Rat × (List Rat → Params → Val) × List (List Rat) × List (List Rat)))
    (sel : Nat → Params) : Rat :=
  match nm with
  | none => 0
  | some (w, L, f, ts, ss) => normNSOf w L f ts ss sel

/-- initial condition of the ODE loss: one evaluation with the caller's parameters when nothing is
    batched, else the mean over the rows of the parameter batch -/
def specIcODE (ic : Option (Rat × (List Rat → Params → Val) × List Rat)) (p : Params) (rows : Rows) :
    Rat :=
  match ic with
  | none => 0
  | some (w, f, pt) =>
    match batchSize rows with
    | none => w * sq (f pt p)
    | some B => mean ((List.range B).map fun i => w * sq (f pt (override p rows i)))

/-- dynamic term: declared heterogeneous keys are replaced inside the equation -/
def specDyn (dyn : Option MseIn) (het : Option Het) (sel : Nat → Params) : Rat :=
  match dyn with
  | none => 0
  | some m => specMse m.w (fun pt q => m.f pt (hetSpec het q pt)) m.xs sel

/-- the terms the property prescribes -/
def specTerms (p : Params) (s : Single) : Terms :=
  let rows := s.paramRows.getD []
  let orows := s.obsRows.getD []
  let sel1 : Nat → Params := fun i => override p rows i
  let sel2 : Nat → Params := fun i => override (override p rows i) orows i
  { dyn := specDyn s.dyn s.het sel1,
    ic := specIcODE s.icODE p rows + specMseOpt s.icPDE sel1,
    boundary := specMseSum s.boundary sel1,
    norm := specNorm s.norm sel1 + specNormNS s.normNS sel1,
    obs := specMseOpt s.obs sel2 }

/-- observed outcome of `evaluate`: the terms and the total, or a rejection -/
abbrev Outcome := Except String (Terms × Rat)

def holdsC12 (p : Params) (s : Single) (o : Outcome) : Option String :=
  if !(wellFormed p s) then none
  else match o with
    | .error _ => some "well-formed-parameter-batch-rejected"
    | .ok (t, tot) =>
      let e := specTerms p s
      if t.dyn != e.dyn then some "dyn_loss-sample-parameters"
      else if t.ic != e.ic then some "initial_condition-sample-parameters"
      else if t.boundary != e.boundary then some "boundary_loss-sample-parameters"
      else if t.norm != e.norm then some "norm_loss-sample-parameters"
      else if t.obs != e.obs then some "observations-sample-parameters"
      else if tot != t.total then some "total-not-sum-of-terms"
      else none

/-! ### derivative routing (dynamic term) -/

/-- gradient the property prescribes for entry `j` of row `i` of a batched key: the contribution of
    sample `i` alone (evaluated with its own parameters), gated by the derivative key of `k` -/
def specGradRow (p : Params) (rows : Rows) (m : MseIn) (df : Tangent) (mask : String → Bool)
    (k : String) (i j : Nat) : Rat :=
  if mask k then sampleGrad m.w m.f df (m.xs.getD i []) (override p rows i) k j / (m.xs.length : Nat)
  else 0

/-- gradient prescribed for entry `j` of the caller's value: none for a batched key -/
def specGradCaller (p : Params) (rows : Rows) (m : MseIn) (df : Tangent) (mask : String → Bool)
    (k : String) (j : Nat) : Rat :=
  if hasKey k rows then 0
  else if mask k then
    mean ((List.range m.xs.length).map fun i =>
      sampleGrad m.w m.f df (m.xs.getD i []) (override p rows i) k j)
  else 0

/-- observed gradients of the dynamic term: per batched key the `B` rows, per caller key its entries -/
structure Grads where
  rows : List (String × List Val)
  caller : List (String × Val)

def holdsC12Routing (p : Params) (rows : Rows) (m : MseIn) (df : Tangent) (mask : String → Bool)
    (g : Grads) : Option String :=
  let rowsOk := rows.all fun r =>
    match get? r.1 g.rows with
    | none => false
    | some gr => (List.range m.xs.length).all fun i =>
        (gr.getD i []) == ((List.range (r.2.getD i []).length).map fun j => specGradRow p rows m df mask r.1 i j)
  let callerOk := p.all fun kv =>
    match get? kv.1 g.caller with
    | none => false
    | some gv => gv == ((List.range kv.2.length).map fun j => specGradCaller p rows m df mask kv.1 j)
  if !rowsOk then some "gradient-into-batch-rows-misrouted"
  else if !callerOk then some "gradient-into-caller-parameters-misrouted"
  else none

/-- Metamorphic clause "only the batched keys override the caller's parameters": the same call with
    the caller's values of the *batched* keys replaced by other values returns the same terms. -/
def holdsC12Meta (orig perturbed : Outcome) : Option String :=
  match orig, perturbed with
  | .ok a, .ok b => if a.1 == b.1 && a.2 == b.2 then none else some "caller-value-of-batched-key-leaks"
  | .error _, .error _ => none
  | _, _ => some "caller-value-of-batched-key-leaks"

end Jinns.Holds
