/-
Model of the observation and parameter loaders of `jinns/data/_DataGenerators.py`:
`DataGeneratorObservations` (`__post_init__`, `obs_batch`), `DataGeneratorParameter`
(`__post_init__`, `generate_data`, `param_batch`) and `DataGeneratorObservationsMultiPINNs`
(`__post_init__`, `obs_batch`).

Observations: what is shuffled is the index vector `0..n-1` (one C09 cursor); the batch gathers the
input table, the value table and every observed-parameter table with the **same** slice of it.
Parameters: one store and one C09 cursor **per key**; the store of a key is the user's table when
there is one (priority), else a grid / uniform sample of the key's own range.
The PRNG is an oracle (reshuffled index vector / reshuffled store; uniform samples with the
contract "in `[min, max]`").  Rejections are explicit error branches.
-/
import JinnsModel.Minibatch
import JinnsModel.Domain

namespace Jinns.Loaders
open Jinns.Minibatch Jinns.Domain

/-- A user array as the constructors look at it: its rank class and its rows. -/
inductive Tbl where
  /-- shape `(n,)` -/
  | d1 (v : List Rat)
  /-- shape `(n, cols)` -/
  | d2 (rows : List (List Rat)) (cols : Nat)
  /-- rank ≥ 3 (never read: every constructor rejects it), first axis `n` -/
  | hi (n : Nat) (ndim : Nat)
deriving Repr

/-- `a.shape[0]` -/
def Tbl.len : Tbl → Nat
  | .d1 v => v.length
  | .d2 rows _ => rows.length
  | .hi n _ => n

/-- `a[:, None]` if `a` is 1-D, `a` if it is 2-D, rejected (`none`) above -/
def Tbl.lift : Tbl → Option (List (List Rat))
  | .d1 v => some (v.map fun x => [x])
  | .d2 rows _ => some rows
  | .hi _ _ => none

/-! ### observations -/

structure ObsArgs where
  b : Nat
  pin : Tbl
  val : Tbl
  eq : List (String × Tbl)

structure Obs where
  b : Nat
  n : Nat
  pin : List (List Rat)
  val : List (List Rat)
  eq : List (String × List (List Rat))
  /-- the cursor over the index vector `jnp.arange(n)` -/
  cur : MB Nat

def liftAll : List (String × Tbl) → Option (List (String × List (List Rat)))
  | [] => some []
  | (k, t) :: r =>
    match t.lift, liftAll r with
    | some x, some xs => some ((k, x) :: xs)
    | _, _ => none

/-- `DataGeneratorObservations.__post_init__` (every rejection is a `ValueError`) -/
def mkObs (a : ObsArgs) : Except Err Obs :=
  if a.pin.len ≠ a.val.len then .error .valueError
  else if a.eq.any (fun kt => kt.2.len != a.pin.len) then .error .valueError
  else match a.pin.lift, a.val.lift, liftAll a.eq with
    | some pin, some val, some eq =>
      .ok { b := a.b, n := pin.length, pin := pin, val := val, eq := eq,
            cur := Minibatch.init (List.range pin.length) a.b }
    | _, _, _ => .error .valueError

structure ObsBatch where
  pin : List (List Rat)
  val : List (List Rat)
  eq : List (String × List (List Rat))
deriving BEq, Repr

/-- `jnp.take(table, idx, axis=0)` -/
def gather (t : List (List Rat)) (idx : List Nat) : List (List Rat) := idx.map fun i => t.getD i []

/-- the batch gathered with one index slice -/
def batchOf (g : Obs) (idx : List Nat) : ObsBatch :=
  { pin := gather g.pin idx, val := gather g.val idx, eq := g.eq.map fun kt => (kt.1, gather kt.2 idx) }

/-- `obs_batch()`: one C09 request on the index vector, then three gathers with the same slice -/
def obsNext (g : Obs) (oracle : List Nat) : Obs × ObsBatch :=
  let r := Minibatch.next g.n g.cur oracle
  ({ g with cur := r.1 }, batchOf g r.2)

def obsRun : Obs → List (List Nat) → Obs × List ObsBatch
  | g, [] => (g, [])
  | g, o :: os =>
    let r := obsNext g o
    let rs := obsRun r.1 os
    (rs.1, r.2 :: rs.2)

/-! ### parameters -/

structure ParamKey where
  name : String
  range : Option (Rat × Rat)
  user : Option Tbl

/-- one key of `DataGeneratorParameter.generate_data`: the user's table has priority and must have
    shape `(n, 1)` or `(n,)`; otherwise the key's own range is sampled (`grid` / `uniform`). -/
def paramStore (n : Nat) (method : String) (k : ParamKey) (oracle : List Rat) :
    Except Err (List (List Rat)) :=
  match k.user with
  | some (.d2 rows cols) => if rows.length = n ∧ cols = 1 then .ok rows else .error .valueError
  | some (.d1 v) => if v.length = n then .ok (v.map fun x => [x]) else .error .valueError
  | some (.hi _ _) => .error .valueError
  | none =>
    match k.range with
    | none => .error .valueError
    | some (lo, hi) =>
      if method = "grid" then .ok ((gridStore lo hi n).map fun x => [x])
      else if method = "uniform" then
        if oracle.length = n ∧ oracle.all (inIcc lo hi) then .ok (oracle.map fun x => [x])
        else .error .contract
      else .error .valueError

def paramStores (n : Nat) (method : String) : List (ParamKey × List Rat) →
    Except Err (List (String × List (List Rat)))
  | [] => .ok []
  | (k, o) :: r =>
    -- the keys are visited in an arbitrary (set) order and every rejection of the code is a
    -- `ValueError`; only the model-side `contract` error has to give way to it
    match paramStore n method k o, paramStores n method r with
    | .ok s, .ok ss => .ok ((k.name, s) :: ss)
    | .error e, .ok _ => .error e
    | .ok _, .error e => .error e
    | .error e1, .error e2 => .error (if e2 = .valueError then .valueError else e1)

/-- `DataGeneratorParameter.__post_init__` -/
def mkParam (n b : Nat) (method : String) (keys : List (ParamKey × List Rat)) :
    Except Err (List (String × List (List Rat))) :=
  if n < b then .error .valueError else paramStores n method keys

/-- `param_batch()` of a loader without any key: `jax.tree_util.tree_transpose` of an empty tree
    raises a `ValueError` (observed; a loader with no parameter serves nothing). -/
def paramBatchGuard (nkeys : Nat) : Except Err Unit :=
  if nkeys = 0 then .error .valueError else .ok ()

/-! ### several networks -/

/-- one entry of the three dictionaries of `DataGeneratorObservationsMultiPINNs` -/
structure NetArgs where
  name : String
  pin : Option Tbl
  val : Option Tbl
  eq : List (String × Tbl)

/-- an extra error kind of this constructor: `None.shape` -/
inductive MErr where
  | err (e : Err)
  | attributeError
deriving Repr

def MErr.name : MErr → String
  | .err e => e.name
  | .attributeError => "other:AttributeError"

def mkNets (b : Nat) : List NetArgs → Except MErr (List (String × Option Obs))
  | [] => .ok []
  | a :: r =>
    match a.pin with
    | none => do let rs ← mkNets b r; pure ((a.name, none) :: rs)
    | some pin =>
      match a.val with
      | none => .error .attributeError
      | some val =>
        match mkObs { b := b, pin := pin, val := val, eq := a.eq } with
        | .error e => .error (.err e)
        | .ok g => do let rs ← mkNets b r; pure ((a.name, some g) :: rs)

/-- `DataGeneratorObservationsMultiPINNs.__post_init__`: the dictionaries must be given and have
    the same key sets (`ValueError` otherwise); one loader per network that has data. -/
def mkMulti (b : Nat) (pinGiven valGiven : Bool) (pinKeys valKeys : List String)
    (eqKeys : Option (List String)) (nets : List NetArgs) : Except MErr (List (String × Option Obs)) :=
  if !pinGiven || !valGiven then .error (.err .valueError)
  else if !(pinKeys.isPerm valKeys) then .error (.err .valueError)
  else match eqKeys with
    | some ek => if !(pinKeys.isPerm ek) then .error (.err .valueError) else mkNets b nets
    | none => mkNets b nets

/-- `obs_batch()` of the multi-network loader: each network with data serves one aligned batch from
    its own cursor, the others an empty entry (`none`). -/
def multiNext : List (String × Option Obs) → List (List Nat) →
    List (String × Option Obs) × List (String × Option ObsBatch)
  | [], _ => ([], [])
  | (k, none) :: r, os =>
    let rs := multiNext r os.tail
    ((k, none) :: rs.1, (k, none) :: rs.2)
  | (k, some g) :: r, os =>
    let x := obsNext g (os.headD [])
    let rs := multiNext r os.tail
    ((k, some x.1) :: rs.1, (k, some x.2) :: rs.2)

end Jinns.Loaders
