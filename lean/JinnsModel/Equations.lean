/-
C02 — the built-in dynamic losses of `jinns/loss/_DynamicLoss.py` (PINN branches), transcribed
TERM BY TERM from `equation()` over the abstract field algebra `FieldOps F` (JAX AD = the derivations
`dT`, `dX i`; trusted AD contract of DESIGN §2.1), followed by `evaluate` of
`jinns/loss/_DynamicLossAbstract.py` (heterogeneity decorator → `_evaluate` dispatch → `equation`) and
`ParamsDict.extract_params` of `jinns/parameters/_params.py`.

Second half: the DOCUMENTED expressions (class docstrings; for GLV the log form fixed in DESIGN §5 C02),
written with Σ / Δ / ∇· / (u·∇)u.

The operator shapes needed (`_laplacian_rev`, `_div_rev`, `_vectorial_laplacian`,
`_u_dot_nabla_times_u_rev` of `jinns/loss/_operators.py`, branch `t is None` or not: the time argument
is a separate argument that is never differentiated, `argnums = 1`) are defined locally: C01 owns
`Operators.lean`, on which this file deliberately does not depend.

Imports nothing outside core Lean.
-/
import JinnsModel.FieldOps
import JinnsModel.Poly
namespace Jinns.Equations
open Jinns.Calc

variable {F : Type}

/-! ## constants and coordinate fields -/

/-- what the equations need besides `FieldOps`: the constant field `1` and the coordinate fields `x_i`
    (the OU drift `alpha * (mu - x)` is a field). -/
structure FieldExt (F : Type) where
  one : F
  coord : Nat → F

/-- a Python scalar / 0-d array used where a field is expected -/
def const (ops : FieldOps F) (ext : FieldExt F) (c : Rat) : F := ops.smul c ext.one

def polyExt : FieldExt Poly where
  one := Poly.const 1
  coord := fun i => Poly.var (i + 1)

/-- entry `i` of a JAX vector (`v[i]`, `v[i:i+1]`); the static indices transcribed below are always in
    range, the default is never used. -/
def nth (ops : FieldOps F) (l : List F) (i : Nat) : F := l.getD i ops.zero

/-- entry `[i, j]` of a JAX matrix -/
def nth2 (ops : FieldOps F) (m : List (List F)) (i j : Nat) : F := nth ops (m.getD i []) j

/-! ## operator shapes (`_operators.py`, reverse mode) -/

/-- `_laplacian_rev`: `jnp.trace(jax.hessian(u_, argnums=1)(t, x))` (resp. `jax.hessian(u_)(x)`) -/
def lapRev (ops : FieldOps F) (d : Nat) (f : F) : F := trace ops d (hessX ops d f)

/-- `_div_rev`: `scan` over `arange(d)` of `grad(lambda …: u(…)[i], argnum x)(…)[i]`, then `jnp.sum` -/
def divRev (ops : FieldOps F) (d : Nat) (u : Nat → F) : F :=
  ops.sum d (fun i => nth ops (gradX ops d (u i)) i)

/-- `_vectorial_laplacian(…, u_vec_ndim = m)`: `scan` over `arange(m)` of `_laplacian_rev` of `u[j]` -/
def vecLap (ops : FieldOps F) (d m : Nat) (u : Nat → F) : List F :=
  (List.range m).map (fun j => lapRev ops d (u j))

/-- `_u_dot_nabla_times_u_rev` (`x.shape[0] == 2`): the two explicit components -/
def advRev (ops : FieldOps F) (u : Nat → F) : List F :=
  let ux := u 0
  let uy := u 1
  let dux_dx := nth ops (gradX ops 2 ux) 0
  let dux_dy := nth ops (gradX ops 2 ux) 1
  let duy_dx := nth ops (gradX ops 2 uy) 0
  let duy_dy := nth ops (gradX ops 2 uy) 1
  [ ops.add (ops.mul ux dux_dx) (ops.mul uy dux_dy),
    ops.add (ops.mul ux duy_dx) (ops.mul uy duy_dy) ]

/-! ## `equation()` of each built-in, in the shape of the code -/

/-- `BurgerEquation.equation` (PINN branch), one space dimension:
    `du_dt(t, x) + self.Tmax * (u(t, x, params) * du_dx(t, x) - params.eq_params["nu"] * d2u_dx2(t, x))`
    with `du_dx = grad(u_, 1)` and `d2u_dx2 = grad(lambda t, x: du_dx(t, x)[0], 1)`; all arrays have shape
    `(1,)`, the single entry is returned. -/
def burgers (ops : FieldOps F) (Tmax nu : Rat) (u : F) : F :=
  let du_dt := ops.dT u
  let du_dx := gradX ops 1 u
  let d2u_dx2 := gradX ops 1 (nth ops du_dx 0)
  ops.add du_dt
    (ops.smul Tmax (ops.sub (ops.mul u (nth ops du_dx 0)) (ops.smul nu (nth ops d2u_dx2 0))))

/-- `FisherKPP.equation` (PINN branch), `d = x.shape[0]` arbitrary:
    `du_dt + self.Tmax * (-D * lap - u(t, x, params) * (r - g * u(t, x, params)))` -/
def fisherKPP (ops : FieldOps F) (ext : FieldExt F) (d : Nat) (Tmax D r g : Rat) (u : F) : F :=
  let du_dt := ops.dT u
  let lap := lapRev ops d u
  ops.add du_dt
    (ops.smul Tmax
      (ops.sub (ops.smul (-D) lap)
        (ops.mul u (ops.sub (const ops ext r) (ops.smul g u)))))

/-- `FPENonStatioLoss2D.equation` (PINN branch) for a drift vector field `drift i` and a diffusion
    matrix field `diff i j`.  Slices exactly as in the code:

    order_1 = grad(drift[0]·u, 1)[0:1] + grad(drift[1]·u, 1)[1:2]
    order_2 = grad(grad(u·D[0,0], 1)[0], 1)[0:1] + grad(grad(u·D[1,0], 1)[1], 1)[0:1]
            + grad(grad(u·D[0,1], 1)[0], 1)[1:2] + grad(grad(u·D[1,1], 1)[1], 1)[1:2]
    return -du_dt + self.Tmax * (-order_1 + order_2) -/
def fpe2D (ops : FieldOps F) (Tmax : Rat) (drift : Nat → F) (diff : Nat → Nat → F) (u : F) : F :=
  let g1 := fun (f : F) => gradX ops 2 f
  let order_1 :=
    ops.add (nth ops (g1 (ops.mul (drift 0) u)) 0) (nth ops (g1 (ops.mul (drift 1) u)) 1)
  let order_2 :=
    ops.add (ops.add (ops.add
      (nth ops (g1 (nth ops (g1 (ops.mul u (diff 0 0))) 0)) 0)
      (nth ops (g1 (nth ops (g1 (ops.mul u (diff 1 0))) 1)) 0))
      (nth ops (g1 (nth ops (g1 (ops.mul u (diff 0 1))) 0)) 1))
      (nth ops (g1 (nth ops (g1 (ops.mul u (diff 1 1))) 1)) 1)
  let du_dt := ops.dT u
  ops.add (ops.neg du_dt) (ops.smul Tmax (ops.add (ops.neg order_1) order_2))

/-- `OU_FPENonStatioLoss2D.drift`: `eq_params["alpha"] * (eq_params["mu"] - x)`, component `i` -/
def ouDrift (ops : FieldOps F) (ext : FieldExt F) (alpha mu : List Rat) (i : Nat) : F :=
  ops.smul (alpha.getD i 0) (ops.sub (const ops ext (mu.getD i 0)) (ext.coord i))

/-- `OU_FPENonStatioLoss2D.sigma_mat`: `jnp.diag(eq_params["sigma"])` -/
def sigmaMat (sigma : List Rat) (i k : Nat) : Rat := if i = k then sigma.getD i 0 else 0

/-- `OU_FPENonStatioLoss2D.diffusion` (no `i`, `j` given): `0.5 * matmul(sigma_mat, transpose(sigma_mat))`,
    entry `[i, j]` (contraction over `k < 2`). -/
def ouDiffusion (sigma : List Rat) (i j : Nat) : Rat :=
  (1 / 2 : Rat) * (((List.range 2).map (fun k => sigmaMat sigma i k * sigmaMat sigma j k)).foldr (· + ·) 0)

/-- `OU_FPENonStatioLoss2D.equation` = the inherited `FPENonStatioLoss2D.equation` with the OU drift and
    the (constant) OU diffusion. -/
def ouFPE (ops : FieldOps F) (ext : FieldExt F) (Tmax : Rat) (alpha mu sigma : List Rat) (u : F) : F :=
  fpe2D ops Tmax (ouDrift ops ext alpha mu) (fun i j => const ops ext (ouDiffusion sigma i j)) u

/-- the `for i, k in enumerate(self.keys_other)` loop of `GeneralizedLotkaVolterra.equation`:
    `carrying_term += c * u_k(t)`, `interaction_terms += interactions[i + 1] * u_k(t)` -/
def glvLoop (ev : F → Rat) (c : Rat) (a : List Rat) : List F → Nat → Rat × Rat → Rat × Rat
  | [], _, acc => acc
  | uk :: rest, i, (ct, it) => glvLoop ev c a rest (i + 1) (ct + c * ev uk, it + a.getD (i + 1) 0 * ev uk)

/-- `GeneralizedLotkaVolterra.equation`, pointwise (`ev` = evaluation at the time point `t`).
    `du_dt = grad(lambda t: jnp.log(u(t, params_main)[0]), 0)(t)` is `u'(t) / u(t)` (AD contract: the
    derivative of `log` is the reciprocal); the division is the explicit guard: `none` when
    `u_main(t) = 0` (the implementation returns `inf`/`nan` there).
    `c` = `carrying_capacity`, `r` = `growth_rate`, `a` = `interactions` of the MAIN population
    (self-interaction at index 0, then `keys_other` in order). -/
def glv (ops : FieldOps F) (ev : F → Rat) (Tmax c r : Rat) (a : List Rat) (uMain : F)
    (uOthers : List F) : Option Rat :=
  let um := ev uMain
  if um = 0 then none
  else
    let du_dt := ev (ops.dT uMain) / um
    let carrying0 := c * um
    let inter0 := a.getD 0 0 * um
    let (carrying_term, interaction_terms) := glvLoop ev c a uOthers 0 (carrying0, inter0)
    some (du_dt + Tmax * (-r - interaction_terms + carrying_term))

/-- `MassConservation2DStatio.equation` (PINN branch): `_div_rev(None, x, u, params)[..., None]` -/
def massConservation (ops : FieldOps F) (d : Nat) (u : Nat → F) : F := divRev ops d u

/-- `NavierStokes2DStatio.equation` (PINN branch):
    `jac_p = jax.jacrev(p, 0)(x)` has shape `(1, 2)` (row 0 = gradient of the single output of `p`);
    result_x = u_dot_nabla_x_u[0] + 1 / rho * jac_p[0, 0] - nu * vec_laplacian_u[0]
    result_y = u_dot_nabla_x_u[1] + 1 / rho * jac_p[0, 1] - nu * vec_laplacian_u[1]
    (`1 / rho` is Lean's total division: the theorems that need `rho ≠ 0` say so). -/
def navierStokes (ops : FieldOps F) (nu rho : Rat) (u : Nat → F) (p : F) : List F :=
  let u_dot_nabla_x_u := advRev ops u
  let jac_p := [gradX ops 2 p]
  let vec_laplacian_u := vecLap ops 2 2 u
  let result_x :=
    ops.sub (ops.add (nth ops u_dot_nabla_x_u 0) (ops.smul (1 / rho) (nth2 ops jac_p 0 0)))
      (ops.smul nu (nth ops vec_laplacian_u 0))
  let result_y :=
    ops.sub (ops.add (nth ops u_dot_nabla_x_u 1) (ops.smul (1 / rho) (nth2 ops jac_p 0 1)))
      (ops.smul nu (nth ops vec_laplacian_u 1))
  [result_x, result_y]

/-! ## parameters: `Params`, `ParamsDict.extract_params` -/

/-- a node of `eq_params`: an array (a scalar is a one-element list) or, in the per-network layout, the
    sub-dictionary of one network key. -/
inductive PNode where
  | leaf (v : List Rat)
  | sub (d : List (String × List Rat))
deriving Repr

abbrev EqParams := List (String × PNode)

/-- `ParamsDict.extract_params(nn_key).eq_params`:
    `try: self.eq_params[nn_key]  except (KeyError, IndexError): self.eq_params`.
    If `eq_params[nn_key]` exists but is an array, the `Params` holds that array and every later
    `eq_params["name"]` fails: modelled as the empty dictionary. -/
def extractParams (p : EqParams) (nnKey : String) : EqParams :=
  match p.lookup nnKey with
  | some (.sub d) => d.map (fun kv => (kv.1, PNode.leaf kv.2))
  | some (.leaf _) => []
  | none => p

def getVec (p : EqParams) (k : String) : Except String (List Rat) :=
  match p.lookup k with
  | some (.leaf v) => .ok v
  | _ => .error s!"KeyError: {k}"

def getScalar (p : EqParams) (k : String) : Except String Rat := do
  match (← getVec p k) with
  | [r] => pure r
  | _ => throw s!"parameter {k} is not a scalar"

/-! ## `evaluate`: heterogeneity decorator, dispatch, equation -/

/-- the arguments of the three `evaluate` signatures: `ODE.evaluate(t, u, params)`,
    `PDEStatio.evaluate(x, u, params)`, `PDENonStatio.evaluate(t, x, u, params)` -/
inductive EvalArgs where
  | ode (t : Rat)
  | statio (x : List Rat)
  | nonStatio (t : Rat) (x : List Rat)
deriving Repr

/-- the evaluation point `[t, x_0, x_1, …]`; a stationary field does not depend on the time slot. -/
def EvalArgs.point : EvalArgs → List Rat
  | .ode t => [t]
  | .statio x => 0 :: x
  | .nonStatio t x => t :: x

inductive EqType where
  | ode | statio | nonStatio
deriving DecidableEq, Repr

/-- the built-in losses with their static fields (`Tmax` is passed separately) -/
inductive Builtin where
  | burgers
  | fisherKPP
  | ouFPE
  | glv (keyMain : String) (keysOther : List String)
  | massConservation (nnKey : String)
  | navierStokes (uKey pKey : String)
deriving Repr

/-- `_eq_type` class variable: which abstract class the built-in derives from -/
def Builtin.eqType : Builtin → EqType
  | .burgers | .fisherKPP | .ouFPE => .nonStatio
  | .glv _ _ => .ode
  | .massConservation _ | .navierStokes _ _ => .statio

/-- `eq_params_heterogeneity`: `None`, or a dict key ↦ (`None` | function of the evaluate arguments;
    the network and the parameters the real function also receives are closed over). -/
abbrev Hetero := Option (List (String × Option (EvalArgs → PNode)))

/-- `DynamicLoss._eval_heterogeneous_parameters`: `None` ⇒ `params.eq_params` itself; otherwise every
    key whose declaration is a function is replaced by that function's value, a key declared `None` or
    missing from the declaration (`KeyError` branch) is passed through. -/
def evalHetero (het : Hetero) (args : EvalArgs) (p : EqParams) : EqParams :=
  match het with
  | none => p
  | some h =>
    p.map (fun kv =>
      match h.lookup kv.1 with
      | some (some f) => (kv.1, f args)
      | _ => kv)

/-- the network argument: one PINN, or a dictionary of PINNs (each a list of component fields) -/
inductive Nets (F : Type) where
  | single (u : List F)
  | dict (d : List (String × List F))

def netOf (d : List (String × List F)) (k : String) : Except String (List F) :=
  match d.lookup k with
  | some u => .ok u
  | none => .error s!"KeyError: {k}"

def scalarNet (d : List (String × List F)) (k : String) : Except String F := do
  match (← netOf d k) with
  | [u] => pure u
  | _ => throw s!"network {k} is not scalar"

/-- `equation(...)` of the built-in `b`, evaluated at the point (`ev`), as the list of components of the
    returned array.  Parameter keys are looked up BY NAME, as the code does. -/
def equationAt (ops : FieldOps F) (ext : FieldExt F) (ev : F → Rat) (Tmax : Rat) (b : Builtin)
    (args : EvalArgs) (nets : Nets F) (p : EqParams) : Except String (List Rat) :=
  match b, args, nets with
  | .burgers, .nonStatio _ [_], .single [u] => do
    let nu ← getScalar p "nu"
    pure [ev (burgers ops Tmax nu u)]
  | .fisherKPP, .nonStatio _ x, .single [u] => do
    let D ← getScalar p "D"
    let r ← getScalar p "r"
    let g ← getScalar p "g"
    pure [ev (fisherKPP ops ext x.length Tmax D r g u)]
  | .ouFPE, .nonStatio _ [_, _], .single [u] => do
    let alpha ← getVec p "alpha"
    let mu ← getVec p "mu"
    let sigma ← getVec p "sigma"
    pure [ev (ouFPE ops ext Tmax alpha mu sigma u)]
  | .glv keyMain keysOther, .ode _, .dict d => do
    let params_main := extractParams p keyMain
    let u ← scalarNet d keyMain
    let c ← getScalar params_main "carrying_capacity"
    let a ← getVec params_main "interactions"
    -- `extract_params(k)` of the other populations only feeds their networks
    let others ← keysOther.mapM (scalarNet d)
    let r ← getScalar params_main "growth_rate"
    match glv ops ev Tmax c r a u others with
    | some v => pure [v]
    | none => throw "guard: u_main(t) = 0 (log undefined)"
  | .massConservation nnKey, .statio x, .dict d => do
    let u ← netOf d nnKey
    pure [ev (massConservation ops x.length (fun i => nth ops u i))]
  | .navierStokes uKey pKey, .statio [_, _], .dict d => do
    let u_params := extractParams p uKey
    let u ← netOf d uKey
    let pn ← scalarNet d pKey
    -- `u_params.eq_params["rho"]`, `u_params.eq_params["nu"]`: read through `extract_params(u_key)`
    -- (`extract_params(p_key)` only feeds the pressure network)
    let rho ← getScalar u_params "rho"
    let nu ← getScalar u_params "nu"
    pure ((navierStokes ops nu rho (fun i => nth ops u i) pn).map ev)
  | _, _, _ => .error "outside the modelled signatures"

/-- `evaluate`: the decorator `_decorator_heteregeneous_params` replaces `params.eq_params` by
    `_eval_heterogeneous_parameters(...)`, then `_evaluate` dispatches on `_eq_type` to
    `equation(t, u, params)`, `equation(x, u, params)` or `equation(t, x, u, params)`.
    `evAt pt f` is the value of the field `f` at the point `pt`. -/
def evaluate (ops : FieldOps F) (ext : FieldExt F) (evAt : List Rat → F → Rat) (Tmax : Rat)
    (b : Builtin) (het : Hetero) (args : EvalArgs) (nets : Nets F) (p : EqParams) :
    Except String (List Rat) :=
  let _params := evalHetero het args p
  match b.eqType, args with
  | .ode, .ode t => equationAt ops ext (evAt [t]) Tmax b (.ode t) nets _params
  | .statio, .statio x => equationAt ops ext (evAt (0 :: x)) Tmax b (.statio x) nets _params
  | .nonStatio, .nonStatio t x => equationAt ops ext (evAt (t :: x)) Tmax b (.nonStatio t x) nets _params
  | _, _ => .error "TypeError: arguments do not match the signature of this equation type"

/-! ## the DOCUMENTED expressions -/

/-- `Δ f = Σ_{i<d} ∂i ∂i f` -/
def laplacian (ops : FieldOps F) (d : Nat) (f : F) : F := ops.sum d (fun i => ops.dX i (ops.dX i f))

/-- `∇·u = Σ_{i<d} ∂i u_i` -/
def divergence (ops : FieldOps F) (d : Nat) (u : Nat → F) : F := ops.sum d (fun i => ops.dX i (u i))

/-- `((u·∇)u)_k = Σ_{j<d} u_j ∂j u_k` -/
def advection (ops : FieldOps F) (d : Nat) (u : Nat → F) (k : Nat) : F :=
  ops.sum d (fun j => ops.mul (u j) (ops.dX j (u k)))

/-- Burgers: `∂t u + Tmax·(u ∂x u − θ ∂x∂x u)` -/
def burgersDoc (ops : FieldOps F) (Tmax nu : Rat) (u : F) : F :=
  ops.add (ops.dT u)
    (ops.smul Tmax (ops.sub (ops.mul u (ops.dX 0 u)) (ops.smul nu (ops.dX 0 (ops.dX 0 u)))))

/-- Fisher-KPP, `∂t u = D Δu + u (r − γ u)`: residual `∂t u − Tmax·(D Δu + u (r − γ u))` -/
def fisherDoc (ops : FieldOps F) (ext : FieldExt F) (d : Nat) (Tmax D r g : Rat) (u : F) : F :=
  ops.sub (ops.dT u)
    (ops.smul Tmax
      (ops.add (ops.smul D (laplacian ops d u)) (ops.mul u (ops.sub (const ops ext r) (ops.smul g u)))))

/-- Fokker–Planck 2D, `−Σ_i ∂i(μ_i u) + Σ_i Σ_j ∂i∂j(D_ij u) = ∂t u`:
    residual `−∂t u + Tmax·(−Σ_{i<2} ∂i(μ_i u) + Σ_{i<2} Σ_{j<2} ∂i ∂j (u D_ij))`
    (the product with the scalar entry `D_ij` is written in the operand order of the code; the
    documented formula does not fix one). -/
def fpeDoc (ops : FieldOps F) (Tmax : Rat) (drift : Nat → F) (diff : Nat → Nat → F) (u : F) : F :=
  ops.add (ops.neg (ops.dT u))
    (ops.smul Tmax
      (ops.add (ops.neg (ops.sum 2 (fun i => ops.dX i (ops.mul (drift i) u))))
        (ops.sum 2 (fun i => ops.sum 2 (fun j => ops.dX i (ops.dX j (ops.mul u (diff i j))))))))

/-- the OU instance of the documented FPE: `μ_i = α_i (μ⁰_i − x_i)`, `D = ½ σσᵀ`, `σ = diag` -/
def ouDoc (ops : FieldOps F) (ext : FieldExt F) (Tmax : Rat) (alpha mu sigma : List Rat) (u : F) : F :=
  fpeDoc ops Tmax (ouDrift ops ext alpha mu) (fun i j => const ops ext (ouDiffusion sigma i j)) u

/-- `Σ_k a_{i+k} · u_k(t)` over a list of populations -/
def dotFrom (ev : F → Rat) (a : List Rat) : Nat → List F → Rat
  | _, [] => 0
  | i, u :: us => a.getD i 0 * ev u + dotFrom ev a (i + 1) us

/-- `Σ_k u_k(t)` -/
def total (ev : F → Rat) : List F → Rat
  | [] => 0
  | u :: us => ev u + total ev us

/-- GLV in log form (DESIGN §5 C02): for the population list `us = main :: others`,
    `(d/dt log u_main)(t) + Tmax·(−r − Σ_k a_k u_k(t) + c Σ_k u_k(t))`, defined where `u_main(t) ≠ 0`. -/
def glvDoc (ops : FieldOps F) (ev : F → Rat) (Tmax c r : Rat) (a : List Rat) (uMain : F)
    (uOthers : List F) : Option Rat :=
  if ev uMain = 0 then none
  else some (ev (ops.dT uMain) / ev uMain
    + Tmax * (-r - dotFrom ev a 0 (uMain :: uOthers) + c * total ev (uMain :: uOthers)))

/-- mass conservation: `∇·u` in two dimensions -/
def massDoc (ops : FieldOps F) (u : Nat → F) : F := divergence ops 2 u

/-- Navier–Stokes, component `k`: `((u·∇)u)_k + ρ⁻¹ ∂k p − θ Δ u_k` -/
def nsDoc (ops : FieldOps F) (nu rho : Rat) (u : Nat → F) (p : F) (k : Nat) : F :=
  ops.sub (ops.add (advection ops 2 u k) (ops.smul (1 / rho) (ops.dX k p)))
    (ops.smul nu (laplacian ops 2 (u k)))

/-! ## what the theorems assume of the algebra

`EvalHom`: `ev` is a point of the algebra (a ℚ-algebra homomorphism `F → ℚ`): true of the evaluation of
functions at a point, and PROVED for `polyOps` with `Poly.eval · pt` (JinnsProofs/C02).  Every algebraic
statement about a residual is made on its value under an arbitrary such `ev`.

`LawfulDeriv`: field-level laws of the derivations (linearity, Leibniz, `∂i 1 = 0`, `∂i x_j = δ_ij`,
commuting partials).  They hold for differentiation of smooth functions and for Mathlib's `MvPolynomial`
(`mvLawful`, JinnsProofs/C02).  For the un-normalised list representation of `polyOps`, linearity and
the commutation of partials hold as equalities of lists (`polyOps_dX_comm`), but Leibniz and
`∂i x_j = δ_ij` hold only up to `Poly.eval` (the monomials come out in another order / with trailing zero
exponents), so the statements that need them (the OU corollaries) are kept generic over the structure. -/

structure EvalHom (ops : FieldOps F) (ev : F → Rat) : Prop where
  zero : ev ops.zero = 0
  add : ∀ a b, ev (ops.add a b) = ev a + ev b
  neg : ∀ a, ev (ops.neg a) = - ev a
  mul : ∀ a b, ev (ops.mul a b) = ev a * ev b
  smul : ∀ c a, ev (ops.smul c a) = c * ev a

structure LawfulDeriv (ops : FieldOps F) (ext : FieldExt F) : Prop where
  dX_zero : ∀ i, ops.dX i ops.zero = ops.zero
  dX_add : ∀ i a b, ops.dX i (ops.add a b) = ops.add (ops.dX i a) (ops.dX i b)
  dX_neg : ∀ i a, ops.dX i (ops.neg a) = ops.neg (ops.dX i a)
  dX_smul : ∀ i c a, ops.dX i (ops.smul c a) = ops.smul c (ops.dX i a)
  dX_mul : ∀ i a b, ops.dX i (ops.mul a b) = ops.add (ops.mul (ops.dX i a) b) (ops.mul a (ops.dX i b))
  dX_one : ∀ i, ops.dX i ext.one = ops.zero
  dX_coord : ∀ i j, ops.dX i (ext.coord j) = if i = j then ext.one else ops.zero
  dX_comm : ∀ i j a, ops.dX i (ops.dX j a) = ops.dX j (ops.dX i a)

end Jinns.Equations
