/-
C11 — the separable network with POLYNOMIAL one-dimensional feature maps, on the executable instance.

`coef[k][c][e]` is the coefficient of `z^e` in feature `c` (`c = m·R + r`) of axis `k`.  Axis `k` is the
polynomial variable `k + off` (`off = 0`: non-stationary, axis 0 is time; `off = 1`: stationary, variable 0 =
`t` is unused).  `twinPolys` is the pointwise twin `u_m = Σ_{r<R} Π_{k<D} feat_{k, m·R + r}(x_k)` as exact
polynomials, on which the forward- and reverse-mode models of `Operators.lean` / `Residuals.lean` /
`SpinnTerms.lean` are run.  Imports nothing outside core Lean.
-/
import JinnsModel.Poly
import JinnsModel.Grid
import JinnsModel.OperatorsPoly
import JinnsModel.SpinnTerms
namespace Jinns.SpinnPoly
open Jinns.Calc Jinns.Grid Jinns.Operators Jinns.Residuals Jinns.SpinnTerms

abbrev Coef := List (List (List Rat))

def coefRow (coef : Coef) (k c : Nat) : List Rat := (coef.getD k []).getD c []

/-- feature `c` of axis `k` as a polynomial in variable `k + off` -/
def featPoly (coef : Coef) (off k c : Nat) : Poly :=
  (List.range (coefRow coef k c).length).map
    (fun e => ((coefRow coef k c).getD e 0, List.replicate (k + off) 0 ++ [e]))

/-- the `R·M` features of axis `k` at the coordinate `z` (`_SPINN.__call__`, one row) -/
def featVal (coef : Coef) (RM : Nat) (k : Nat) (z : Rat) : List Rat :=
  (List.range RM).map (fun c =>
    sumQ ((List.range (coefRow coef k c).length).map (fun e => (coefRow coef k c).getD e 0 * Poly.powNat z e)))

def prodPoly (ps : List Poly) : Poly := ps.foldr Poly.mul (Poly.const 1)

/-- output `m` of the pointwise twin -/
def twinPoly (coef : Coef) (off R D m : Nat) : Poly :=
  polyOps.sum R (fun r => prodPoly ((List.range D).map (fun k => featPoly coef off k (m * R + r))))

def twinPolys (coef : Coef) (off R M D : Nat) : List Poly := (List.range M).map (twinPoly coef off R D)

/-- the point of `Poly.eval` for a grid point: stationary problems get the dummy time 0 in front -/
def evalPt (off : Nat) (p : List Rat) : List Rat := List.replicate off 0 ++ p

/-- values of a vector of polynomials at a grid point -/
def valuesAt (off : Nat) (ps : List Poly) (p : List Rat) : List Rat := evalAll ps (evalPt off p)

/-- both branches of the built-in residuals on exact polynomials (`u` = components of the twin) -/
inductive Residual where
  | burgers (Tmax nu : Rat)
  | fisher (d : Nat) (Tmax D r g : Rat)
  | ou (Tmax : Rat) (alpha mu sigma : List Rat)

def asFn (l : List Rat) (i : Nat) : Rat := l.getD i 0

def residualFwd (res : Residual) (u : Poly) : Poly :=
  match res with
  | .burgers Tmax nu => burgersFwd polyOps Tmax nu u
  | .fisher d Tmax D r g => fisherFwd polyOps polyExt d Tmax D r g u
  | .ou Tmax alpha mu sigma => ouFwd polyOps polyExt (asFn alpha) (asFn mu) (asFn sigma) Tmax u

def residualRev (res : Residual) (u : Poly) : Poly :=
  match res with
  | .burgers Tmax nu => burgersRev polyOps Tmax nu u
  | .fisher d Tmax D r g => fisherRev polyOps polyExt d Tmax D r g u
  | .ou Tmax alpha mu sigma => ouRev polyOps polyExt (asFn alpha) (asFn mu) (asFn sigma) Tmax u

end Jinns.SpinnPoly
