/-
Model of what a refinement step of RAR does to the point stores, transcribed from
`jinns/solver/_rar.py: rar_step_true` and `jinns/data/_DataGenerators.py`
(`temporal_batch` / `inside_batch` with `n_eff`, `_reset_batch_idx_and_permute` with `p`):

* `selectTop sel res`      : `dynamic_slice(argsort(mse), (m - sel,), (sel,))`      (ODE, stationary)
* `topPairs mse nX sT sX`  : `top_k(mse.flatten(), max(sT, sX))`, `unravel_index`, the first `sT` row
                             indices and the first `sX` column indices              (non-stationary)
* `updateStore`            : `dynamic_update_slice(store, points, (n_start + rar_iter_nb * sel,))`
* `RS`                     : one store with its cursor (the machine of `Minibatch.lean`, requests being
                             compared with `n_eff = n_start + rar_iter_nb * sel`) and its step counter
* `Gen`                    : a whole generator = schedule state (`RarSchedule.lean`) + its stores

External inputs (oracles): the candidates and their squared residuals (PRNG + network, reported
by the guarded hook), and the store a reshuffle produces (`jax.random.choice(replace=False, p)`),
with the contract "a permutation that keeps the zero-probability slots last", i.e. permutes the
first `n_eff` entries among themselves — checked by `RS.oracleOk` on every reshuffle it is fed.
Imports nothing outside core Lean.
-/
import JinnsModel.Minibatch
import JinnsModel.RarSchedule

namespace Jinns.Rar

/-! ### stable sorting of indices -/

/-- insert `a` before the first element `b` with `le a b` -/
def insertBy (le : Nat → Nat → Bool) (a : Nat) : List Nat → List Nat
  | [] => [a]
  | b :: l => if le a b then a :: b :: l else b :: insertBy le a l

/-- stable insertion sort (of indices) -/
def sortBy (le : Nat → Nat → Bool) : List Nat → List Nat
  | [] => []
  | a :: l => insertBy le a (sortBy le l)

section keys
variable {κ : Type} [LE κ] [DecidableLE κ] [Inhabited κ]

/-- `res[i] ≤ res[j]` -/
def keyLe (res : List κ) (i j : Nat) : Bool := decide (res.getD i default ≤ res.getD j default)

/-- `jnp.argsort(res)`: ascending, stable -/
def argsortAsc (res : List κ) : List Nat := sortBy (keyLe res) (List.range res.length)

/-- indices by descending value, lower index first among equal values (`jax.lax.top_k` order) -/
def argsortDesc (res : List κ) : List Nat :=
  sortBy (fun i j => keyLe res j i) (List.range res.length)

/-- `jax.lax.dynamic_slice(jnp.argsort(mse), (m - sel,), (sel,))` -/
def selectTop (sel : Nat) (res : List κ) : List Nat :=
  Minibatch.slice (argsortAsc res) (res.length - sel) sel

/-- `jax.lax.top_k(flat, k)[1]` -/
def topK (k : Nat) (flat : List κ) : List Nat := (argsortDesc flat).take k

/-- the non-stationary selection: `n_select = max(sel_t, sel_x)` best (time, space) pairs of the
    `(nT, nX)` table, then `arr_idx[0][:sel_t]` and `arr_idx[1][:sel_x]` (`unravel_index`, row-major). -/
def topPairs (mse : List (List κ)) (nX selT selX : Nat) : List Nat × List Nat :=
  let top := topK (max selT selX) mse.flatten
  ((top.take selT).map (· / nX), (top.take selX).map (· % nX))

end keys

/-! ### the stores -/

/-- `jax.lax.dynamic_update_slice(store, pts, (off, …))`: the start is clamped to `len - |pts|`. -/
def updateStore {α : Type} (store : List α) (off : Nat) (pts : List α) : List α :=
  let o := min off (store.length - pts.length)
  store.take o ++ pts ++ store.drop (o + pts.length)

/-- one store of a generator under RAR: the (permuted) store, its cursor and batch size, the static
    `n_start` / `selected` and the number of refinement steps done (`rar_iter_nb`). -/
structure RS (α : Type) where
  store  : List α
  idx    : Nat
  b      : Nat
  nStart : Nat
  sel    : Nat
  steps  : Nat
deriving Repr

namespace RS
variable {α : Type}

def mk0 (store : List α) (b nStart sel : Nat) : RS α :=
  { store := store, idx := Minibatch.initIdx b, b := b, nStart := nStart, sel := sel, steps := 0 }

/-- `n_eff = n_start + rar_iter_nb * selected` (`temporal_batch`, `inside_batch`) -/
def nEff (s : RS α) : Nat := s.nStart + s.steps * s.sel

/-- the active points: the first `n_eff` slots -/
def active (s : RS α) : List α := s.store.take s.nEff

def mb (s : RS α) : Minibatch.MB α := { store := s.store, idx := s.idx, b := s.b }

/-- does the next `get_batch` reshuffle this store? -/
def resets (s : RS α) : Bool := Minibatch.resets s.nEff s.mb

/-- `get_batch` on this store (`oracle` = the reshuffled store, used only if it reshuffles). -/
def draw (s : RS α) (oracle : List α) : RS α × List α :=
  let r := Minibatch.next s.nEff s.mb oracle
  ({ s with store := r.1.store, idx := r.1.idx }, r.2)

/-- contract of `jax.random.choice(replace=False, p)` with `p` non-zero exactly on `[0, n_eff)`:
    the first `n_eff` entries are permuted among themselves, and so are the others. -/
def oracleOk [BEq α] (s : RS α) (oracle : List α) : Bool :=
  !s.resets ||
    ((oracle.take s.nEff).isPerm (s.store.take s.nEff) &&
     (oracle.drop s.nEff).isPerm (s.store.drop s.nEff))

/-- another full set fits: `selected ≤ #zero-probability slots` when the probabilities are non-zero
    exactly on `[0, n_eff)` (C16) -/
def fits (s : RS α) : Bool := decide (s.nEff + s.sel ≤ s.store.length)

/-- the store part of `rar_step_true`: write the chosen points at `n_eff`, count the step. -/
def add (s : RS α) (pts : List α) : RS α :=
  { s with store := updateStore s.store s.nEff pts, steps := s.steps + 1 }

end RS

/-- histories of one store: batch draws (with the reshuffle oracle) and refinement attempts
    (with the chosen candidate points); an attempt adds the points iff a full set fits. -/
inductive Op (α : Type) where
  | draw (oracle : List α)
  | step (pts : List α)
deriving Repr

namespace RS
variable {α : Type}

def apply (s : RS α) : Op α → RS α
  | .draw o => (s.draw o).1
  | .step pts => if s.fits then s.add pts else s

def run (s : RS α) : List (Op α) → RS α
  | [] => s
  | op :: ops => run (s.apply op) ops

/-- the oracles of the history honour their contracts (reshuffles keep inactive slots last, a step
    brings exactly `selected` points) -/
def valid [BEq α] (s : RS α) : List (Op α) → Bool
  | [] => true
  | .draw o :: ops => s.oracleOk o && valid (s.apply (.draw o)) ops
  | .step pts :: ops => (pts.length == s.sel) && valid (s.apply (.step pts)) ops

/-- the points added by the refinement steps of the history that took place, in order -/
def added (s : RS α) : List (Op α) → List α
  | [] => []
  | .draw o :: ops => added (s.apply (.draw o)) ops
  | .step pts :: ops => (if s.fits then pts else []) ++ added (s.apply (.step pts)) ops

end RS

/-! ### product domains: a time store and a space store sharing the step counter -/

structure RS2 (α β : Type) where
  t : RS α
  x : RS β
deriving Repr

inductive Op2 (α β : Type) where
  | draw (oT : List α) (oX : List β)
  | step (ptsT : List α) (ptsX : List β)
deriving Repr

namespace RS2
variable {α β : Type}

def fits (s : RS2 α β) : Bool := s.t.fits && s.x.fits

def apply (s : RS2 α β) : Op2 α β → RS2 α β
  | .draw oT oX => { t := (s.t.draw oT).1, x := (s.x.draw oX).1 }
  | .step pT pX => if s.fits then { t := s.t.add pT, x := s.x.add pX } else s

def run (s : RS2 α β) : List (Op2 α β) → RS2 α β
  | [] => s
  | op :: ops => run (s.apply op) ops

def valid [BEq α] [BEq β] (s : RS2 α β) : List (Op2 α β) → Bool
  | [] => true
  | .draw oT oX :: ops => s.t.oracleOk oT && s.x.oracleOk oX && valid (s.apply (.draw oT oX)) ops
  | .step pT pX :: ops =>
    (pT.length == s.t.sel) && (pX.length == s.x.sel) && valid (s.apply (.step pT pX)) ops

def addedT (s : RS2 α β) : List (Op2 α β) → List α
  | [] => []
  | .draw oT oX :: ops => addedT (s.apply (.draw oT oX)) ops
  | .step pT pX :: ops => (if s.fits then pT else []) ++ addedT (s.apply (.step pT pX)) ops

def addedX (s : RS2 α β) : List (Op2 α β) → List β
  | [] => []
  | .draw oT oX :: ops => addedX (s.apply (.draw oT oX)) ops
  | .step pT pX :: ops => (if s.fits then pX else []) ++ addedX (s.apply (.step pT pX)) ops

end RS2

/-! ### a whole generator: schedule + stores (what the correspondence runs) -/

/-- points are labelled by naturals; a store the kind does not own is empty -/
structure Gen where
  cfg : Cfg
  st  : St
  t   : RS Nat
  x   : RS Nat
deriving Repr

namespace Gen

def init (c : Cfg) (storeT storeX : List Nat) (bT bX : Nat) : Gen :=
  { cfg := c, st := Rar.init c,
    t := RS.mk0 storeT bT c.ntStart c.selT, x := RS.mk0 storeX bX c.nStart c.selX }

/-- `get_batch`: every owned store is drawn from (stationary/non-stationary: omega first, then times;
    the two cursors are independent) -/
def getBatch (g : Gen) (oT oX : List Nat) : Gen × List Nat × List Nat :=
  let rt := if g.cfg.kind.hasT then g.t.draw oT else (g.t, [])
  let rx := if g.cfg.kind.hasX then g.x.draw oX else (g.x, [])
  ({ g with t := rt.1, x := rx.1 }, rt.2, rx.2)

/-- `trigger_rar(i, …)`: if `_proceed_to_rar` then the chosen points are written into the owned
    stores at `n_start + rar_iter_nb * selected` and the probabilities / counters updated
    (`rar_step_true`), else `rar_step_false`. Returns also whether a step happened. -/
def trigger (g : Gen) (i : Nat) (ptsT ptsX : List Nat) : Gen × Bool :=
  if proceed g.cfg g.st i then
    ({ g with st := stepTrue g.cfg g.st,
              t := if g.cfg.kind.hasT then g.t.add ptsT else g.t,
              x := if g.cfg.kind.hasX then g.x.add ptsX else g.x }, true)
  else ({ g with st := stepFalse g.cfg g.st i }, false)

end Gen

/-- histories of a whole generator: `get_batch` (with the reshuffle oracles of its stores) and
    `trigger_rar(i, …)` (with the chosen candidate points for its stores) -/
inductive GenOp where
  | draw (oT oX : List Nat)
  | trigger (i : Nat) (ptsT ptsX : List Nat)
deriving Repr

namespace Gen

def applyOp (g : Gen) : GenOp → Gen
  | .draw oT oX => (g.getBatch oT oX).1
  | .trigger i pT pX => (g.trigger i pT pX).1

def runOps (g : Gen) : List GenOp → Gen
  | [] => g
  | op :: ops => runOps (g.applyOp op) ops

/-- the oracles honour their contracts along the history -/
def validOps (g : Gen) : List GenOp → Bool
  | [] => true
  | .draw oT oX :: ops =>
    (!g.cfg.kind.hasT || g.t.oracleOk oT) && (!g.cfg.kind.hasX || g.x.oracleOk oX) &&
      validOps (g.applyOp (.draw oT oX)) ops
  | .trigger i pT pX :: ops =>
    (pT.length == g.cfg.selT) && (pX.length == g.cfg.selX) && validOps (g.applyOp (.trigger i pT pX)) ops

/-- the time points added by the steps that took place -/
def addedT (g : Gen) : List GenOp → List Nat
  | [] => []
  | .draw oT oX :: ops => addedT (g.applyOp (.draw oT oX)) ops
  | .trigger i pT pX :: ops =>
    (if (g.trigger i pT pX).2 then pT else []) ++ addedT (g.applyOp (.trigger i pT pX)) ops

def addedX (g : Gen) : List GenOp → List Nat
  | [] => []
  | .draw oT oX :: ops => addedX (g.applyOp (.draw oT oX)) ops
  | .trigger i pT pX :: ops =>
    (if (g.trigger i pT pX).2 then pX else []) ++ addedX (g.applyOp (.trigger i pT pX)) ops

end Gen

end Jinns.Rar
