/-
C11 — both branches (`isinstance(u, PINN)` pointwise + `vmap`, `isinstance(u, SPINN)` on the whole grid) of
the boundary terms of `jinns/loss/_boundary_conditions.py` and of the initial-condition and normalisation
terms of `jinns/loss/_loss_utils.py`, in the shape of the code.

The network is a pointwise function `U : point → components` (already sliced by `dim_to_apply` /
`slice_solution`); on a batch `X` (`B` rows, `D` columns) the separable network returns the grid
`gridOf U (columns X D)` (`JinnsProofs/C11.lean: spinnOut_eq_twin_on_grid`).  User functions (`f`, the initial
condition) act on the last axis of `_get_grid(…)`: `f(x_grid)[idx] = f(x_grid[idx])`.
Points of non-stationary problems are `t :: x`.  Grids are flat, row-major (see `Grid.lean`).

Imports nothing outside core Lean.
-/
import JinnsModel.Grid
import JinnsModel.Operators
namespace Jinns.SpinnTerms
open Jinns.Calc Jinns.Operators Jinns.Grid

variable {F : Type}

/-- `jnp.sum((a - b)**2, axis=-1)` -/
def sqDist (a b : List Rat) : Rat := sumQ (List.zipWith (fun x y => (x - y) * (x - y)) a b)

/-- `jnp.mean` of a flat array -/
def mean (l : List Rat) : Rat := sumQ l / (l.length : Rat)

def absQ (x : Rat) : Rat := if x < 0 then -x else x

/-- `jnp.abs(x) ** 2` -/
def absSq (x : Rat) : Rat := absQ x * absQ x

/-! ## Dirichlet -/

/-- PINN branch of `boundary_dirichlet_statio` / `_nonstatio`:
    `vmap(lambda dx: u(dx)[dim_to_apply] - f(dx))(border_batch)`, `jnp.sum(res**2, axis=-1)`
    (non-stationary: `f(t, dx)`, here `f` of the point `t :: dx`) -/
def dirichletRev (U f : List Rat → List Rat) (pts : List (List Rat)) : List Rat :=
  pts.map (fun p => sqDist (U p) (f p))

/-- SPINN branch: `values = u(border_batch)[..., dim_to_apply]`, `x_grid = _get_grid(border_batch)`
    (non-stationary: `_get_grid(concatenate([times_batch, omega_border_batch], axis=-1))`),
    `boundaries = f(x_grid)`, `res = values - boundaries`, `jnp.sum(res**2, axis=-1)` -/
def dirichletFwd (U f : List Rat → List Rat) (X : List (List Rat)) (D : Nat) : List Rat :=
  let values := gridOf U (columns X D)
  let x_grid := getGrid X D
  let boundaries := x_grid.map f
  List.zipWith sqDist values boundaries

/-! ## Neumann: the normal derivative as a field -/

/-- `n = jnp.array([-1, 1])` (1-D: the outward normals at `xmin`, `xmax`) -/
def normals1 : List Rat := [-1, 1]
/-- `n = jnp.array([[-1, 1, 0, 0], [0, 0, -1, 1]])` (2-D: left, right, bottom, top) -/
def normals2 : List (List Rat) := [[-1, 1, 0, 0], [0, 0, -1, 1]]
def n1 (facet : Nat) : Rat := normals1.getD facet 0
def n2 (i facet : Nat) : Rat := (normals2.getD i []).getD facet 0

/-- PINN branch of `boundary_neumann_statio` / `_nonstatio`:
    `jnp.dot(grad(u_, x)(…), n[..., facet])` with `n` chosen by `border_batch.shape[-1] == 1`;
    space dimension `dx` (1: a length-1 gradient times the scalar `n[facet]`; 2: the dot product of two
    2-vectors; otherwise the shapes do not match: `none`) -/
def neumannRev (ops : FieldOps F) (dx : Nat) (sig : Sig) (facet : Nat) (u : F) : Option F :=
  if dx = 1 then some (ops.smul (n1 facet) (nth ops (gradArg ops 1 sig (xArg sig) u) 0))
  else if dx = 2 then
    some (ops.sum 2 (fun i => ops.smul (n2 i facet) (nth ops (gradArg ops 2 sig (xArg sig) u) i)))
  else none

/-- SPINN branch: `border_batch.shape[-1] == 1`: `du_dx = jvp(u[..., dim_to_apply], (x,), (ones_like(x),))[1]`,
    `values = du_dx * n[facet]`; `border_batch.shape[-1] == 2`: `values = du_dx1 * n[0, facet] + du_dx2 * n[1, facet]`
    with the tangents `[1, 0]`, `[0, 1]`; otherwise `raise ValueError("Not implemented, …")` -/
def neumannFwd (ops : FieldOps F) (dx : Nat) (facet : Nat) (u : F) : Option F :=
  if dx = 1 then some (ops.smul (n1 facet) (jvpX ops 1 (fun _ => 1) u))
  else if dx = 2 then
    some (ops.add (ops.smul (n2 0 facet) (jvpX ops 2 tangent0 u)) (ops.smul (n2 1 facet) (jvpX ops 2 tangent1 u)))
  else none

/-- the Neumann term once the normal derivative `V` is known pointwise: PINN
    `vmap(atleast_1d(dot(…) - f(dx)))`, `sum(**2, axis=-1)`; SPINN `res = values - f(x_grid)`, `sum(res**2, axis=-1)` -/
def neumannTermRev (V f : List Rat → Rat) (pts : List (List Rat)) : List Rat :=
  dirichletRev (fun p => [V p]) (fun p => [f p]) pts

def neumannTermFwd (V f : List Rat → Rat) (X : List (List Rat)) (D : Nat) : List Rat :=
  dirichletFwd (fun p => [V p]) (fun p => [f p]) X D

/-- `boundary_condition_apply`, one facet: `jnp.mean(loss_weight * mse)` -/
def facetMean (w : Rat) (mse : List Rat) : Rat := mean (mse.map (fun v => w * v))

/-! ## initial condition (`initial_condition_apply`) -/

/-- `jnp.sum(loss_weight * res**2, axis=-1)` for `res = a - b` -/
def wSqDist (w : Rat) (a b : List Rat) : Rat := sumQ (List.zipWith (fun x y => w * ((x - y) * (x - y))) a b)

/-- PINN branch: `vmap(lambda x: initial_condition_fun(x) - u(jnp.zeros((1,)), x, params))(omega_batch)`,
    `jnp.mean(jnp.sum(loss_weight * res**2, axis=-1))` -/
def icRev (U f : List Rat → List Rat) (w : Rat) (pts : List (List Rat)) : Rat :=
  mean (pts.map (fun x => wSqDist w (f x) (U (0 :: x))))

/-- SPINN branch: `values = u(jnp.repeat(jnp.zeros((1, 1)), n, axis=0), x, params)[0]` (the grid over
    `(t, x)` with `n` zero times, first time index), `omega_batch_grid = _get_grid(omega_batch)`,
    `res = initial_condition_fun(omega_batch_grid) - values(omega_batch)`,
    `jnp.mean(jnp.sum(loss_weight * res**2, axis=-1))` -/
def icFwd (U f : List Rat → List Rat) (w : Rat) (n : Nat) (Xo : List (List Rat)) (Dx : Nat) : Rat :=
  let full := gridOf U (List.replicate n 0 :: columns Xo Dx)
  let v_ini := full.take (size ((columns Xo Dx).map List.length))
  let ini := (getGrid Xo Dx).map f
  mean (List.zipWith (wSqDist w) ini v_ini)

/-! ## normalisation (`normalization_loss_apply`) -/

/-- PINN, stationary: `loss_weight * jnp.mean(jnp.abs(jnp.mean(v_u(samples), axis=(-2, -1)) * int_length - 1) ** 2)`
    (the inner mean is over samples and components jointly) -/
def normRevStatio (U : List Rat → List Rat) (pts : List (List Rat)) (L w : Rat) : Rat :=
  w * absSq (mean ((pts.map U).flatten) * L - 1)

/-- SPINN, stationary: `res = u(samples)`,
    `loss_weight * jnp.abs(jnp.mean(jnp.mean(res, axis=-1), axis=all grid axes) * int_length - 1) ** 2` -/
def normFwdStatio (U : List Rat → List Rat) (X : List (List Rat)) (D : Nat) (L w : Rat) : Rat :=
  let res := gridOf U (columns X D)
  w * absSq (mean (res.map mean) * L - 1)

/-- PINN, non-stationary: `res = vmap_t(vmap_x(u(t, x)[slice_solution]))` of shape `(Bt, N, m)`,
    `loss_weight * jnp.mean(jnp.abs(jnp.mean(res, axis=(-2, -1)) * int_length - 1) ** 2)` -/
def normRevNonStatio (U : List Rat → List Rat) (T : List Rat) (pts : List (List Rat)) (L w : Rat) : Rat :=
  w * mean (T.map (fun t => absSq (mean ((pts.map (fun x => U (t :: x))).flatten) * L - 1)))

/-- SPINN, non-stationary: `rep_t = Bn // Bt`, `res = u(jnp.repeat(times, rep_t, axis=0), samples)`,
    `loss_weight * jnp.mean(jnp.abs(jnp.mean(jnp.mean(res, axis=-1), axis=(1, …)) * int_length - 1) ** 2)`:
    the flat grid over `(t, x)` is the concatenation of one spatial grid per (repeated) time (`gridOf_cons`) -/
def normFwdNonStatio (U : List Rat → List Rat) (T : List Rat) (rep : Nat) (Xs : List (List Rat)) (Dx : Nat)
    (L w : Rat) : Rat :=
  let tRep := T.flatMap (fun t => List.replicate rep t)
  let rows := tRep.map (fun t => gridOf (fun x => mean (U (t :: x))) (columns Xs Dx))
  w * mean (rows.map (fun r => absSq (mean r * L - 1)))

end Jinns.SpinnTerms
