/-
The executable instance of the training-loop model used for the correspondence with the real
`jinns.solve`: an *exact* family of programs on which every float64 operation is exact.

* loss: a user loss whose terms are sums of monomials `c · Π p[i] · z[l]` in the flattened
  parameters `p` and in features `z` of the batch (`z₀ = 1`, then for each batch column its sum
  and its sum of squares, last a fault feature that is NaN on batches containing a marked point);
  its gradient is the symbolic derivative (contract of `jax.value_and_grad`), each component
  optionally multiplied by NaN on marked batches (a `custom_vjp` fault in the harness loss);
* optimizer: `optax.sgd` with a piecewise-constant learning rate, optional momentum
  (`trace: t' = g + m·t`, `u = −lr·t'`), optionally chained with a transformation that replaces the
  update of some leaves by NaN at a given step;
* generators: the position in a recorded batch stream (PRNG shuffles are oracle inputs);
* validation: a scripted module (outcome script indexed by its call counter) or the model of the
  built-in `ValidationLoss` (`JinnsModel/Validation.lean`) on such a loss and its own batch stream.
Imports nothing outside core Lean.
-/
import JinnsModel.SolveLoop
import JinnsModel.SolveTrace
namespace Jinns.SolveFamily
open Jinns.Solve Jinns.Validation Jinns.SolveTrace

structure Mono where
  c  : Rat
  ps : List Nat      -- indices into the flattened parameters (with repetition)
  z  : Nat           -- index of a batch feature
deriving Repr

structure LossDef where
  terms     : List (String × List Mono)
  mark      : Option Rat      -- a batch is "marked" when its first column contains this point
  gradFault : List Nat        -- flat parameter indices whose gradient is NaN on marked batches
deriving Repr

def rsum (l : List Rat) : Rat := l.foldl (· + ·) 0

def marked (mark : Option Rat) (b : Batch) : Bool :=
  match mark with
  | none => false
  | some m => (b.cols.headD []).contains m

def features (mark : Option Rat) (b : Batch) : List Val :=
  [some 1] ++ b.cols.flatMap (fun c => [some (rsum c), some (rsum (c.map (fun x => x * x)))]) ++
    [if marked mark b then none else some 1]

def getV (l : List Val) (i : Nat) : Val := l.getD i none

def monoVal (p z : List Val) (m : Mono) : Val :=
  vmul (m.ps.foldl (fun acc i => vmul acc (getV p i)) (some m.c)) (getV z m.z)

/-- `∂/∂p_k` of a monomial: one summand per occurrence of `p_k`, the product of the other factors -/
def monoGrad (p z : List Val) (m : Mono) (k : Nat) : Val :=
  vsum ((List.range m.ps.length).filterMap (fun j =>
    if m.ps.getD j 0 == k then
      some (vmul (((List.range m.ps.length).filter (· != j)).foldl
        (fun acc j' => vmul acc (getV p (m.ps.getD j' 0))) (some m.c)) (getV z m.z))
    else none))

def lossTerms (L : LossDef) (θ : Params) (b : Batch) : List Val :=
  let p := θ.flatten
  let z := features L.mark b
  L.terms.map (fun t => vsum (t.2.map (monoVal p z)))

def lossTotal (L : LossDef) (θ : Params) (b : Batch) : Val := vsum (lossTerms L θ b)

def lossGradFlat (L : LossDef) (θ : Params) (b : Batch) : List Val :=
  let p := θ.flatten
  let z := features L.mark b
  let monos := L.terms.flatMap (·.2)
  (List.range p.length).map (fun k =>
    let g := vsum (monos.map (fun m => monoGrad p z m k))
    if marked L.mark b && L.gradFault.contains k then vmul g none else g)

/-- reshape a flat list like `θ` -/
def unflatten : Params → List Val → Params
  | [], _ => []
  | leaf :: rest, flat => flat.take leaf.length :: unflatten rest (flat.drop leaf.length)

structure OptConf where
  lr0      : Rat
  bounds   : List (Nat × Rat)          -- sorted `{step: scale}` of `piecewise_constant_schedule`
  momentum : Option Rat
  nanAt    : Option (Nat × List Nat)   -- (step, leaves) of the fault-injecting transformation
  hasCount : Bool                      -- does the optax state carry a step counter?
deriving Repr

structure OptSt where
  count : Nat
  trace : Params
deriving Repr

def lrAt (oc : OptConf) (count : Nat) : Rat :=
  oc.bounds.foldl (fun v bs => if bs.1 ≤ count then v * bs.2 else v) oc.lr0

def zip2 (f : Val → Val → Val) (a b : Params) : Params :=
  List.zipWith (fun x y => List.zipWith f x y) a b

def mapIdx {α β : Type} (f : Nat → α → β) (l : List α) : List β :=
  (List.range l.length).zipWith (fun i a => f i a) l

/-- `value_and_grad` + `optimizer.update` + `apply_updates` of the exact family -/
def step (L : LossDef) (oc : OptConf) (θ : Params) (o : OptSt) (b : Batch) :
    Step Params OptSt Val (List Val) :=
  let g := unflatten θ (lossGradFlat L θ b)
  let t := match oc.momentum with
    | none => g
    | some m => zip2 (fun gi ti => vadd gi (vmul (some m) ti)) g o.trace
  let lr := lrAt oc o.count
  let u : Params := t.map (fun leaf => leaf.map (fun x => vmul (some (-lr)) x))
  let u := match oc.nanAt with
    | none => u
    | some (k, leaves) =>
      if o.count == k then mapIdx (fun li leaf => if leaves.contains li then leaf.map (fun _ => none) else leaf) u
      else u
  { θ := zip2 vadd θ u,
    opt := { count := o.count + 1, trace := match oc.momentum with | none => o.trace | some _ => t },
    val := lossTotal L θ b,
    terms := lossTerms L θ b }

/-- projection on the tracked leaves: `None` leaves are dropped, `True` leaves are stored,
    non-`None` false leaves get an array that is never written (zeros) -/
def trackOf (spec : List (Option Bool)) (θ : Params) : Params :=
  (List.zip spec θ).filterMap (fun st =>
    match st.1 with
    | none => none
    | some true => some st.2
    | some false => some (st.2.map (fun _ => some 0)))

inductive ValKind where
  | scripted (script : List (Val × Bool × Bool))      -- (criterion, improved, stop) per call
  | vloss (L : LossDef) (batches : List Batch) (patience : Nat) (early : Bool)

structure ValConf where
  callEvery : Nat
  kind : ValKind

inductive VState where
  | scripted (counter : Nat)
  | vl (s : VL Nat)

def vlConf (L : LossDef) (batches : List Batch) (patience : Nat) (early : Bool) :
    VLConf Params Nat Batch :=
  { nextBatch := fun k => (k + 1, batches.getD k ⟨[]⟩),
    loss := fun θ b => lossTotal L θ b,
    patience := patience, early := early }

def validateOf (vc : Option ValConf) (s : VState) (θ : Params) : VOut VState Val :=
  match vc, s with
  | some ⟨_, .scripted script⟩, .scripted c =>
    let o := script.getD (min c (script.length - 1)) (some 0, false, false)
    { vs := .scripted (c + 1), stop := o.2.2, crit := o.1, improved := o.2.1 }
  | some ⟨_, .vloss L bs pat early⟩, .vl s =>
    let o := VL.call (vlConf L bs pat early) s θ
    { vs := .vl o.vs, stop := o.stop, crit := o.crit, improved := o.improved }
  | _, s => { vs := s, stop := false, crit := some 0, improved := false }

def initVState (vc : Option ValConf) : Option VState :=
  match vc with
  | none => none
  | some ⟨_, .scripted _⟩ => some (.scripted 0)
  | some ⟨_, .vloss _ _ _ _⟩ => some (.vl { gens := 0, core := vlInit })

structure Program where
  n       : Nat
  θ0      : Params
  opt0    : OptSt
  loss    : LossDef
  opt     : OptConf
  spec    : List (Option Bool)
  batches : List Batch
  val     : Option ValConf

def Program.prog (pg : Program) : Prog Params OptSt Nat Batch Val (List Val) Params VState Val :=
  { update := step pg.loss pg.opt,
    nextBatch := fun k => (k + 1, pg.batches.getD k ⟨[]⟩),
    isNaN := hasNaN,
    track := trackOf pg.spec,
    validate := validateOf pg.val,
    callEvery := match pg.val with | none => 1 | some vc => vc.callEvery,
    v0 := some 0,
    t0 := pg.loss.terms.map (fun _ => some 0),
    p0 := trackOf pg.spec (pg.θ0.map (fun leaf => leaf.map (fun _ => some 0))),
    c0 := some 0 }

def Program.run (pg : Program) :
    Option (St Params OptSt Nat Val (List Val) Params VState Val) :=
  solveChecked pg.prog pg.n pg.θ0 pg.opt0 0 (initVState pg.val)

def optObs (oc : OptConf) (o : OptSt) : OptObs :=
  { count := if oc.hasCount then some o.count else none,
    trace := match oc.momentum with | none => none | some _ => some o.trace }

/-- `[refLoop pr 0 r, refLoop pr 1 r, …, refLoop pr n r]`, computed in one pass
    (`refLoop pr (j+1) r = refStep pr (refLoop pr j r)` by definition) -/
def refStates {Θ O G B V T P VS C : Type} (pr : Prog Θ O G B V T P VS C) :
    Nat → Ref Θ O G V T P → List (Ref Θ O G V T P)
  | 0, r => [r]
  | n + 1, r => r :: refStates pr n (refStep pr r)

/-- the trace of the textbook loop (`refLoop`) on the program, as plain data -/
def Program.refTrace (pg : Program) (gens : List (List String)) : RefTrace :=
  let pr := pg.prog
  let states := refStates pr pg.n
    (refInit pg.θ0 pg.opt0 0 : Ref Params OptSt Nat Val (List Val) Params)
  let last := states.getLastD (refInit pg.θ0 pg.opt0 0)
  { n := pg.n,
    batches := (List.range pg.n).map (fun i => pg.batches.getD i ⟨[]⟩),
    thetas := states.map (·.θ),
    opts := states.map (fun r => optObs pg.opt r.opt),
    gens := gens,
    losses := last.lossH, terms := last.termH, tracked := last.trackH,
    zeroTracked := pr.p0, nTerms := pg.loss.terms.length }

end Jinns.SolveFamily
