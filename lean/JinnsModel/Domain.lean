/-
Model of the construction of the collocation stores of `jinns/data/_DataGenerators.py`
(`DataGeneratorODE`, `CubicMeshPDEStatio`, `CubicMeshPDENonStatio`: `__post_init__`,
`generate_time_data`, `generate_data`, `sample_in_omega_domain`, `sample_in_omega_border_domain`)
and of the batches they serve (`temporal_batch`, `inside_batch`, `border_batch`, `get_batch`),
through the C09 cursor machine and the C14 product.

The PRNG is an oracle: `jax.random.uniform(minval, maxval)` samples are inputs of the model, with
the contract "every sample lies in `[minval, maxval]`", which the model checks on every value it
is fed (`Err.contract` otherwise).  The grid method is arithmetic: `min + k * ((max - min) / n)`.
Rejections of the constructors are explicit error branches, in the order of the code.
Imports only the C09 / C14 models.
-/
import JinnsModel.Minibatch
import JinnsModel.Cartesian

namespace Jinns.Domain
open Jinns.Minibatch

/-- How a constructor / a request fails (the harness maps Python exceptions to the same names). -/
inductive Err where
  | valueError | typeError | notImplemented | assertionError | zeroDivision
  /-- the sampler oracle broke its contract (a sample outside `[minval, maxval]`, or a wrong count) -/
  | contract
deriving DecidableEq, Repr

def Err.name : Err → String
  | .valueError => "value_error"
  | .typeError => "type_error"
  | .notImplemented => "not_implemented"
  | .assertionError => "assertion_error"
  | .zeroDivision => "other:ZeroDivisionError"
  | .contract => "sampler_contract"

/-- `lo ≤ x ≤ hi` -/
def inIcc (lo hi x : Rat) : Bool := decide (lo ≤ x) && decide (x ≤ hi)

/-- the closed box `∏ [mins_i, maxs_i]`: right number of coordinates, each in its own range -/
def inBox (mins maxs p : List Rat) : Bool :=
  p.length == mins.length &&
    (List.range mins.length).all fun i => inIcc (mins.getD i 0) (maxs.getD i 0) (p.getD i 0)

/-! ### grid method -/

/-- `min + jnp.arange(n) * ((max - min) / n)` (`generate_time_data`, `generate_data` 1-D,
    `DataGeneratorParameter.generate_data`) -/
def gridStore (lo hi : Rat) (n : Nat) : List Rat :=
  (List.range n).map fun (k : Nat) => lo + (k : Rat) * ((hi - lo) / (n : Rat))

/-- `⌊√n⌋`: the largest `k ≤ n` with `k² ≤ n` (plain structural recursion, so that it computes
    in the kernel as well as in the evaluator) -/
def isqrt (n : Nat) : Nat := (List.range (n + 1)).foldl (fun s k => if k * k ≤ n then k else s) 0

/-- `int(round(float(jnp.sqrt(n))))`: `⌊√n⌋` or `⌊√n⌋ + 1`, whichever is nearer
    (`√n < s + ½ ⟺ n ≤ s² + s`; a tie is impossible for an integer `n`) -/
def roundSqrt (n : Nat) : Nat :=
  let s := isqrt n
  if n ≤ s * s + s then s else s + 1

/-- index along output axis `a` of the flat (C-order) position `p` in an `m × … × m` (`d` axes) array -/
def meshDigit (m d a p : Nat) : Nat := (p / m ^ (d - 1 - a)) % m

/-- `jnp.meshgrid` default `indexing='xy'`: the first two output axes are swapped -/
def xySwap (i : Nat) : Nat := if i = 0 then 1 else if i = 1 then 0 else i

/-- row `p` of `concatenate([a.reshape((n, 1)) for a in meshgrid(*axes)], axis=-1)`; axis `i` is
    `min_i + arange(m) * ((max_i - min_i) / sqrt n)` and `sqrt n = m` whenever the reshape is legal -/
def gridPoint (mins maxs : List Rat) (m d p : Nat) : List Rat :=
  (List.range d).map fun i =>
    mins.getD i 0 + ((meshDigit m d (xySwap i) p : Nat) : Rat) * ((maxs.getD i 0 - mins.getD i 0) / (m : Rat))

/-- the grid branch of `generate_data`; the `reshape((n, 1))` of an `m^dim`-element array raises a
    `TypeError` unless `m^dim = n` -/
def gridOmega (mins maxs : List Rat) (n dim : Nat) : Except Err (List (List Rat)) :=
  if dim = 1 then .ok ((gridStore (mins.getD 0 0) (maxs.getD 0 0) n).map fun v => [v])
  else
    let m := roundSqrt n
    if m ^ dim ≠ n then .error .typeError
    else .ok ((List.range n).map (gridPoint mins maxs m dim))

/-! ### uniform method (oracle) -/

/-- `sample_in_time_domain`: accept the oracle iff it honours the contract -/
def uniformTimes (tmin tmax : Rat) (nt : Nat) (oracle : List Rat) : Except Err (List Rat) :=
  if oracle.length = nt ∧ oracle.all (inIcc tmin tmax) then .ok oracle else .error .contract

/-- `sample_in_omega_domain` (one `uniform(minval=min_i, maxval=max_i)` column per axis) -/
def uniformOmega (mins maxs : List Rat) (n : Nat) (oracle : List (List Rat)) :
    Except Err (List (List Rat)) :=
  if oracle.length = n ∧ oracle.all (inBox mins maxs) then .ok oracle else .error .contract

/-! ### border -/

/-- `jnp.stack(facets, axis=-1)`: facets × rows × coordinates ↦ rows × coordinates × facets -/
def stackLast (rows dim : Nat) (fs : List (List (List Rat))) : List (List (List Rat)) :=
  (List.range rows).map fun r => (List.range dim).map fun c => fs.map fun F => (F.getD r []).getD c 0

/-- `sample_in_omega_border_domain`, `dim == 2`: the four `hstack`s in the order of the code
    (`xmin, xmax, ymin, ymax`); `u` = the four uniform columns (free coordinates), in that order. -/
def border2 (mins maxs : List Rat) (fn : Nat) (u : List (List Rat)) : List (List (List Rat)) :=
  let xmin := (u.getD 0 []).map fun v => [mins.getD 0 0, v]
  let xmax := (u.getD 1 []).map fun v => [maxs.getD 0 0, v]
  let ymin := (u.getD 2 []).map fun v => [v, mins.getD 1 0]
  let ymax := (u.getD 3 []).map fun v => [v, maxs.getD 1 0]
  stackLast fn 2 [xmin, xmax, ymin, ymax]

/-- contract of the four uniform draws of the border: `fn` samples each, facets `xmin, xmax` draw the
    free `y` in `[ymin, ymax]`, facets `ymin, ymax` draw the free `x` in `[xmin, xmax]` -/
def border2Contract (mins maxs : List Rat) (fn : Nat) (u : List (List Rat)) : Bool :=
  u.length == 4 && u.all (fun c => c.length == fn) &&
  (u.getD 0 []).all (inIcc (mins.getD 1 0) (maxs.getD 1 0)) &&
  (u.getD 1 []).all (inIcc (mins.getD 1 0) (maxs.getD 1 0)) &&
  (u.getD 2 []).all (inIcc (mins.getD 0 0) (maxs.getD 0 0)) &&
  (u.getD 3 []).all (inIcc (mins.getD 0 0) (maxs.getD 0 0))

/-- the point of facet `f` in one row (coordinates × facets) of a border array -/
def facetPoint (f : Nat) (row : List (List Rat)) : List (Option Rat) := row.map fun c => c[f]?

/-- "the point lies exactly on facet `f` and varies only along it": facets are ordered
    `x0min, x0max, x1min, x1max, …`; coordinate `f / 2` is **equal** to the bound, the others are in
    their range. -/
def onFacet (mins maxs : List Rat) (f : Nat) (p : List (Option Rat)) : Bool :=
  p.length == mins.length &&
  (List.range mins.length).all fun c =>
    match p.getD c none with
    | none => false
    | some v =>
      if c = f / 2 then v == (if f % 2 = 0 then mins.getD c 0 else maxs.getD c 0)
      else inIcc (mins.getD c 0) (maxs.getD c 0) v

/-- a whole border row: the right shape and every facet's point on its facet -/
def borderRowOk (mins maxs : List Rat) (row : List (List Rat)) : Bool :=
  row.length == mins.length && row.all (fun c => c.length == 2 * mins.length) &&
  (List.range (2 * mins.length)).all fun f => onFacet mins maxs f (facetPoint f row)

/-! ### constructors -/

inductive BorderStore where
  | absent
  /-- `dim == 1`: `jnp.array([xmin, xmax])` -/
  | ends (xmin xmax : Rat)
  /-- `dim == 2`: `nb // 4` rows × 2 coordinates × 4 facets -/
  | facets (rows : List (List (List Rat)))
deriving Repr

structure StatioArgs where
  n : Nat
  nb : Option Nat
  b : Nat
  bb : Option Nat
  dim : Nat
  mins : List Rat
  maxs : List Rat
  method : String

/-- the PRNG oracle of one construction: interior samples, the four free border columns -/
structure StatioOracle where
  omega : List (List Rat)
  border : List (List Rat)

structure Statio where
  args : StatioArgs
  /-- `self.nb` / `self.omega_border_batch_size` after `__post_init__` -/
  nb : Option Nat
  bb : Option Nat
  omega : List (List Rat)
  border : BorderStore

/-- the "special handling for the border batch" of `CubicMeshPDEStatio.__post_init__`:
    returns the stored `(nb, omega_border_batch_size)` or the error raised -/
def borderParams (dim : Nat) (nb bb : Option Nat) : Except Err (Option Nat × Option Nat) :=
  match bb with
  | none => .ok (none, none)
  | some bbv =>
    if dim = 1 then .ok (some 2, some 2)
    else match nb with
      | none => .error .typeError                      -- `None % int`
      | some nbv =>
        if dim = 0 then .error .zeroDivision           -- `nb % 0`
        else if nbv % (2 * dim) ≠ 0 ∨ nbv < 2 * dim then .error .valueError
        else if nbv / (2 * dim) < bbv then .error .valueError
        else .ok (some (2 * dim * (nbv / (2 * dim))), some bbv)

/-- the Ω part of `generate_data` -/
def mkOmega (a : StatioArgs) (o : List (List Rat)) : Except Err (List (List Rat)) :=
  if a.method = "grid" then
    if a.dim = 0 then .error .valueError               -- `concatenate([])`
    else gridOmega a.mins a.maxs a.n a.dim
  else if a.method = "uniform" then
    if a.dim = 0 then .error .valueError               -- `concatenate([])`
    else uniformOmega a.mins a.maxs a.n o
  else .error .valueError

/-- the ∂Ω part of `generate_data` (`sample_in_omega_border_domain`) -/
def mkBorder (a : StatioArgs) (nb bb : Option Nat) (u : List (List Rat)) : Except Err BorderStore :=
  match bb with
  | none => .ok .absent
  | some _ =>
    if a.dim = 1 then .ok (.ends (a.mins.getD 0 0) (a.maxs.getD 0 0))
    else if a.dim = 2 then
      let fn := (nb.getD 0) / 4
      if border2Contract a.mins a.maxs fn u then .ok (.facets (border2 a.mins a.maxs fn u))
      else .error .contract
    else .error .notImplemented

/-- `CubicMeshPDEStatio.__post_init__` (without RAR) -/
def mkStatio (a : StatioArgs) (o : StatioOracle) : Except Err Statio :=
  if a.dim ≠ a.mins.length ∨ a.dim ≠ a.maxs.length then .error .assertionError
  else do
    let (nb, bb) ← borderParams a.dim a.nb a.bb
    let omega ← mkOmega a o.omega
    let border ← mkBorder a nb bb o.border
    pure { args := a, nb := nb, bb := bb, omega := omega, border := border }

/-- `DataGeneratorODE.__post_init__` / `generate_time_data` -/
def mkTimes (method : String) (tmin tmax : Rat) (nt : Nat) (oracle : List Rat) : Except Err (List Rat) :=
  if method = "grid" then .ok (gridStore tmin tmax nt)
  else if method = "uniform" then uniformTimes tmin tmax nt oracle
  else .error .valueError

structure NonStatio where
  statio : Statio
  times : List Rat

/-- `CubicMeshPDENonStatio.__post_init__`: the stationary part, then the pairing guard, then the
    time store -/
def mkNonStatio (a : StatioArgs) (cart : Bool) (bt nt : Nat) (tmin tmax : Rat) (o : StatioOracle)
    (ot : List Rat) : Except Err NonStatio := do
  let s ← mkStatio a o
  match Jinns.Cartesian.pairingGuard cart a.dim bt a.b s.bb with
  | .error _ => .error .valueError
  | .ok _ =>
    let times ← mkTimes a.method tmin tmax nt ot
    pure { statio := s, times := times }

/-! ### residual-adaptive resampling (RAR) set-up: pre-allocated stores -/

/-- `_check_and_set_rar_parameters`: with `rar_parameters` the start size must be given
    (`ValueError` otherwise) and a fresh generator's epoch covers its first `n_start` points
    (`n_eff = n_start + rar_iter_nb · selected`, `rar_iter_nb = 0`); without, `n_start := n`.
    The store itself always has all `n` points (the inactive ones are pre-allocated). -/
def rarStart (rar : Bool) (n : Nat) (nStart : Option Nat) : Except Err Nat :=
  if rar then
    match nStart with
    | none => .error .valueError
    | some s => .ok s
  else .ok n

/-- `DataGeneratorODE.__post_init__` with the RAR set-up: the RAR check precedes the time data -/
def mkTimesRar (method : String) (tmin tmax : Rat) (nt : Nat) (rar : Bool) (ntStart : Option Nat)
    (oracle : List Rat) : Except Err (List Rat × Nat) :=
  match rarStart rar nt ntStart with
  | .error e => .error e
  | .ok ntEff =>
    match mkTimes method tmin tmax nt oracle with
    | .error e => .error e
    | .ok times => .ok (times, ntEff)

/-- `CubicMeshPDEStatio.__post_init__` with the RAR set-up: assertions, then the RAR check, then
    everything else; returns the generator and the epoch size `n_eff` of its interior cursor -/
def mkStatioRar (a : StatioArgs) (rar : Bool) (nStart : Option Nat) (o : StatioOracle) :
    Except Err (Statio × Nat) :=
  if a.dim ≠ a.mins.length ∨ a.dim ≠ a.maxs.length then .error .assertionError
  else
    match rarStart rar a.n nStart with
    | .error e => .error e
    | .ok nEff =>
      match mkStatio a o with
      | .error e => .error e
      | .ok s => .ok (s, nEff)

/-- `CubicMeshPDENonStatio.__post_init__` with the RAR set-up: the stationary part (with its RAR
    check), the pairing guard, the RAR check of the time store, the time data -/
def mkNonStatioRar (a : StatioArgs) (cart : Bool) (bt nt : Nat) (tmin tmax : Rat) (rar : Bool)
    (nStart ntStart : Option Nat) (o : StatioOracle) (ot : List Rat) :
    Except Err (NonStatio × Nat × Nat) :=
  match mkStatioRar a rar nStart o with
  | .error e => .error e
  | .ok (s, nEff) =>
    match Jinns.Cartesian.pairingGuard cart a.dim bt a.b s.bb with
    | .error _ => .error .valueError
    | .ok _ =>
      match rarStart rar nt ntStart with
      | .error e => .error e
      | .ok ntEff =>
        match mkTimes a.method tmin tmax nt ot with
        | .error e => .error e
        | .ok times => .ok ({ statio := s, times := times }, nEff, ntEff)

/-! ### batches -/

/-- `jax.lax.dynamic_slice` refuses a slice larger than the operand (`TypeError`), which is how a
    batch size larger than the store shows — at the first request, not at construction. -/
def sliceGuard (n b : Nat) : Except Err Unit := if n < b then .error .typeError else .ok ()

/-- the border cursor of a stationary generator: `dim == 2` only; `nEff = nb // (2 dim)` -/
def borderBatch1d (xmin xmax : Rat) : List (List (List Rat)) := [[[xmin, xmax]]]

end Jinns.Domain
