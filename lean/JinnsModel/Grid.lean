/-
C11 — grids.

* `getGrid`   : `jinns/utils/_utils.py: _get_grid` — `jnp.stack(jnp.meshgrid(*(in_array[..., d] for d in
                range(D)), indexing="ij"), axis=-1)` for `in_array` of shape `(B, D)`;
* `spinnRes` / `spinnOut` : `jinns/utils/_spinn.py` — what a separable network returns on a batch
                `(B, D)`: `v_model = vmap(spinn)` gives `res[b, k, :] = feat_k(X[b, k])` (`R·M` features per
                axis), `eval_nn` contracts `einsum("az, bz, … -> ab…", *(res[:, k, m*R:(m+1)*R] for k))` for
                every output `m` and stacks the outputs on the last axis;
* `gridOf`    : a pointwise function evaluated on the tensor grid of per-axis coordinate lists.

Tensors of shape `(n_0, …, n_{D-1})` (+ a trailing component axis) are FLAT lists in row-major (C) order,
as `numpy.ravel` gives them: the entry of multi-index `(i_0, …, i_{D-1})` sits at `flatIndex shape idx`.
Axis 0 is time for non-stationary problems (`t` is concatenated first).

Imports nothing outside core Lean.
-/
namespace Jinns.Grid

/-- all tuples with one entry per list, the first list varying slowest (row-major enumeration of the
    tensor product) -/
def cartProd {α : Type} : List (List α) → List (List α)
  | [] => [[]]
  | c :: cs => c.flatMap (fun x => (cartProd cs).map (fun tl => x :: tl))

/-- number of entries of a tensor of the given shape -/
def size : List Nat → Nat
  | [] => 1
  | n :: ns => n * size ns

/-- row-major position of the multi-index `idx` in a tensor of shape `shape` -/
def flatIndex : List Nat → List Nat → Nat
  | _ :: ns, i :: is => i * size ns + flatIndex ns is
  | _, _ => 0

/-- the tuple a multi-index selects: entry `k` is `ls[k][idx[k]]` -/
def pick {α : Type} (dflt : α) : List (List α) → List Nat → List α
  | l :: ls, i :: is => l.getD i dflt :: pick dflt ls is
  | _, _ => []

/-- `idx` is a multi-index into the tensor product of `ls` -/
def ValidIdx {α : Type} : List (List α) → List Nat → Prop
  | [], [] => True
  | l :: ls, i :: is => i < l.length ∧ ValidIdx ls is
  | _, _ => False

/-! ## `_get_grid` -/

/-- `in_array[..., k]` for `in_array` of shape `(B, D)` given as `B` rows -/
def column (X : List (List Rat)) (k : Nat) : List Rat := X.map (fun row => row.getD k 0)

/-- `(in_array[..., d] for d in range(in_array.shape[-1]))` -/
def columns (X : List (List Rat)) (D : Nat) : List (List Rat) := (List.range D).map (column X)

/-- `_get_grid(in_array)`: the `B^D` points of the grid, row-major; with `indexing="ij"` axis `k` of the
    grid runs over column `k` of `in_array` -/
def getGrid (X : List (List Rat)) (D : Nat) : List (List Rat) := cartProd (columns X D)

/-- a pointwise function on the tensor grid of the per-axis coordinate lists `cols` -/
def gridOf {β : Type} (g : List Rat → β) (cols : List (List Rat)) : List β := (cartProd cols).map g

/-! ## separable networks -/

/-- `res = vmap(spinn)(t, x)`: `res[b][k] = feat k (X[b][k])`, the `R·M` features of axis `k` at the `b`-th
    coordinate of that axis (`_SPINN.__call__` feeds `dimensions[d][None]` to the `d`-th sub-network) -/
def spinnRes (feat : Nat → Rat → List Rat) (X : List (List Rat)) (D : Nat) : List (List (List Rat)) :=
  X.map (fun row => (List.range D).map (fun k => feat k (row.getD k 0)))

def sumQ (l : List Rat) : Rat := l.foldr (· + ·) 0
def prodQ (l : List Rat) : Rat := l.foldr (· * ·) 1

/-- `res[i, k, m*R:(m+1)*R][z]` -/
def resSlice (res : List (List (List Rat))) (R m i k z : Nat) : Rat :=
  ((((res.getD i []).getD k []).drop (m * R)).take R).getD z 0

/-- `SPINN.eval_nn`: for every output `m < M`, `einsum("az, bz, … -> ab…")` of the slices
    `res[:, k, m*R:(m+1)*R]`, `k < D`: entry `(i_0, …, i_{D-1})` is `Σ_{z<R} Π_{k<D} res[i_k, k, m·R + z]`;
    outputs stacked on the last axis.  Flat over the grid index, one list of `M` outputs per entry. -/
def spinnOut (R M : Nat) (res : List (List (List Rat))) (D : Nat) : List (List Rat) :=
  (cartProd (List.replicate D (List.range res.length))).map (fun idx =>
    (List.range M).map (fun m =>
      sumQ ((List.range R).map (fun z =>
        prodQ ((List.range D).map (fun k => resSlice res R m (idx.getD k 0) k z))))))

/-- the pointwise twin of the separable network: `u_m(p) = Σ_{r<R} Π_{k<D} feat k (p_k) (m·R + r)` -/
def twin (feat : Nat → Rat → List Rat) (R M D : Nat) (p : List Rat) : List Rat :=
  (List.range M).map (fun m =>
    sumQ ((List.range R).map (fun r =>
      prodQ ((List.range D).map (fun k => (feat k (p.getD k 0)).getD (m * R + r) 0)))))

end Jinns.Grid
