/-
`Holds.C17` — the property C17 ("refinement adds the highest-residual candidates and keeps active
points") as a decidable predicate over an *observed* history of a generator: batch draws and
refinement steps.  Points are labelled by naturals (equal labels = equal points), residuals are
exact rationals.  Observables of a step: the candidates of the step (hook), the squared residuals
reported for them (hook) and recomputed exactly for the current network (harness), the chosen
indices (hook), the store and the non-zero pattern of its probabilities before and after.
Returns `none` when the history satisfies the property, `some clause` otherwise.
Mentions no model function.
-/
namespace Jinns.Holds

/-! ### small decidable helpers -/

def nodupB (l : List Nat) : Bool :=
  match l with
  | [] => true
  | a :: t => !t.contains a && nodupB t

/-- all lists obtained by picking one element in each list -/
def pickEach : List (List Nat) → List (List Nat)
  | [] => [[]]
  | opts :: rest => opts.flatMap (fun a => (pickEach rest).map (fun t => a :: t))

/-! ### the choice: ODE / stationary -/

section choice
/- residual values: exact rationals in the checks; any ordered type here, so that the clauses can
   also be evaluated by `decide` on integers -/
variable {κ : Type} [LE κ] [DecidableLE κ] [Inhabited κ]

/-- `chosen` is a set of `sel` distinct candidates whose residuals dominate all the others. -/
def topCheck (sel : Nat) (res : List κ) (chosen : List Nat) : Option String :=
  if chosen.length != sel then some "chosen-count"
  else if !chosen.all (fun c => decide (c < res.length)) then some "chosen-not-a-candidate"
  else if !nodupB chosen then some "chosen-not-distinct"
  else if !chosen.all (fun c => (List.range res.length).all (fun d =>
      chosen.contains d || decide (res.getD d default ≤ res.getD c default))) then some "chosen-not-largest-residuals"
  else none

/-! ### the choice: product domains -/

/-- `top` (flat indices, row-major in an `nT × nX` table) are `k` distinct pairs, by decreasing
    residual, dominating all other pairs -/
def topPairsOk (flat : List κ) (k : Nat) (top : List Nat) : Bool :=
  top.length == k && top.all (fun f => decide (f < flat.length)) && nodupB top &&
  top.all (fun c => (List.range flat.length).all (fun d =>
      top.contains d || decide (flat.getD d default ≤ flat.getD c default))) &&
  (List.range top.length).all (fun a => (List.range top.length).all (fun b =>
      !decide (a < b) || decide (flat.getD (top.getD b 0) default ≤ flat.getD (top.getD a 0) default)))

/-- admissible flat indices at rank `r`: the observed row for `r < selT`, the observed column for
    `r < selX` -/
def admissible (nT nX selT selX : Nat) (tIdx xIdx : List Nat) (r : Nat) : List Nat :=
  (List.range (nT * nX)).filter (fun f =>
    (!decide (r < selT) || f / nX == tIdx.getD r nT) &&
    (!decide (r < selX) || f % nX == xIdx.getD r nX))

/-- the time indices are the rows of the best `selT` pairs and the space indices the columns of the
    best `selX` pairs, for some list of the `max selT selX` best pairs (ties: any such list). -/
def pairsCheck (mse : List (List κ)) (nX selT selX : Nat) (tIdx xIdx : List Nat) : Option String :=
  let nT := mse.length
  let flat := mse.flatten
  let k := max selT selX
  if tIdx.length != selT || xIdx.length != selX then some "chosen-count"
  else if !mse.all (fun row => row.length == nX) then some "residual-table-shape"
  else if !(tIdx.all (fun a => decide (a < nT)) && xIdx.all (fun a => decide (a < nX))) then
    some "chosen-not-a-candidate"
  else
    let cands := pickEach ((List.range k).map (admissible nT nX selT selX tIdx xIdx))
    if cands.any (fun top => topPairsOk flat k top) then none
    else some "chosen-not-largest-residuals"

end choice

/-! ### the stores -/

/-- one store around one refinement step -/
structure Side17 where
  sel     : Nat
  candLab : List Nat        -- labels of the candidate points of this store
  chosen  : List Nat        -- candidate indices whose points go to this store
  storeB  : List Nat
  storeA  : List Nat
  maskB   : List Bool
  maskA   : List Bool
deriving Repr, Inhabited

def Side17.newly (s : Side17) : List Nat :=
  ((List.range s.storeA.length).filter (fun k => s.maskA.getD k false && !s.maskB.getD k false)).map
    (fun k => s.storeA.getD k 0)

def sideCheck (s : Side17) : Option String :=
  let n := s.storeB.length
  if s.storeA.length != n || s.maskB.length != n || s.maskA.length != n then some "store-shape"
  else if !(List.range n).all (fun k => !s.maskB.getD k false || s.maskA.getD k false) then
    some "active-point-deactivated"
  else if !(List.range n).all (fun k => !s.maskB.getD k false || s.storeA.getD k 0 == s.storeB.getD k 0) then
    some "active-slot-overwritten"
  else if s.newly.length != s.sel then some "added-count"
  else if !s.newly.isPerm (s.chosen.map (fun c => s.candLab.getD c 0)) then
    some "added-points-not-the-chosen-candidates"
  else none

/-- one store around one batch draw: the active points are still the same points -/
structure Draw17 where
  storeB : List Nat
  storeA : List Nat
  mask   : List Bool
deriving Repr, Inhabited

def maskedPts (store : List Nat) (mask : List Bool) : List Nat :=
  ((List.range store.length).filter (fun k => mask.getD k false)).map (fun k => store.getD k 0)

def drawCheck (d : Draw17) : Option String :=
  if d.storeA.length != d.storeB.length || d.mask.length != d.storeB.length then some "store-shape"
  else if !(maskedPts d.storeA d.mask).isPerm (maskedPts d.storeB d.mask) then
    some "draw-changed-the-active-points"
  else none

/-! ### events and the scan -/

/-- every coordinate of every candidate within `[lo, hi]` -/
def inBox (cands : List (List Rat)) (lo hi : List Rat) : Bool :=
  cands.all (fun p => p.length == lo.length &&
    (List.range p.length).all (fun j => decide (lo.getD j 0 ≤ p.getD j 0) && decide (p.getD j 0 ≤ hi.getD j 0)))

inductive Ev17 where
  | draw (sides : List Draw17)
  /-- the choice of an ODE / stationary step -/
  | choice1 (inDomain : Bool) (resReported resExact : List Rat) (sel : Nat) (chosen : List Nat)
  /-- the choice of a non-stationary step on the `(nT × nX)` table -/
  | choice2 (inDomain : Bool) (mseReported mseExact : List (List Rat)) (nX selT selX : Nat)
      (tIdx xIdx : List Nat)
  /-- the stores around a step (one side per store the generator owns) -/
  | stores (sides : List (String × Side17))
  /-- over a whole run whose intermediate stores were not observed: the active points at the end
      are those of the beginning plus the chosen candidates of all steps -/
  | summary (name : String) (activeB activeA added : List Nat)
  /-- the implementation refused the configuration (at construction or when `trigger_rar` is
      traced); `legal`: the configuration is within the documented domain -/
  | rejected (legal : Bool)
deriving Inhabited

def firstSome : List (Option String) → Option String
  | [] => none
  | some e :: _ => some e
  | none :: t => firstSome t

def evCheck : Ev17 → Option String
  | .draw sides => firstSome (sides.map drawCheck)
  | .choice1 dom rep ex sel chosen =>
    if !dom then some "candidate-outside-domain"
    else if rep != ex then some "residual-not-the-squared-residual-of-the-current-network"
    else topCheck sel ex chosen
  | .choice2 dom rep ex nX selT selX tIdx xIdx =>
    if !dom then some "candidate-outside-domain"
    else if rep != ex then some "residual-not-the-squared-residual-of-the-current-network"
    else pairsCheck ex nX selT selX tIdx xIdx
  | .stores sides => firstSome (sides.map (fun (nm, s) => (sideCheck s).map (· ++ "(" ++ nm ++ ")")))
  | .summary nm b a added =>
    if a.isPerm (b ++ added) then none else some ("active-points-not-initial-plus-chosen(" ++ nm ++ ")")
  | .rejected legal => if legal then some "valid-configuration-rejected" else none

def holdsC17 (evs : List Ev17) : Option String := firstSome (evs.map evCheck)

end Jinns.Holds
