/-
`Holds.C13` — property C13 as a decidable predicate over what a user observes: the `(total, terms)`
returned by a `SystemLossODE` / `SystemLossPDE`, the terms returned by the *real single losses* of
every unknown on the same data (unit weights, no dynamic part), and — for a one-equation
one-unknown system — the `(total, terms)` of the *real plain loss* on the same data.
The statement uses the specification functions only (`weightFor`: what weight a key receives from a
scalar / dictionary / missing specification; `specMse`/`override` for the residual mean squares).
Returns `none` when the observation satisfies the property, `some clause` otherwise.
-/
import JinnsModel.SystemLoss
import JinnsModel.HoldsC12

namespace Jinns.Holds
open Jinns.ParamBatch Jinns.SystemLoss

/-- is the specification acceptable for the key set `ks` it ranges over -/
def specValid (ks : List String) : WSpec → Bool
  | .none => true
  | .scalar _ => true
  | .dict d => sameKeys (keys d) ks
  | .vector => false
  | .dictVector _ => false

/-- the weight key `k` receives: a scalar is broadcast, a dictionary is honoured per key, a missing
    specification is a null weight -/
def weightFor : WSpec → String → Rat
  | .none, _ => 0
  | .scalar w, _ => w
  | .dict d, k => (get? k d).getD 0
  | .vector, _ => 0
  | .dictVector _, _ => 0

def weightsValid (S : Sys) : Bool :=
  specValid (keys S.eqs) S.weights.dyn && specValid (keys S.unknowns) S.weights.ic &&
  specValid (keys S.unknowns) S.weights.boundary && specValid (keys S.unknowns) S.weights.norm &&
  specValid (keys S.unknowns) S.weights.obs

/-- batch-mean squared residual of one equation, the equation being applied to the collocation row
    `(t, x…)` and the per-sample parameters; heterogeneous keys replaced inside the equation -/
def eqMse (p : Params) (S : Sys) (e : Eqn) : Rat :=
  specMse 1 (fun pt q => e.f pt (hetSpec e.het q pt)) S.pts (fun i => override p (S.paramRows.getD []) i)

/-- `Σ_e w_e · mse_e` -/
def specSysDyn (p : Params) (S : Sys) : Rat :=
  ParamBatch.sum (S.eqs.map fun ke => weightFor S.weights.dyn ke.1 * eqMse p S ke.2)

/-- `Σ_k w_{term,k} · term_k` over the unknowns, `term_k` taken from the list `singles` (aligned with
    `S.unknowns`) -/
def weightedSum (spec : WSpec) (us : List String) (vals : List Rat) : Rat :=
  ParamBatch.sum ((us.zip vals).map fun kv => weightFor spec kv.1 * kv.2)

/-- the batch and every unknown's own batch are well formed (C12) and the collocation rows have the
    size of the parameter batch -/
def wellFormedSys (p : Params) (S : Sys) : Bool :=
  (S.paramRows.getD []).all (fun r => hasKey r.1 p) &&
  (match batchSize (S.paramRows.getD []) with
   | none => true
   | some B => (S.paramRows.getD []).all (fun r => r.2.length == B) &&
       (S.eqs.isEmpty || S.pts.length == B)) &&
  S.unknowns.all (fun ku => wellFormed p (unitSingle S.paramRows ku.2))

/-- the terms of unknown `k`'s own single loss (unit weights, no dynamic part) that the property
    prescribes (C12 specification) -/
def specUnknown (p : Params) (S : Sys) (s : Single) : Terms := specTerms p (unitSingle S.paramRows s)

/-- the complete closed form of a system loss, from specification functions only -/
def specSysTerms (p : Params) (S : Sys) : Terms :=
  let us := keys S.unknowns
  let sing := S.unknowns.map fun ku => specUnknown p S ku.2
  { dyn := specSysDyn p S,
    ic := weightedSum S.weights.ic us (sing.map (·.ic)),
    boundary := weightedSum S.weights.boundary us (sing.map (·.boundary)),
    norm := weightedSum S.weights.norm us (sing.map (·.norm)),
    obs := weightedSum S.weights.obs us (sing.map (·.obs)) }

/-- C12 for the system losses: sample `i` of every equation's residual and of every unknown's
    constraint terms sees row `i` of the batched keys and the caller's value of all others. -/
def holdsC12Sys (p : Params) (S : Sys) (o : Outcome) : Option String :=
  if !(weightsValid S) || !(wellFormedSys p S) then none
  else match o with
    | .error _ => some "well-formed-parameter-batch-rejected"
    | .ok (t, tot) =>
      let e := specSysTerms p S
      if t.dyn != e.dyn then some "dyn_loss-sample-parameters"
      else if t.ic != e.ic then some "initial_condition-sample-parameters"
      else if t.boundary != e.boundary then some "boundary_loss-sample-parameters"
      else if t.norm != e.norm then some "norm_loss-sample-parameters"
      else if t.obs != e.obs then some "observations-sample-parameters"
      else if tot != t.total then some "total-not-sum-of-terms"
      else none

structure Obs13 where
  sys : Outcome                       -- the system loss
  singles : List Terms                -- real single losses, one per unknown, in the order of `S.unknowns`
  plain : Option Outcome              -- the real plain loss (only for E = U = 1 with scalar weights)

def holdsC13 (p : Params) (S : Sys) (o : Obs13) : Option String :=
  if !(weightsValid S) then
    match o.sys with
    | .error _ => none
    | .ok _ => some "malformed-weights-accepted"
  else if !(wellFormedSys p S) then none
  else match o.sys with
    | .error _ => some "valid-system-rejected"
    | .ok (t, tot) =>
      let us := keys S.unknowns
      if o.singles.length != us.length then some "harness-singles-misaligned"
      else if t.dyn != specSysDyn p S then some "dyn_loss-not-weighted-sum-over-equations"
      else if t.ic != weightedSum S.weights.ic us (o.singles.map (·.ic)) then
        some "initial_condition-not-weighted-sum-over-unknowns"
      else if t.boundary != weightedSum S.weights.boundary us (o.singles.map (·.boundary)) then
        some "boundary_loss-not-weighted-sum-over-unknowns"
      else if t.norm != weightedSum S.weights.norm us (o.singles.map (·.norm)) then
        some "norm_loss-not-weighted-sum-over-unknowns"
      else if t.obs != weightedSum S.weights.obs us (o.singles.map (·.obs)) then
        some "observations-not-weighted-sum-over-unknowns"
      else if tot != t.total then some "total-not-sum-of-terms"
      else match o.plain with
        | none => none
        | some (.error _) => some "plain-loss-rejected"
        | some (.ok (pt, ptot)) =>
          if pt == t && ptot == tot then none else some "one-equation-one-unknown-system-differs-from-plain-loss"

end Jinns.Holds
