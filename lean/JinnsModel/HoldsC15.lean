/-
`Holds.C15` — the property C15 as decidable predicates over what a user observes of the loaders:
the tables he passed in, and the dictionaries returned by `get_batch()`.
Observation loaders: every batch row `(pinn_in[r], val[r], eq_params[k][r])` is row `i` of the
user's tables for ONE original `i`.  Parameter loaders: per key, the store is the user's table when
there is one (either documented shape), else samples of that key's own range; batches are rows of
that key's store.  Multi-network loaders: an aligned batch per network with data, an empty entry
for the others.  `none` = holds, `some clause` = which clause fails.  Nothing here mentions the model.
-/
namespace Jinns.Holds

def c15First : List (Option String) → Option String
  | [] => none
  | some s :: _ => some s
  | none :: r => c15First r

/-- row `r` of the batch is row `i` of all the tables -/
def c15RowIs (pin val : List (List Rat)) (eq : List (List (List Rat)))
    (bpin bval : List (List Rat)) (beq : List (List (List Rat))) (r i : Nat) : Bool :=
  bpin[r]? == pin[i]? && bval[r]? == val[i]? &&
    (List.zip eq beq).all fun tb => tb.2[r]? == tb.1[i]?

/-- one observation batch against the user's (lifted) tables; `eq` / `beq` are the observed
    parameter tables / batches in the same key order, `keysOk` says the key sets coincide -/
def c15ObsBatch (b : Nat) (pin val : List (List Rat)) (eq : List (List (List Rat)))
    (bpin bval : List (List Rat)) (beq : List (List (List Rat))) (keysOk : Bool) : Option String :=
  let n := pin.length
  if !keysOk || eq.length != beq.length then some "obs-batch-eq-params-keys-differ-from-the-tables"
  else if bpin.length != b || bval.length != b || !(beq.all fun t => t.length == b) then
    some "obs-batch-size"
  else
    c15First <| (List.range b).map fun r =>
      if (List.range n).any (c15RowIs pin val eq bpin bval beq r) then none
      else if (List.range n).any (fun i => bpin[r]? == pin[i]?) then
        some "obs-batch-row-mixes-different-original-rows"
      else some "obs-batch-input-is-not-a-row-of-the-table"

/-- one key of a parameter loader: `user` = the user's table lifted to `(n, 1)` if any, else the
    key's range; `store` the store after construction; `batches` every batch served -/
def c15ParamKey (n b : Nat) (user : Option (List (List Rat))) (range : Option (Rat × Rat))
    (store : List (List Rat)) (batches : List (List (List Rat))) : Option String :=
  if store.length != n || !(store.all fun r => r.length == 1) then some "param-store-shape-is-not-(n,1)"
  else
    let src : Option String :=
      match user, range with
      | some t, _ => if store == t then none else some "param-user-table-not-taken-as-the-store"
      | none, some (lo, hi) =>
        if store.all fun r => r.all fun v => decide (lo ≤ v) && decide (v ≤ hi) then none
        else some "param-sample-outside-its-own-range"
      | none, none => some "param-key-without-source"
    match src with
    | some c => some c
    | none =>
      c15First <| batches.map fun bt =>
        if bt.length != b || !(bt.all fun r => r.length == 1) then some "param-batch-shape-is-not-(b,1)"
        else if bt.all fun r => store.contains r then none
        else some "param-batch-row-not-from-this-key's-store"

/-- one entry of a multi-network batch -/
def c15MultiEntry (hasData : Bool) (entryEmpty : Bool) (inner : Option String) : Option String :=
  if hasData && entryEmpty then some "multi-empty-entry-for-a-network-with-observations"
  else if !hasData && !entryEmpty then some "multi-nonempty-entry-for-a-network-without-observations"
  else if hasData then inner else none

/-- A non-finite entry (NaN, ±∞) in a returned batch or store is not an entry of the user's (finite)
    tables nor a sample of a range: the row is not a row of the tables. -/
def c15NotFinite (what : String) : Option String := some (what ++ "-entry-not-finite")

/-! ### whole traces -/

/-- a batch as returned: `(pinn_in, val, eq_params)` with the observed parameters by name -/
abbrev Batch15 := List (List Rat) × List (List Rat) × List (String × List (List Rat))

/-- C15 on an observation loader: the user's tables (lifted to 2-D, observed parameters by name,
    names sorted) and every batch returned along the history. -/
def holdsC15Obs (b : Nat) (pin val : List (List Rat)) (eq : List (String × List (List Rat)))
    (batches : List Batch15) : Option String :=
  c15First <| batches.map fun bt =>
    c15ObsBatch b pin val (eq.map (·.2)) bt.1 bt.2.1 (bt.2.2.map (·.2)) (eq.map (·.1) == bt.2.2.map (·.1))

/-- one key of a parameter loader as observed: user table (lifted) / range, store, batches -/
abbrev Key15 := Option (List (List Rat)) × Option (Rat × Rat) × List (List Rat) × List (List (List Rat))

/-- C15 on a parameter loader: every key on its own. -/
def holdsC15Param (n b : Nat) (keys : List Key15) : Option String :=
  c15First <| keys.map fun k => c15ParamKey n b k.1 k.2.1 k.2.2.1 k.2.2.2

/-- C15 on a multi-network loader: `nets` = per network its tables if it has observations;
    `steps` = per `get_batch`, per network: (entry is empty, the entry's batch if not). -/
def holdsC15Multi (b : Nat)
    (nets : List (String × Option (List (List Rat) × List (List Rat) × List (String × List (List Rat)))))
    (steps : List (List (String × Bool × Option Batch15))) : Option String :=
  c15First <| steps.map fun ents =>
    if ents.map (·.1) != nets.map (·.1) then some "multi-batch-keys-differ-from-the-networks"
    else c15First <| (List.zip nets ents).map fun ne =>
      let inner : Option String :=
        match ne.1.2, ne.2.2.2 with
        | some t, some bt => holdsC15Obs b t.1 t.2.1 t.2.2 [bt]
        | _, _ => none
      c15MultiEntry ne.1.2.isSome ne.2.2.1 inner

end Jinns.Holds
