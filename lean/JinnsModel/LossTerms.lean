/-
Model of the loss terms of jinns and of their assembly into `(total, terms)`.

  jinns/loss/_loss_utils.py : `dynamic_loss_apply`, `normalization_loss_apply`,
                              `observations_loss_apply`, `initial_condition_apply`   (PINN branches)
  jinns/loss/_LossODE.py    : `LossODE.evaluate`
  jinns/loss/_LossPDE.py    : `LossPDEStatio.evaluate`, `LossPDENonStatio.evaluate`
  jinns/parameters/_params.py : `_update_eq_params_dict`, `_get_vmap_in_axes_params`

The user's functions are parameters (universally quantified in the theorems; value tables in the
executable driver): the residual map `r` (`dyn_loss.evaluate` at one point, components as a list),
the network `u`, the initial state / function, the observed tables.  What is modelled is the
aggregation and the routing: which points feed which term, which axis is summed, which is averaged,
where the weight multiplies, where a missing term is `0`, how the total is assembled.
Imports nothing outside core Lean (`Rat`, `List`, `Option`).
-/
namespace Jinns.LossTerms

/-- `jnp.mean` of a 1-D array. -/
def mean (l : List Rat) : Rat := l.sum / (l.length : Rat)

def sqr (x : Rat) : Rat := x * x

/-- A loss weight: a float, or a 1-D array with one entry per component. -/
inductive Weight where
  | scalar (a : Rat)
  | vec (ws : List Rat)
deriving Repr

/-- entry `c` of the weight after broadcasting against the component axis -/
def Weight.get : Weight → Nat → Rat
  | .scalar a, _ => a
  | .vec ws, c => ws.getD c 0

/-- `jnp.sum(loss_weight * res**2, axis=-1)` for one row `res` (contract for an array weight:
    one entry per component). -/
def wsq : Weight → List Rat → Rat
  | .scalar a, r => (r.map fun x => a * sqr x).sum
  | .vec ws, r => (List.zipWith (fun w x => w * sqr x) ws r).sum

def Weight.smul (c : Rat) : Weight → Weight
  | .scalar a => .scalar (c * a)
  | .vec ws => .vec (ws.map fun w => c * w)

/-- componentwise difference `a - b` of two rows -/
def sub (a b : List Rat) : List Rat := List.zipWith (fun x y => x - y) a b

/-- `dynamic_loss_apply` (PINN branch):
    `residuals = vmap(dyn_loss)(batch, params)`; `mean(sum(loss_weight * residuals**2, axis=-1))`. -/
def dynTerm {α : Type} (w : Weight) (r : α → List Rat) (xs : List α) : Rat :=
  mean (xs.map fun x => wsq w (r x))

/-! ### slices (`jnp.s_[a:b]`; `none` is `...` / `[::]`) -/

abbrev Slice := Option (Nat × Nat)

def Slice.apply {α : Type} : Slice → List α → List α
  | none, l => l
  | some (a, b), l => (l.drop a).take (b - a)

/-! ### initial condition -/

/-- `LossODE.evaluate`, initial-condition block:
    `mean(w * sum((v_u(t0, params) - u0)**2, axis=-1))`.  `rows` holds `u(t0)` once, or once per
    row of the parameter batch when there is one (the `mean` is over those rows). -/
def icODE (w : Rat) (rows : List (List Rat)) (u0 : List Rat) : Rat :=
  mean (rows.map fun ut0 => w * ((sub ut0 u0).map sqr).sum)

/-- `initial_condition_apply` (PINN branch): `res = vmap(x ↦ u0(x) - u(zeros(1), x))(omega_batch)`;
    `mean(sum(w * res**2, axis=-1))`.  `uAt0 x` is `u(0, x)`. -/
def icPDE {X : Type} (w : Weight) (u0 uAt0 : X → List Rat) (xs : List X) : Rat :=
  mean (xs.map fun x => wsq w (sub (u0 x) (uAt0 x)))

/-! ### normalisation -/

/-- `jnp.mean(a, axis=(-2, -1))` of a (samples × components) table -/
def meanAll (tbl : List (List Rat)) : Rat := mean tbl.flatten

/-- `normalization_loss_apply`, stationary PINN branch: `v_u = vmap(x ↦ u(x)[u.slice_solution])`;
    `w * mean(abs(mean(v_u(samples), axis=(-2,-1)) * L - 1)**2)` (the outer mean is over a 0-d value). -/
def normStatio {S : Type} (w L : Rat) (sliceSol : Slice) (u : S → List Rat) (samples : List S) : Rat :=
  w * sqr (meanAll (samples.map fun s => sliceSol.apply (u s)) * L - 1)

/-- non-stationary PINN branch: `res[t, s, :] = u(t, s)[u.slice_solution]` for the time column `ts`
    of the inside batch; `w * mean_t(abs(mean(res, axis=(-2,-1)) * L - 1)**2)`. -/
def normNonStatio {T S : Type} (w L : Rat) (sliceSol : Slice) (u : T → S → List Rat) (ts : List T)
    (samples : List S) : Rat :=
  w * mean (ts.map fun t => sqr (meanAll (samples.map fun s => sliceSol.apply (u t s)) * L - 1))

/-! ### observations -/

/-- Equation parameters seen by observation row `i`: `_update_eq_params_dict` replaces the caller's
    value of every observed key by the observed table, and `_get_vmap_in_axes_params` maps axis 0 of
    exactly those keys: row `i` of an observed key, the caller's value of every other key. -/
def rowParams {κ : Type} [BEq κ] (caller : List (κ × Rat)) (observed : List (κ × List Rat))
    (i : Nat) : List (κ × Rat) :=
  caller.map fun kv =>
    match observed.lookup kv.1 with
    | some col => (kv.1, col.getD i kv.2)
    | none => kv

/-- Parameters seen by observation row `i` when the batch also carries a parameter batch
    (`batch.param_batch_dict`): `evaluate` first replaces the caller's value of every generated key
    by the generated table, then — in the observation block only — every observed key by the
    observed table, and maps axis 0 of the keys of both.  Row `i` therefore sees row `i` of the
    observed table for an observed key (also when the key is generated too), row `i` of the
    generated table for a key that is generated only, the caller's value otherwise. -/
def obsRowParams {κ : Type} [BEq κ] (caller : List (κ × Rat)) (pbatch observed : List (κ × List Rat))
    (i : Nat) : List (κ × Rat) :=
  rowParams (rowParams caller pbatch i) observed i

/-- `observations_loss_apply` (PINN branch): `val = vmap(u(·)[u.slice_solution])(pinn_in, params)[:, obs_slice]`;
    `mean(sum(w * (val - observed_values)**2, axis=-1))`, row `i` evaluated with `obsRowParams … i`.
    `ins i`, `vals i` are row `i` of the observed inputs / values, `n` the number of rows. -/
def obsTerm {I κ : Type} [BEq κ] (w : Weight) (u : I → List (κ × Rat) → List Rat)
    (sliceSol obsSlice : Slice) (caller : List (κ × Rat)) (pbatch observed : List (κ × List Rat))
    (ins : Nat → I) (vals : Nat → List Rat) (n : Nat) : Rat :=
  mean ((List.range n).map fun i =>
    wsq w (sub (obsSlice.apply (sliceSol.apply (u (ins i) (obsRowParams caller pbatch observed i))))
      (vals i)))

/-! ### assembly: `evaluate` -/

/-- the dictionary returned by `LossODE.evaluate` -/
structure OdeTerms where
  dyn : Rat
  ic  : Rat
  obs : Rat
deriving Repr

/-- the dictionary returned by `LossPDEStatio.evaluate` / `LossPDENonStatio.evaluate` -/
structure PdeTerms where
  dyn      : Rat
  norm     : Rat
  boundary : Rat
  obs      : Rat
  ic       : Rat
deriving Repr

def OdeTerms.sum (t : OdeTerms) : Rat := t.dyn + t.ic + t.obs
def PdeTerms.sum (t : PdeTerms) : Rat := t.dyn + t.norm + t.boundary + t.obs + t.ic

/-- `LossODE.evaluate`: each argument is `some v` when the term is configured (`dynamic_loss`,
    `initial_condition` not `None`, `batch.obs_batch_dict` not `None`), `v` being its value;
    otherwise the term is `jnp.array(0.)`.  `total = dyn + ic + obs`. -/
def evalODE (dyn ic obs : Option Rat) : Rat × OdeTerms :=
  let d := dyn.getD 0
  let i := ic.getD 0
  let o := obs.getD 0
  (d + i + o, { dyn := d, ic := i, obs := o })

/-- `LossPDEStatio.evaluate`: `total = dyn + norm + boundary + obs`; `initial_condition` is returned
    as `0` "for compatibility". -/
def evalStatio (dyn norm boundary obs : Option Rat) : Rat × PdeTerms :=
  let d := dyn.getD 0
  let n := norm.getD 0
  let b := boundary.getD 0
  let o := obs.getD 0
  (d + n + b + o, { dyn := d, norm := n, boundary := b, obs := o, ic := 0 })

/-- `LossPDENonStatio.evaluate`: delegates to the stationary `evaluate`, then adds the
    initial-condition term to the total and overwrites the `initial_condition` entry. -/
def evalNonStatio (dyn norm boundary obs ic : Option Rat) : Rat × PdeTerms :=
  let (partialTotal, terms) := evalStatio dyn norm boundary obs
  let i := ic.getD 0
  (partialTotal + i, { terms with ic := i })

/-! ### routing: which part of the batch feeds which term -/

/-- observation part of a batch (`batch.obs_batch_dict`) together with what the loss object holds
    for it -/
structure ObsCfg (I κ : Type) where
  w        : Weight
  u        : I → List (κ × Rat) → List Rat
  sliceSol : Slice
  obsSlice : Slice
  caller   : List (κ × Rat)
  pbatch   : List (κ × List Rat)
  observed : List (κ × List Rat)
  ins      : Nat → I
  vals     : Nat → List Rat
  n        : Nat

def ObsCfg.term {I κ : Type} [BEq κ] (o : ObsCfg I κ) : Rat :=
  obsTerm o.w o.u o.sliceSol o.obsSlice o.caller o.pbatch o.observed o.ins o.vals o.n

/-- `LossODE`: the dynamic term runs over `batch.temporal_batch`. -/
def lossODE {T I κ : Type} [BEq κ] (dyn : Option (Weight × (T → List Rat)))
    (ic : Option (Rat × List (List Rat) × List Rat)) (obs : Option (ObsCfg I κ))
    (temporal : List T) : Rat × OdeTerms :=
  evalODE (dyn.map fun (w, r) => dynTerm w r temporal)
    (ic.map fun (w, rows, u0) => icODE w rows u0)
    (obs.map ObsCfg.term)

/-- `LossPDEStatio`: the dynamic term runs over `batch.inside_batch`, the normalisation term over
    the loss object's own `norm_samples`; `boundary` is the value of `boundary_condition_apply`
    (`JinnsModel/Boundary.lean`) when a condition is configured. -/
def lossStatio {X S I κ : Type} [BEq κ] (dyn : Option (Weight × (X → List Rat)))
    (norm : Option (Rat × Rat × Slice × (S → List Rat) × List S)) (boundary : Option Rat)
    (obs : Option (ObsCfg I κ)) (inside : List X) : Rat × PdeTerms :=
  evalStatio (dyn.map fun (w, r) => dynTerm w r inside)
    (norm.map fun (w, L, sl, u, samples) => normStatio w L sl u samples)
    boundary (obs.map ObsCfg.term)

/-- `LossPDENonStatio`: rows of `times_x_inside_batch` are `(t, x)`; the dynamic term runs over the
    rows, the normalisation term over the time column (`[:, 0:1]`) × `norm_samples`, the
    initial-condition term over the space column (`[:, 1:]`) at `t = 0`. -/
def lossNonStatio {T X S I κ : Type} [BEq κ] (dyn : Option (Weight × (T × X → List Rat)))
    (norm : Option (Rat × Rat × Slice × (T → S → List Rat) × List S)) (boundary : Option Rat)
    (obs : Option (ObsCfg I κ)) (ic : Option (Weight × (X → List Rat) × (X → List Rat)))
    (inside : List (T × X)) : Rat × PdeTerms :=
  evalNonStatio (dyn.map fun (w, r) => dynTerm w r inside)
    (norm.map fun (w, L, sl, u, samples) => normNonStatio w L sl u (inside.map (·.1)) samples)
    boundary (obs.map ObsCfg.term)
    (ic.map fun (w, u0, uAt0) => icPDE w u0 uAt0 (inside.map (·.2)))

/-! ### separable networks (SPINN branches of `normalization_loss_apply` / `initial_condition_apply`)

A `SPINN` called on `B` rows of `D` coordinates returns its values on the tensor grid of the `D`
coordinate columns (`B^D` entries, plus a trailing component axis); it has no `slice_solution`. -/

/-- cartesian product of coordinate columns, first coordinate varying slowest -/
def cart : List (List Rat) → List (List Rat)
  | [] => [[]]
  | col :: rest => col.flatMap fun a => (cart rest).map fun p => a :: p

/-- the `nc` coordinate columns of a list of points -/
def columns (nc : Nat) (pts : List (List Rat)) : List (List Rat) :=
  (List.range nc).map fun j => pts.map fun p => p.getD j 0

/-- `_get_grid` of the facet's rows: every combination of one entry per coordinate column -/
def gridPts (nc : Nat) (pts : List (List Rat)) : List (List Rat) := cart (columns nc pts)

/-- `jnp.repeat(times, n_samples // n_times, axis=0)`: every batch time repeated consecutively -/
def repTimes {T : Type} (ts : List T) (ns : Nat) : List T :=
  ts.flatMap fun t => List.replicate (ns / ts.length) t

/-- `assert norm_samples.shape[0] % times.shape[0] == 0` fails -/
def normSpinnRejected (nt ns : Nat) : Bool := nt == 0 || ns % nt != 0

/-- `LossPDEStatio` around a SPINN (no dynamic part, no observations here):
    normalisation `res = u(norm_samples)` on the grid of the sample coordinate columns,
    `w * abs(mean(mean(res, axis=-1), all grid axes) * L - 1)**2` — the mean runs over the grid and
    over the output components. -/
def lossStatioSpinn (d : Nat) (norm : Option (Rat × Rat × (List Rat → List Rat) × List (List Rat)))
    (boundary : Option Rat) : Rat × PdeTerms :=
  evalStatio none (norm.map fun (w, L, u, samples) => normStatio w L none u (gridPts d samples))
    boundary none

/-- `LossPDENonStatio` around a SPINN: normalisation `res = u(repeat(times, rep_t), norm_samples)`,
    grid (repeated times) × (sample coordinate columns);
    `w * mean_t(abs(mean(mean(res, axis=-1), space grid axes) * L - 1)**2)`, the outer mean over the
    repeated times.  Initial condition: `u(zeros, omega_batch)[0]` against `u0(_get_grid(omega_batch))`
    on the grid of the space columns of the inside batch. -/
def lossNonStatioSpinn (d : Nat)
    (norm : Option (Rat × Rat × (Rat → List Rat → List Rat) × List (List Rat)))
    (boundary : Option Rat) (ic : Option (Weight × (List Rat → List Rat) × (List Rat → List Rat)))
    (inside : List (Rat × List Rat)) : Rat × PdeTerms :=
  evalNonStatio none
    (norm.map fun (w, L, u, samples) =>
      normNonStatio w L none u (repTimes (inside.map (·.1)) samples.length) (gridPts d samples))
    boundary none
    (ic.map fun (w, u0, uAt0) => icPDE w u0 uAt0 (gridPts d (inside.map (·.2))))

/-! ### separable networks with a dynamic loss

`dynamic_loss_apply`, SPINN branch: `residuals = dyn_loss(*batches, u, params)` is the grid of the
residual over the tensor product of the coordinate columns of the inside batch (time column first for a
non-stationary loss), and the term is `jnp.mean(jnp.sum(loss_weight * residuals**2, axis=-1))` over that
whole grid. -/

def lossStatioSpinnDyn (d : Nat) (dyn : Option (Weight × (List Rat → List Rat)))
    (norm : Option (Rat × Rat × (List Rat → List Rat) × List (List Rat)))
    (boundary : Option Rat) (inside : List (List Rat)) : Rat × PdeTerms :=
  evalStatio (dyn.map fun (w, r) => dynTerm w r (gridPts d inside))
    (norm.map fun (w, L, u, samples) => normStatio w L none u (gridPts d samples))
    boundary none

def lossNonStatioSpinnDyn (d : Nat) (dyn : Option (Weight × (List Rat → List Rat)))
    (norm : Option (Rat × Rat × (Rat → List Rat → List Rat) × List (List Rat)))
    (boundary : Option Rat) (ic : Option (Weight × (List Rat → List Rat) × (List Rat → List Rat)))
    (inside : List (Rat × List Rat)) : Rat × PdeTerms :=
  evalNonStatio (dyn.map fun (w, r) => dynTerm w r (gridPts (d + 1) (inside.map fun tx => tx.1 :: tx.2)))
    (norm.map fun (w, L, u, samples) =>
      normNonStatio w L none u (repTimes (inside.map (·.1)) samples.length) (gridPts d samples))
    boundary none
    (ic.map fun (w, u0, uAt0) => icPDE w u0 uAt0 (gridPts d (inside.map (·.2))))

end Jinns.LossTerms
