/-
`Holds.C08` — the property C08 as a decidable predicate over what a user observes of a generator:
its fields after construction (the stores) and every batch returned by `get_batch()`.
Clauses: exactly the requested number of points; declared batch shape; every point in the closed
interval / box; border points exactly on their facet (last axis ordered xmin, xmax, ymin, ymax,
pinned coordinate EQUAL to the bound, the free one in range); 1-D border = (xmin, xmax).
`none` = holds, `some clause` = which clause fails.  Nothing here mentions the model.
-/
namespace Jinns.Holds

def c08InIcc (lo hi x : Rat) : Bool := decide (lo ≤ x) && decide (x ≤ hi)

/-- the point has one coordinate per axis, each in `[min_i, max_i]` -/
def c08InBox (mins maxs p : List Rat) : Bool :=
  p.length == mins.length &&
    (List.range mins.length).all fun i => c08InIcc (mins.getD i 0) (maxs.getD i 0) (p.getD i 0)

def c08First : List (Option String) → Option String
  | [] => none
  | some s :: _ => some s
  | none :: r => c08First r

/-- a list of time points: declared count, all in `[tmin, tmax]` -/
def c08Times (what : String) (tmin tmax : Rat) (cnt : Nat) (ts : List Rat) : Option String :=
  if ts.length != cnt then some (what ++ "-count")
  else if !(ts.all (c08InIcc tmin tmax)) then some (what ++ "-point-outside-interval")
  else none

/-- a list of space points: declared count, `dim` coordinates, all in the box -/
def c08Points (what : String) (mins maxs : List Rat) (cnt : Nat) (ps : List (List Rat)) :
    Option String :=
  if ps.length != cnt then some (what ++ "-count")
  else if !(ps.all fun p => p.length == mins.length) then some (what ++ "-point-shape")
  else if !(ps.all (c08InBox mins maxs)) then some (what ++ "-point-outside-box")
  else none

/-- facet `f` (order `x0min, x0max, x1min, x1max, …`) of one border row (coordinates × facets):
    coordinate `f / 2` is EQUAL to its bound, the others are in range -/
def c08FacetClause (mins maxs : List Rat) (f : Nat) (row : List (List Rat)) : Option String :=
  c08First <| (List.range mins.length).map fun c =>
    match (row.getD c [])[f]? with
    | none => some "border-shape"
    | some v =>
      if c = f / 2 then
        if v == (if f % 2 = 0 then mins.getD c 0 else maxs.getD c 0) then none
        else some s!"border-facet{f}-pinned-coordinate-not-equal-to-its-bound"
      else if c08InIcc (mins.getD c 0) (maxs.getD c 0) v then none
      else some s!"border-facet{f}-free-coordinate-outside-range"

/-- a border array (rows × dim × 2·dim): declared row count, shape, every facet point on its facet -/
def c08BorderRows (what : String) (mins maxs : List Rat) (cnt : Nat) (rows : List (List (List Rat))) :
    Option String :=
  let dim := mins.length
  if rows.length != cnt then some (what ++ "-count")
  else if !(rows.all fun r => r.length == dim && r.all fun c => c.length == 2 * dim) then
    some (what ++ "-shape")
  else c08First <| rows.map fun r => c08First <| (List.range (2 * dim)).map fun f => c08FacetClause mins maxs f r

/-- rows `(t, x…)` of a space-time interior batch -/
def c08TX (mins maxs : List Rat) (tmin tmax : Rat) (cnt : Nat) (tx : List (List Rat)) : Option String :=
  if tx.length != cnt then some "interior-batch-count"
  else if !(tx.all fun r => r.length == 1 + mins.length) then some "interior-batch-point-shape"
  else if !(tx.all fun r => c08InIcc tmin tmax (r.headD 0)) then some "interior-batch-time-outside-interval"
  else if !(tx.all fun r => c08InBox mins maxs r.tail) then some "interior-batch-point-outside-box"
  else none

/-- rows (1 + dim) × 2·dim of a space-time border batch: time row in the interval on every facet,
    the remaining rows a border row -/
def c08TDX (mins maxs : List Rat) (tmin tmax : Rat) (cnt : Nat) (tdx : List (List (List Rat))) :
    Option String :=
  let dim := mins.length
  if tdx.length != cnt then some "border-batch-count"
  else if !(tdx.all fun r => r.length == 1 + dim && r.all fun c => c.length == 2 * dim) then
    some "border-batch-shape"
  else if !(tdx.all fun r => (r.headD []).all (c08InIcc tmin tmax)) then
    some "border-batch-time-outside-interval"
  else c08BorderRows "border-batch" mins maxs cnt (tdx.map List.tail)

/-- A non-finite coordinate (NaN, ±∞) in a store or in a batch is not a point of any closed
    interval / box: the property fails, whatever else the trace looks like.  `what` names the array
    (`time-store`, `inside-batch`, …) in which the implementation returned it. -/
def c08NotFinite (what : String) : Option String := some (what ++ "-point-not-finite")

/-! ### whole traces -/

/-- C08 on an ODE generator: the time store after construction and every temporal batch. -/
def holdsC08Ode (tmin tmax : Rat) (nt bt : Nat) (times : List Rat) (batches : List (List Rat)) :
    Option String :=
  c08First (c08Times "time-store" tmin tmax nt times ::
    batches.map (c08Times "time-batch" tmin tmax bt))

/-- the stores of a stationary generator: `omega` (n × dim), and the border store — absent without a
    border batch size, `(xmin, xmax)` in 1-D, `nb / (2 dim)` rows × dim × 2·dim on the facets else
    (`nb` the declared number of border points) -/
def holdsC08StatioStores (mins maxs : List Rat) (n : Nat) (nb bb : Option Nat)
    (omega : List (List Rat)) (border2 : Option (List (List (List Rat)))) (border1 : Option (List Rat)) :
    Option String :=
  let dim := mins.length
  c08First [
    c08Points "omega-store" mins maxs n omega,
    match bb with
    | none =>
      if border2.isSome || border1.isSome then some "border-store-present-without-border-batch-size" else none
    | some _ =>
      if dim == 1 then
        (if border1 == some [mins.getD 0 0, maxs.getD 0 0] then none
         else some "border-1d-store-is-not-(xmin,xmax)")
      else match border2 with
        | none => some "border-store-missing"
        | some rows =>
          if 2 * dim * rows.length != nb.getD 0 then some "border-store-count"
          else c08BorderRows "border-store" mins maxs rows.length rows]

/-- one batch of a stationary generator: `inside_batch` (b × dim) and `border_batch`
    (absent / `[[[xmin, xmax]]]` / bb × dim × 2·dim) -/
def holdsC08StatioBatch (mins maxs : List Rat) (b : Nat) (bb : Option Nat)
    (x : List (List Rat)) (dx : Option (List (List (List Rat)))) : Option String :=
  let dim := mins.length
  c08First [
    c08Points "inside-batch" mins maxs b x,
    match bb, dx with
    | none, none => none
    | none, some _ => some "border-batch-present-without-border-batch-size"
    | some _, none => some "border-batch-missing"
    | some bbv, some d =>
      if dim == 1 then
        (if d == [[[mins.getD 0 0, maxs.getD 0 0]]] then none else some "border-1d-batch-is-not-(xmin,xmax)")
      else c08BorderRows "border-batch" mins maxs bbv d]

/-- C08 on a stationary generator: stores, then every batch of the history. -/
def holdsC08Statio (mins maxs : List Rat) (n : Nat) (nb : Option Nat) (b : Nat) (bb : Option Nat)
    (omega : List (List Rat)) (border2 : Option (List (List (List Rat)))) (border1 : Option (List Rat))
    (batches : List (List (List Rat) × Option (List (List (List Rat))))) : Option String :=
  c08First (holdsC08StatioStores mins maxs n nb bb omega border2 border1 ::
    batches.map fun xd => holdsC08StatioBatch mins maxs b bb xd.1 xd.2)

/-- one space-time batch: `rowsIn` interior rows `(t, x…)`, `rowsBd` border rows -/
def holdsC08NonStatioBatch (mins maxs : List Rat) (tmin tmax : Rat) (rowsIn rowsBd : Nat)
    (bb : Option Nat) (tx : List (List Rat)) (tdx : Option (List (List (List Rat)))) : Option String :=
  c08First [
    c08TX mins maxs tmin tmax rowsIn tx,
    match bb, tdx with
    | none, none => none
    | some _, some td => c08TDX mins maxs tmin tmax rowsBd td
    | _, _ => some "border-batch-presence-differs-from-the-border-setting"]

/-- C08 on a non-stationary generator (declared shapes: product ⇒ `bt·b` interior rows and
    `bt·bb` border rows (`bt` in 1-D); pairing ⇒ `b` and `bb` rows). -/
def holdsC08NonStatio (mins maxs : List Rat) (tmin tmax : Rat) (n : Nat) (nb : Option Nat) (nt : Nat)
    (b : Nat) (bb : Option Nat) (bt : Nat) (cart : Bool)
    (omega : List (List Rat)) (border2 : Option (List (List (List Rat)))) (border1 : Option (List Rat))
    (times : List Rat)
    (batches : List (List (List Rat) × Option (List (List (List Rat))))) : Option String :=
  let dim := mins.length
  let bbv := if dim == 1 then 1 else bb.getD 0
  let rowsIn := if cart then bt * b else b
  let rowsBd := if cart || dim == 1 then bt * bbv else bbv
  c08First (holdsC08StatioStores mins maxs n nb bb omega border2 border1 ::
    c08Times "time-store" tmin tmax nt times ::
    batches.map fun p => holdsC08NonStatioBatch mins maxs tmin tmax rowsIn rowsBd bb p.1 p.2)

end Jinns.Holds
