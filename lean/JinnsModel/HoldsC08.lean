/-
`Holds.C08` — the property C08 as a decidable predicate over what a user observes of a generator:
its fields after construction (the stores) and every batch returned by `get_batch()`.
Clauses: exactly the requested number of points; declared batch shape; every point in the closed
interval / box; border points exactly on their facet (last axis ordered xmin, xmax, ymin, ymax,
pinned coordinate EQUAL to the bound, the free one in range); 1-D border = (xmin, xmax).
`none` = holds, `some clause` = which clause fails.  Nothing here mentions the model.
-/
namespace Jinns.Holds

def c08InIcc (lo hi x : Rat) : Bool := decide (lo ≤ x) && decide (x ≤ hi)

/-- the point has one coordinate per axis, each in `[min_i, max_i]` -/
def c08InBox (mins maxs p : List Rat) : Bool :=
  p.length == mins.length &&
    (List.range mins.length).all fun i => c08InIcc (mins.getD i 0) (maxs.getD i 0) (p.getD i 0)

def c08First : List (Option String) → Option String
  | [] => none
  | some s :: _ => some s
  | none :: r => c08First r

/-- a list of time points: declared count, all in `[tmin, tmax]` -/
def holdsTimes (what : String) (tmin tmax : Rat) (cnt : Nat) (ts : List Rat) : Option String :=
  if ts.length != cnt then some (what ++ "-count")
  else if !(ts.all (c08InIcc tmin tmax)) then some (what ++ "-point-outside-interval")
  else none

/-- a list of space points: declared count, `dim` coordinates, all in the box -/
def holdsPoints (what : String) (mins maxs : List Rat) (cnt : Nat) (ps : List (List Rat)) :
    Option String :=
  if ps.length != cnt then some (what ++ "-count")
  else if !(ps.all fun p => p.length == mins.length) then some (what ++ "-point-shape")
  else if !(ps.all (c08InBox mins maxs)) then some (what ++ "-point-outside-box")
  else none

/-- facet `f` (order `x0min, x0max, x1min, x1max, …`) of one border row (coordinates × facets):
    coordinate `f / 2` is EQUAL to its bound, the others are in range -/
def facetClause (mins maxs : List Rat) (f : Nat) (row : List (List Rat)) : Option String :=
  c08First <| (List.range mins.length).map fun c =>
    match (row.getD c [])[f]? with
    | none => some "border-shape"
    | some v =>
      if c = f / 2 then
        if v == (if f % 2 = 0 then mins.getD c 0 else maxs.getD c 0) then none
        else some s!"border-facet{f}-pinned-coordinate-not-equal-to-its-bound"
      else if c08InIcc (mins.getD c 0) (maxs.getD c 0) v then none
      else some s!"border-facet{f}-free-coordinate-outside-range"

/-- a border array (rows × dim × 2·dim): declared row count, shape, every facet point on its facet -/
def holdsBorderRows (what : String) (mins maxs : List Rat) (cnt : Nat) (rows : List (List (List Rat))) :
    Option String :=
  let dim := mins.length
  if rows.length != cnt then some (what ++ "-count")
  else if !(rows.all fun r => r.length == dim && r.all fun c => c.length == 2 * dim) then
    some (what ++ "-shape")
  else c08First <| rows.map fun r => c08First <| (List.range (2 * dim)).map fun f => facetClause mins maxs f r

/-- rows `(t, x…)` of a space-time interior batch -/
def holdsTX (mins maxs : List Rat) (tmin tmax : Rat) (cnt : Nat) (tx : List (List Rat)) : Option String :=
  if tx.length != cnt then some "interior-batch-count"
  else if !(tx.all fun r => r.length == 1 + mins.length) then some "interior-batch-point-shape"
  else if !(tx.all fun r => c08InIcc tmin tmax (r.headD 0)) then some "interior-batch-time-outside-interval"
  else if !(tx.all fun r => c08InBox mins maxs r.tail) then some "interior-batch-point-outside-box"
  else none

/-- rows (1 + dim) × 2·dim of a space-time border batch: time row in the interval on every facet,
    the remaining rows a border row -/
def holdsTDX (mins maxs : List Rat) (tmin tmax : Rat) (cnt : Nat) (tdx : List (List (List Rat))) :
    Option String :=
  let dim := mins.length
  if tdx.length != cnt then some "border-batch-count"
  else if !(tdx.all fun r => r.length == 1 + dim && r.all fun c => c.length == 2 * dim) then
    some "border-batch-shape"
  else if !(tdx.all fun r => (r.headD []).all (c08InIcc tmin tmax)) then
    some "border-batch-time-outside-interval"
  else holdsBorderRows "border-batch" mins maxs cnt (tdx.map List.tail)

end Jinns.Holds
