/-
Model of the schedule of residual-adaptive refinement (RAR), transcribed from the code as it is:

* `jinns/data/_DataGenerators.py: _check_and_set_rar_parameters`  -> `initMask`, `init`
* `jinns/solver/_rar.py: _proceed_to_rar`                         -> `proceed`
* `jinns/solver/_rar.py: rar_step_false`                          -> `stepFalse`
* `jinns/solver/_rar.py: rar_step_true` (probability part, counters) -> `maskStep`, `stepTrue`
* `jinns/solver/_rar.py: trigger_rar` (`lax.cond`)                -> `trigger`
* `jinns/solver/_solve.py: _one_iteration` (one `trigger_rar(i, …)` per iteration `i = 0, 1, …`,
  after the gradient step)                                        -> `runSchedule`, `trace`

Only the zero / non-zero pattern of the sampling probabilities is modelled (`true` = non-zero):
the values (`1/n_eff`, …) are not part of the properties.  The three generator kinds:
`ode` (DataGeneratorODE: times only), `statio` (CubicMeshPDEStatio: omega only), `nonstatio`
(CubicMeshPDENonStatio: both, each with its own `n_start` / `selected`; one shared pair of counters).
Imports nothing outside core Lean.
-/
namespace Jinns.Rar

inductive Kind where
  | ode | statio | nonstatio
deriving Repr, DecidableEq, Inhabited

/-- does the generator own a time store (`p_times`) / a space store (`p_omega`)? -/
def Kind.hasT : Kind → Bool
  | .ode => true | .statio => false | .nonstatio => true
def Kind.hasX : Kind → Bool
  | .ode => false | .statio => true | .nonstatio => true

/-- static configuration: `rar_parameters` and the allocation sizes of the generator. -/
structure Cfg where
  kind    : Kind
  start   : Nat   -- rar_parameters["start_iter"]
  every   : Nat   -- rar_parameters["update_every"]
  nt      : Nat   -- allocated time points
  ntStart : Nat   -- nt_start
  selT    : Nat   -- selected_sample_size_times
  n       : Nat   -- allocated space points
  nStart  : Nat   -- n_start
  selX    : Nat   -- selected_sample_size_omega
deriving Repr, Inhabited

/-- `rar_iter_from_last_sampling`, `rar_iter_nb`, non-zero patterns of `p_times`, `p_omega`
    (`[]` for a store the generator kind does not own). -/
structure St where
  fromLast : Nat
  steps    : Nat
  pT       : List Bool
  pX       : List Bool
deriving Repr, DecidableEq, Inhabited

/-! ### probability masks -/

/-- `p.at[:k].set(v)` with `v ≠ 0`. -/
def setPrefix (p : List Bool) (k : Nat) : List Bool :=
  p.mapIdx (fun j v => if j < k then true else v)

/-- `jax.lax.dynamic_update_slice(p, v * ones(len), (off,))` with `v ≠ 0`: the start index is
    clamped to `length - len`. -/
def updSlice (p : List Bool) (off len : Nat) : List Bool :=
  let o := min off (p.length - len)
  p.mapIdx (fun j v => if o ≤ j ∧ j < o + len then true else v)

/-- `jax.lax.fori_loop(0, m, update_slices, p)` with
    `update_slices i p = dynamic_update_slice(p, …, (n_start + i * selected,))`. -/
def foriMask (nStart sel : Nat) (p : List Bool) : Nat → List Bool
  | 0 => p
  | m + 1 => updSlice (foriMask nStart sel p m) (nStart + m * sel) sel

/-- the probability part of `rar_step_true` for one store: prefix `[0, n_start)` set, then one
    slice per completed step, the step being completed included (`newSteps = rar_iter_nb + 1`). -/
def maskStep (p : List Bool) (nStart sel newSteps : Nat) : List Bool :=
  foriMask nStart sel (setPrefix p nStart) newSteps

/-- `jnp.count_nonzero(p == 0)` -/
def zeros (p : List Bool) : Nat := p.count false
/-- number of points with non-zero sampling probability -/
def active (p : List Bool) : Nat := p.count true

/-- `_check_and_set_rar_parameters`: `zeros((n,)).at[:n_start].set(1 / n_start)`. -/
def initMask (n nStart : Nat) : List Bool := setPrefix (List.replicate n false) nStart

def init (c : Cfg) : St :=
  { fromLast := c.every - 1, steps := 0,
    pT := if c.kind.hasT then initMask c.nt c.ntStart else [],
    pX := if c.kind.hasX then initMask c.n c.nStart else [] }

/-! ### one call of `trigger_rar(i, …)` -/

/-- `_proceed_to_rar(data, i)`: burn-in over, period counter reached, and a full set of selected
    points still fits in every store the generator owns. -/
def proceed (c : Cfg) (s : St) (i : Nat) : Bool :=
  decide (c.start ≤ i) && decide (c.every - 1 = s.fromLast) &&
  (!c.kind.hasT || decide (c.selT ≤ zeros s.pT)) &&
  (!c.kind.hasX || decide (c.selX ≤ zeros s.pX))

/-- `rar_step_false`: the period counter advances only strictly after the burn-in. -/
def stepFalse (c : Cfg) (s : St) (i : Nat) : St :=
  { s with fromLast := s.fromLast + (if i ≤ c.start then 0 else 1) }

/-- counters and probabilities after `rar_step_true`. -/
def stepTrue (c : Cfg) (s : St) : St :=
  { fromLast := 0, steps := s.steps + 1,
    pT := if c.kind.hasT then maskStep s.pT c.ntStart c.selT (s.steps + 1) else s.pT,
    pX := if c.kind.hasX then maskStep s.pX c.nStart c.selX (s.steps + 1) else s.pX }

def trigger (c : Cfg) (s : St) (i : Nat) : St :=
  if proceed c s i then stepTrue c s else stepFalse c s i

/-! ### the iteration loop -/

/-- state after the iterations `0 … n-1` of `solve` (one trigger per iteration). -/
def runSchedule (c : Cfg) : Nat → St
  | 0 => init c
  | n + 1 => trigger c (runSchedule c n) n

/-- does iteration `i` perform a refinement step? -/
def stepsAt (c : Cfg) (i : Nat) : Bool := proceed c (runSchedule c i) i

/-- one observable record per iteration: did a step happen, and the state after the trigger. -/
structure Obs where
  stepped : Bool
  st      : St
deriving Repr, Inhabited

/-- the records of `k` consecutive iterations `i, i+1, …` from state `s`. -/
def traceFrom (c : Cfg) : St → Nat → Nat → List Obs
  | _, _, 0 => []
  | s, i, k + 1 =>
    let s' := trigger c s i
    { stepped := proceed c s i, st := s' } :: traceFrom c s' (i + 1) k

def trace (c : Cfg) (nIter : Nat) : List Obs := traceFrom c (init c) 0 nIter

/-! ### closed forms the theorems refer to -/

/-- another full set fits in one store after `J` steps -/
def fits1 (n nStart sel J : Nat) : Bool := decide (nStart + (J + 1) * sel ≤ n)

/-- another full set fits in every store the generator owns -/
def fits (c : Cfg) (J : Nat) : Bool :=
  (!c.kind.hasT || fits1 c.nt c.ntStart c.selT J) && (!c.kind.hasX || fits1 c.n c.nStart c.selX J)

/-- capacity in steps of one store: `⌊(n − n_start) / selected⌋` -/
def cap1 (n nStart sel : Nat) : Nat := (n - nStart) / sel

/-- capacity in steps of the generator: minimum over the stores it owns -/
def cap (c : Cfg) : Nat :=
  match c.kind with
  | .ode => cap1 c.nt c.ntStart c.selT
  | .statio => cap1 c.n c.nStart c.selX
  | .nonstatio => min (cap1 c.nt c.ntStart c.selT) (cap1 c.n c.nStart c.selX)

/-- number of schedule points `start + k·every` strictly before iteration `i` -/
def due (c : Cfg) (i : Nat) : Nat := if i ≤ c.start then 0 else (i - c.start - 1) / c.every + 1

/-- the mask with exactly the first `a` entries non-zero -/
def prefixMask (n a : Nat) : List Bool := (List.range n).map (fun j => decide (j < a))

end Jinns.Rar
