/-
`Holds.C10` — the property C10 as a decidable predicate over what a user observes: the values (or the
exception) returned by `u(t, params)`, `u(x, params)`, `u(t, x, params)` for wrappers built from a
declared configuration (architecture, weights, transform descriptions, slices, equation parameters).
`none` = the property holds on the observations, `some clause` = which clause fails.

Clauses (the sentences of the property):
* `value-differs-from-convention`   : the result is `output_transform(inputs, net(input_transform(inputs,
                                      params)), params)` restricted to the output slice;
* `no-trailing-component-axis`      : the result always has a trailing component axis;
* `empty-output-for-a-legal-selection` : a slice / index that designates existing components (negative
                                      indices and bounds count from the end) never yields an empty
                                      array: the component axis has length ≥ 1;
* `slice-solution-does-not-select-the-designated-components` : the stored `slice_solution` selects
                                      exactly the components the user designated (`None` = all, an
                                      integer = that component kept as an axis, a slice = itself);
* `valid-call-rejected`             : a scalar or length-one time, the bare network parameters (when no
                                      transform / hyper-network needs `eq_params`) are accepted;
* `scalar-and-length-one-time-differ`, `bare-and-full-parameters-differ`;
* `shared-output-not-a-slice-of-the-common-network`;
* `valid-configuration-rejected`     : every architecture / eq_type / slice combination the constructors
                                      document is built (e.g. hyper-network lists with an activation
                                      at either end);
* `separable-grid-formula`, `separable-grid-shape` : SPINN = tensor grid of Σ_r Π_k f_k(x_k), one slot
                                      per declared output;
* HYPERPINN: the convention's value is the inner network evaluated with the hyper-network's output
  *split in parameter-leaf order* (`splitInLeafOrder`), the hyper-network being fed the designated
  equation parameters in list order.
-/
import JinnsModel.Wrappers

namespace Jinns.Holds
open Jinns.Wrappers

/-- one observed return: the array (flattened row-major) with its shape, or the exception kind -/
inductive Obs where
  | value (out : Vec) (shape : List Nat)
  | error (kind : String)
deriving Repr, DecidableEq

def Obs.isError : Obs → Bool
  | .error _ => true
  | _ => false

/-- one call, made on every wrapper returned by the constructor (one, or one per shared slice) and,
    for shared outputs, on the un-sliced wrapper around the same network (`common`) -/
structure CallRec where
  args : List Val
  bare : Bool
  outs : List Obs
  common : Option Obs
deriving Repr

/-- does an observation match the convention's value `ref`?  (`ref = error` : the convention does not
    define the call, nothing is required) -/
def checkValue (ref : Except String Vec) (o : Obs) : Option String :=
  match ref, o with
  | .error _, _ => none
  | .ok _, .error _ => some "valid-call-rejected"
  | .ok v, .value out shape =>
    if shape.length == 0 then some "no-trailing-component-axis"
    else if shape != [out.length] then some "output-rank"
    else if out.length == 0 && v.length != 0 then some "empty-output-for-a-legal-selection"
    else if out != v then some "value-differs-from-convention"
    else none

/-- construction: a configuration the conventions admit (`expected = none`) must be built -/
def checkCreate (expected observed : Option String) : Option String :=
  match expected, observed with
  | none, some _ => some "valid-configuration-rejected"
  | _, _ => none

/-- `slice_solution`: applied to an output of `nOut` components, the stored slice selects the
    components designated by the user's argument -/
def checkSliceSolution (user : Option OutSlice) (nOut : Nat) (stored : Option Int × Option Int) :
    Option String :=
  let comps := List.range nOut
  let designated : Option (List Nat) :=
    match user with
    | none => some comps
    | some (.index i) => (pyIndex comps i).map (fun c => [c])
    | some (.range a b) => some (pySlice comps a b)
  match designated with
  | none => none
  | some want =>
    if pySlice comps stored.1 stored.2 == want then none
    else some "slice-solution-does-not-select-the-designated-components"

def firstSome : List (Option String) → Option String
  | [] => none
  | some s :: _ => some s
  | none :: r => firstSome r

/-- shared outputs: every returned wrapper is `outSlice_k ∘ common` (when the common network's output
    is a genuine vector, i.e. can be sliced at all) -/
def checkShared (slices : List (Option OutSlice)) (c : CallRec) : Option String :=
  match c.common with
  | some (.value cv [n]) =>
    if n < 2 || cv.length != n then none
    else firstSome ((slices.zip c.outs).map (fun (sl, o) =>
      match sl with
      | none => none
      | some s =>
        match applySlice (some s) (.vec cv) with
        | .ok r =>
          let e := ensureTrailingAxis r
          if o == .value e [e.length] then none
          else some "shared-output-not-a-slice-of-the-common-network"
        | .error _ => none))
  | _ => none

/-- two calls that denote the same inputs (scalar vs length-one time) with the same kind of parameter
    argument return the same thing; with different kinds (bare / full) too, when the bare parameters
    are allowed -/
def checkPair (eqT : EqType) (bareAllowed : Bool) (a b : CallRec) : Option String :=
  match callInputs eqT a.args, callInputs eqT b.args with
  | .ok ia, .ok ib =>
    if ia != ib then none
    else if a.bare == b.bare then
      if a.outs == b.outs then none else some "scalar-and-length-one-time-differ"
    else if bareAllowed then
      if a.outs == b.outs then none else some "bare-and-full-parameters-differ"
    else none
  | _, _ => none

def pairs : List α → List (α × α)
  | [] => []
  | a :: as => as.map (fun b => (a, b)) ++ pairs as

/-- The property on a PINN / HYPERPINN configuration.  `ref args bare slice` is the convention's
    value (below: `refPinn`, `refHyper`). -/
def holdsWrapper (eqT : EqType) (bareAllowed : Bool) (slices : List (Option OutSlice))
    (ref : List Val → Bool → Option OutSlice → Except String Vec) (calls : List CallRec) :
    Option String :=
  firstSome (
    calls.map (fun c =>
      if c.outs.length != slices.length then some "one-wrapper-per-shared-slice"
      else firstSome ((slices.zip c.outs).map (fun (sl, o) => checkValue (ref c.args c.bare sl) o)))
    ++ calls.map (fun c =>
      match c.common with
      | some o => checkValue (ref c.args c.bare none) o
      | none => none)
    ++ calls.map (checkShared slices)
    ++ (pairs calls).map (fun (a, b) => checkPair eqT bareAllowed a b))

/-- the convention for a PINN: `outT(inputs, net(inT(inputs, params)), params)[slice]` with a trailing
    axis, `inputs` = `t` lifted to a vector / `x` / `t ++ x`; the bare network parameters stand for
    the full object -/
def refPinn (eqT : EqType) (net : List Layer) (inT outT : TDesc) (eq : List (String × Val))
    (args : List Val) (bare : Bool) (sl : Option OutSlice) : Except String Vec :=
  pinnCall eqT (fun θ z => mlpEval θ z) inT.applyIn outT.applyOut sl args
    (if bare then .bare net else .full net eq)

/-- "weights … split in parameter-leaf order": leaf `k` takes the next `prod shape_k` entries -/
def splitInLeafOrder : List (List Nat) → Vec → List Leaf
  | [], _ => []
  | s :: ss, flat => ⟨s, flat.take s.prod⟩ :: splitInLeafOrder ss (flat.drop s.prod)

/-- the convention for a HYPERPINN: the inner network, with the weights produced by the hyper-network
    from the designated equation parameters (concatenated in list order), evaluated as a PINN.
    The hyper-network needs `eq_params`: with bare parameters the convention defines nothing. -/
def refHyper (eqT : EqType) (hyperparams : List String) (hyperNet : List Layer)
    (innerSpec : List LayerSpec) (inT outT : TDesc) (eq : List (String × Val))
    (args : List Val) (bare : Bool) (sl : Option OutSlice) : Except String Vec := do
  if bare then throw "needs-eq-params"
  let hin ← hyperInput eq hyperparams
  let flat := mlpEval hyperNet hin
  if flat.length != ((leafShapes innerSpec).map List.prod).sum then throw "hyper-output-size"
  let inner := build innerSpec (splitInLeafOrder (leafShapes innerSpec) flat)
  pinnCall eqT (fun _ z => mlpEval inner z) inT.applyIn outT.applyOut sl args (.full hyperNet eq)

/-! ### SPINN -/

/-- `Σ_{r<R} Π_{k<d} (f_k (x_k[idx_k]))[m·R + r]` -/
def gridFormula (R d : Nat) (fs : Nat → Rat → Vec) (xs : Nat → Nat → Rat) (idx : List Nat)
    (m : Nat) : Rat :=
  ((List.range R).map (fun r =>
    ((List.range d).map (fun k => (fs k (xs k (idx.getD k 0))).getD (m * R + r) 0)).prod)).sum

structure SpinnCall where
  t : Option (List Vec)
  x : List Vec
  bare : Bool
  obs : Obs
deriving Repr

def checkSpinnCall (eqT : EqType) (R M : Nat) (nets : List (List Layer)) (c : SpinnCall) :
    Option String :=
  match spinnPoints eqT c.t c.x with
  | .error _ => none
  | .ok pts =>
    match c.obs with
    | .error _ => some "valid-call-rejected"
    | .value out shape =>
      let d := nets.length
      let n := pts.length
      if shape != List.replicate d n ++ [M] then some "separable-grid-shape"
      else
        let fs : Nat → Rat → Vec := fun k z => mlpEval (nets.getD k []) [z]
        let xs : Nat → Nat → Rat := fun k i => (pts.getD i []).getD k 0
        let want := (allIdx d n).flatMap (fun idx =>
          (List.range M).map (fun m => gridFormula R d fs xs idx m))
        if out == want then none else some "separable-grid-formula"

def holdsSpinn (eqT : EqType) (R M : Nat) (nets : List (List Layer)) (calls : List SpinnCall) :
    Option String :=
  firstSome (
    calls.map (checkSpinnCall eqT R M nets)
    ++ (pairs calls).map (fun (a, b) =>
      if a.t == b.t && a.x == b.x && a.obs != b.obs then some "bare-and-full-parameters-differ"
      else none))

/-! ### the model's trace (what the driver compares the observations with; `JinnsProofs/C10.lean`
proves that it satisfies the predicates above for every configuration and every list of calls) -/

def resObs : Except String Vec → Obs
  | .ok v => .value v [v.length]
  | .error e => .error e

/-- the record the model produces for one call -/
def modelRec (slices : List (Option OutSlice)) (shared : Bool)
    (model : List Val → Bool → Option OutSlice → Except String Vec) (args : List Val) (bare : Bool) :
    CallRec :=
  { args := args, bare := bare,
    outs := slices.map (fun sl => resObs (model args bare sl)),
    common := if shared then some (resObs (model args bare none)) else none }

/-- the model of a HYPERPINN call (the code path: `jnp.split` at `cumsum[:-1]`, reshape, combine) -/
def modelHyper (eqT : EqType) (hyperparams : List String) (hyperNet : List Layer)
    (innerSpec : List LayerSpec) (inT outT : TDesc) (eq : List (String × Val))
    (args : List Val) (bare : Bool) (sl : Option OutSlice) : Except String Vec :=
  hyperCall eqT hyperparams innerSpec inT.applyIn outT.applyOut sl args
    (if bare then .bare hyperNet else .full hyperNet eq)

/-- the record the SPINN model produces for one call -/
def modelSpinnRec (eqT : EqType) (R M : Nat) (nets : List (List Layer))
    (c : Option (List Vec) × List Vec × Bool) : SpinnCall :=
  { t := c.1, x := c.2.1, bare := c.2.2,
    obs := match spinnCall eqT R M c.1 c.2.1 (if c.2.2 then .bare nets else .full nets []) with
      | .ok (v, shape) => .value v.flatten shape
      | .error e => .error e }

end Jinns.Holds
