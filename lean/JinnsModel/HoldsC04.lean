/-
`Holds.C04` — the property C04 as a decidable predicate over what is observed of the boundary term:
the value `terms['boundary_loss']`, the border batch (array `[row][coordinate][facet]`), what was
configured on each facet (in the order xmin, xmax[, ymin, ymax]; `none` = no condition), and exact
value tables of the user's functions at the border points (network output, first space derivatives,
boundary function), together with three metamorphic re-evaluations *of the implementation*:
`f` returning the other shape (0-d scalar ↔ length-one array), the batch with its rows duplicated
(twice as many time points, same time set), the same conditions given the other way (global ↔
per-facet dictionary).  The statement is written from the definition of the outward unit normal of
an axis-aligned box, not from the code's tables.  `none` = holds, `some clause` otherwise.
-/
namespace Jinns.Holds

def c04Abs (x : Rat) : Rat := if x < 0 then -x else x
def c04Close (tol a b : Rat) : Bool := decide (c04Abs (a - b) ≤ tol)

/-- outward unit normal of facet `k` of a `d`-dimensional box, facets ordered
    xmin, xmax, ymin, ymax, …: `−e_{k/2}` for a "min" facet, `+e_{k/2}` for a "max" facet -/
def c04Outward (d k : Nat) : List Rat :=
  (List.range d).map fun j => if j = k / 2 then (if k % 2 = 0 then -1 else 1) else 0

structure Facet04 where
  neumann : Bool
  lo      : Nat                                   -- selected output components `[lo, hi)`
  hi      : Nat
  ftab    : List (List Rat × List Rat)            -- f at each border point of this facet
deriving Repr

structure Obs04 where
  hasTime    : Bool
  /-- separable network on a non-stationary batch: the condition is enforced at
      (times of the batch) × (border points of the facet), not at the rows only -/
  timesCross : Bool
  w          : Rat
  border     : List (List (List Rat))
  facets     : List (Option Facet04)
  utab       : List (List Rat × List Rat)          -- u(p), all components
  jtab       : List (List Rat × List (List Rat))   -- ∂_j u_c (p), `[c][j]`, space coordinates only
  value      : Rat
  otherShape : Option Rat
  timeDup    : Option Rat
  otherSpec  : Option Rat
  tol        : Rat
deriving Repr

def c04Lookup {β : Type} (tab : List (List Rat × β)) (p : List Rat) (dflt : β) : β :=
  (tab.lookup p).getD dflt

/-- squared mismatch at one border point, summed over the selected components; a length-one value
    of `f` applies to every selected component -/
def c04Point (o : Obs04) (fc : Facet04) (d k : Nat) (p : List Rat) : Rat :=
  let fv := c04Lookup fc.ftab p []
  let fAt (c : Nat) : Rat := if fv.length = 1 then fv.headD 0 else fv.getD c 0
  let comps := (List.range (fc.hi - fc.lo)).map fun c =>
    let du : Rat :=
      if fc.neumann then
        let g := (c04Lookup o.jtab p []).getD (fc.lo + c) []
        (List.zipWith (fun nj gj => nj * gj) (c04Outward d k) g).sum
      else (c04Lookup o.utab p []).getD (fc.lo + c) 0
    (du - fAt c) * (du - fAt c)
  comps.sum

/-- the points of facet `k`: column `k` of every coordinate, row by row -/
def c04FacetPts (border : List (List (List Rat))) (k : Nat) : List (List Rat) :=
  border.map fun row => row.map fun c => c.getD k 0

def c04Facet (o : Obs04) (d k : Nat) (fc : Facet04) : Rat :=
  let rows := c04FacetPts o.border k
  let pts := if o.timesCross then rows.flatMap fun r => rows.map fun r' => r.headD 0 :: r'.drop 1 else rows
  o.w * ((pts.map (c04Point o fc d k)).sum / (pts.length : Rat))

def c04Expected (o : Obs04) : Rat :=
  let d := (o.border.headD []).length - (if o.hasTime then 1 else 0)
  ((List.range o.facets.length).map fun k =>
    match o.facets.getD k none with
    | none => 0
    | some fc => c04Facet o d k fc).sum

def holdsC04 (o : Obs04) : Option String :=
  let same (tol : Rat) : Option Rat → Bool
    | none => true
    | some v => c04Close tol v o.value
  if !(c04Close o.tol o.value (c04Expected o)) then
    some "boundary-term-is-not-the-sum-over-facets-of-the-weighted-mean-squared-mismatch"
  else if !(same (2 * o.tol) o.otherShape) then some "depends-on-the-shape-f-returns"
  else if !(same (2 * o.tol) o.timeDup) then some "depends-on-the-number-of-time-points"
  else if !(same (2 * o.tol) o.otherSpec) then some "per-facet-dictionary-differs-from-global-specification"
  else none

end Jinns.Holds
