/-
Model of the training loop `jinns.solve` (`jinns/solver/_solve.py`: `solve`, `_one_iteration`,
`_gradient_step`, `_store_loss_and_params`, `_get_break_fun`; containers of
`jinns/utils/_containers.py`; NaN test `jinns/utils/_utils.py::_check_nan_in_pytree`).

Parameters of the model (universally quantified in the theorems):
* `update θ opt batch`  : `value_and_grad(loss)(θ, batch)` → `optimizer.update` → `optax.apply_updates`,
                          returning the new parameters, the new optimizer state and the loss value /
                          loss terms *at θ* (`_gradient_step` without its NaN bookkeeping);
* `nextBatch gens`      : `get_batch(data, param_data, obs_data)` (the three generators advance
                          together; the RAR update of the data generator, when configured, is part of it);
* `isNaN θ`             : `_check_nan_in_pytree`;
* `track θ`             : the leaves selected by `tracked_params` (the `None` holes are dropped);
* `validate vs θ`       : `validation.__call__(params)`; `callEvery = validation.call_every`;
* `v0 t0 p0 c0`         : the initial content (`jnp.zeros`) of one slot of each history array.

State = carry of the `lax.while_loop` (`loss`, `curr_seq` and `tracked_params` never change and
are left out).  `calls` is a ghost field (not in the code): the log of validation invocations
`(iteration, parameters passed)`, so that "invoked exactly at …" can be stated.

The batch drawn before the loop (`batch_ini`) only gives the structure of the loss terms: the
generators it returns are discarded, so it does not appear in the state.
Imports nothing outside core Lean (and the validation interface).
-/
import JinnsModel.Validation
namespace Jinns.Solve
open Jinns.Validation

/-- what `_gradient_step` computes before the last-non-NaN bookkeeping -/
structure Step (Θ O V T : Type) where
  θ     : Θ
  opt   : O
  val   : V
  terms : T

structure Prog (Θ O G B V T P VS C : Type) where
  update    : Θ → O → B → Step Θ O V T
  nextBatch : G → G × B
  isNaN     : Θ → Bool
  track     : Θ → P
  validate  : VS → Θ → VOut VS C
  callEvery : Nat
  v0 : V
  t0 : T
  p0 : P
  c0 : C

/-- the carry of the while loop -/
structure St (Θ O G V T P VS C : Type) where
  i        : Nat
  θ        : Θ              -- optimization.params
  lastGood : Θ              -- optimization.last_non_nan_params
  opt      : O              -- optimization.opt_state
  gens     : G              -- train_data
  vs       : Option VS      -- validation (None when no module is given)
  lossH    : List V         -- loss_container.train_loss_values
  termH    : List T         -- loss_container.stored_loss_terms (one record of all terms per slot)
  trackH   : List P         -- stored_objects.stored_params
  critH    : List C         -- validation_crit_values
  best     : Θ              -- optimization_extra.best_val_params
  stop     : Bool           -- optimization_extra.early_stopping
  calls    : List (Nat × Θ) -- ghost: validation invocations so far

variable {Θ O G B V T P VS C : Type}

/-- the validation part of `_one_iteration`: new module, stop flag, criterion history, best
    parameters, ghost log.  `θ'` are the parameters *after* the update of this iteration. -/
structure VPart (Θ VS C : Type) where
  vs    : Option VS
  stop  : Bool
  critH : List C
  best  : Θ
  calls : List (Nat × Θ)

def valPart (pr : Prog Θ O G B V T P VS C) (s : St Θ O G V T P VS C) (θ' : Θ) : VPart Θ VS C :=
  match s.vs with
  | none =>
    -- `early_stopping = False; best_val_params = params`
    { vs := none, stop := false, critH := s.critH, best := θ', calls := s.calls }
  | some v =>
    if s.i % pr.callEvery == 0 then
      -- `validation(params)` on the freshly updated parameters
      let o := pr.validate v θ'
      { vs := some o.vs, stop := o.stop, critH := s.critH.set s.i o.crit,
        best := if o.improved then θ' else s.best, calls := s.calls ++ [(s.i, θ')] }
    else
      -- `(validation, False, validation_crit_values[i - 1], False)`.  (`i - 1` is only evaluated
      -- for `i ≥ 1`: iteration 0 always takes the other branch.)
      { vs := some v, stop := false, critH := s.critH.set s.i (s.critH.getD (s.i - 1) pr.c0),
        best := s.best, calls := s.calls }

/-- `_one_iteration` -/
def oneIteration (pr : Prog Θ O G B V T P VS C) (s : St Θ O G V T P VS C) : St Θ O G V T P VS C :=
  let gb := pr.nextBatch s.gens                 -- get_batch
  let r := pr.update s.θ s.opt gb.2             -- value_and_grad, optimizer.update, apply_updates
  let vp := valPart pr s r.θ                    -- validation cond, criterion, best parameters
  { i := s.i + 1,
    θ := r.θ,
    lastGood := if pr.isNaN r.θ then s.lastGood else r.θ,   -- cond(_check_nan_in_pytree(params), …)
    opt := r.opt,
    gens := gb.1,
    vs := vp.vs,
    lossH := s.lossH.set s.i r.val,             -- _store_loss_and_params: `.at[i].set`
    termH := s.termH.set s.i r.terms,
    trackH := s.trackH.set s.i (pr.track r.θ),  -- parameters *after* the update
    critH := vp.critH,
    best := vp.best,
    stop := vp.stop,
    calls := vp.calls }

/-- `break_fun`: continue while `i < n_iter`, no NaN in the current parameters, no early stop -/
def cont (pr : Prog Θ O G B V T P VS C) (n : Nat) (s : St Θ O G V T P VS C) : Bool :=
  decide (s.i < n) && !pr.isNaN s.θ && !s.stop

/-- `lax.while_loop(break_fun, _one_iteration, carry)`; `fuel` makes the recursion structural
    (`solve` gives `n` units, which is never exhausted before `break_fun` is false:
    theorem `solve_exits`). -/
def whileLoop (pr : Prog Θ O G B V T P VS C) (n : Nat) :
    Nat → St Θ O G V T P VS C → St Θ O G V T P VS C
  | 0, s => s
  | fuel + 1, s => if cont pr n s then whileLoop pr n fuel (oneIteration pr s) else s

/-- the carry built by `solve` before the loop -/
def init (pr : Prog Θ O G B V T P VS C) (n : Nat) (θ0 : Θ) (opt0 : O) (g0 : G) (vs0 : Option VS) :
    St Θ O G V T P VS C :=
  { i := 0, θ := θ0, lastGood := θ0, opt := opt0, gens := g0, vs := vs0,
    lossH := List.replicate n pr.v0, termH := List.replicate n pr.t0,
    trackH := List.replicate n pr.p0, critH := List.replicate n pr.c0,
    best := θ0, stop := false, calls := [] }

def solve (pr : Prog Θ O G B V T P VS C) (n : Nat) (θ0 : Θ) (opt0 : O) (g0 : G) (vs0 : Option VS) :
    St Θ O G V T P VS C :=
  whileLoop pr n n (init pr n θ0 opt0 g0 vs0)

/-- `n_iter = 0` is rejected by the code (tracing `.at[i].set` on a history of length 0 raises
    `IndexError`), whatever the other arguments. -/
def solveChecked (pr : Prog Θ O G B V T P VS C) (n : Nat) (θ0 : Θ) (opt0 : O) (g0 : G)
    (vs0 : Option VS) : Option (St Θ O G V T P VS C) :=
  if n = 0 then none else some (solve pr n θ0 opt0 g0 vs0)

/-- `k` unconditional iterations (used to state what the loop computes) -/
def iter (pr : Prog Θ O G B V T P VS C) : Nat → St Θ O G V T P VS C → St Θ O G V T P VS C
  | 0, s => s
  | k + 1, s => oneIteration pr (iter pr k s)

/-! ### the reference: the textbook mini-batch loop of the property statement -/

structure Ref (Θ O G V T P : Type) where
  θ      : Θ
  opt    : O
  gens   : G
  lossH  : List V
  termH  : List T
  trackH : List P

def refInit (θ0 : Θ) (opt0 : O) (g0 : G) : Ref Θ O G V T P :=
  { θ := θ0, opt := opt0, gens := g0, lossH := [], termH := [], trackH := [] }

/-- one iteration of the textbook loop: draw the next batch; record the total loss and its terms
    at the current parameters; apply the optimizer update; record the tracked parameters. -/
def refStep (pr : Prog Θ O G B V T P VS C) (r : Ref Θ O G V T P) : Ref Θ O G V T P :=
  let gb := pr.nextBatch r.gens
  let s := pr.update r.θ r.opt gb.2
  { θ := s.θ, opt := s.opt, gens := gb.1,
    lossH := r.lossH ++ [s.val], termH := r.termH ++ [s.terms],
    trackH := r.trackH ++ [pr.track s.θ] }

def refLoop (pr : Prog Θ O G B V T P VS C) : Nat → Ref Θ O G V T P → Ref Θ O G V T P
  | 0, r => r
  | n + 1, r => refStep pr (refLoop pr n r)

end Jinns.Solve
