/-
`Holds.C11` — the property C11 as a decidable predicate over what a user observes:

* `cols`  : the per-axis coordinate lists handed to the separable network (time first, then the spatial
            coordinates; a stationary problem has the single dummy time `[0]`),
* `fwd`   : what the forward-mode (grid) version returned, as a flat row-major grid with one list of
            components per entry,
* `rev`   : what the reverse-mode (pointwise) version returned for the same function, as records
            (point, value).

It holds when the grid has the shape of the tensor product of the axes and, for EVERY multi-index
`(i_0, …, i_{D-1})`, the grid entry equals the reverse-mode value recorded at the point
`(cols_0[i_0], …, cols_{D-1}[i_{D-1}])`.  It does not mention the model.
Scalar terms (initial condition, normalisation, facet means) are compared by `holdsC11Scalar`.
Returns `none` when the observation satisfies the property, `some clause` otherwise.
-/
import JinnsModel.Grid
namespace Jinns.Holds
open Jinns.Grid

structure Obs11 where
  cols : List (List Rat)
  fwd : List (List Rat)
  rev : List (List Rat × List Rat)

/-- the reverse-mode value recorded at a point -/
def lookupRev (rev : List (List Rat × List Rat)) (pt : List Rat) : Option (List Rat) :=
  (rev.find? (fun r => r.1 == pt)).map (fun r => r.2)

/-- all multi-indices of a tensor of the given shape, row-major -/
def allIdx (shape : List Nat) : List (List Nat) := cartProd (shape.map List.range)

def checkIdx (o : Obs11) (idx : List Nat) : Option String :=
  let shape := o.cols.map List.length
  match lookupRev o.rev (pick 0 o.cols idx) with
  | none => some "reverse-mode-value-missing-at-grid-point"
  | some v =>
    if o.fwd[flatIndex shape idx]? != some v then some "grid-entry-differs-from-reverse-mode-value-at-its-point"
    else none

def holdsC11 (o : Obs11) : Option String :=
  let shape := o.cols.map List.length
  if o.fwd.length != size shape then some "grid-shape-is-not-the-tensor-product-of-the-axes"
  else (allIdx shape).findSome? (checkIdx o)

/-- scalar terms: the forward-mode term on the batch and the reverse-mode term on the grid points -/
def holdsC11Scalar (fwd rev : Rat) : Option String :=
  if fwd != rev then some "term-differs-from-reverse-mode-term-on-the-grid-points" else none

end Jinns.Holds
