/-
C11 (and, for the advection operator, C01) — BOTH branches (`isinstance(u, PINN)` = reverse mode,
`isinstance(u, SPINN)` = forward mode on the whole grid) of the built-in dynamic losses of
`jinns/loss/_DynamicLoss.py`, transcribed term by term in the shape of the code over `FieldOps F`.

  `BurgerEquation`, `FisherKPP`, `OU_FPENonStatioLoss2D` (through `FPENonStatioLoss2D.equation`),
  `MassConservation2DStatio`, `NavierStokes2DStatio`.

Python scalars / 0-d arrays multiplying an array are `ops.smul`; a scalar used as a summand is the
constant field `smul c one`; `a - b` is `add a (neg b)`; `x` as a field is `coord i`.
`jax.jvp(lambda t: u(t, x, params), (t,), (jnp.ones_like(t),))[1]` is `jvpT 1`.

(C02 owns `Equations.lean` with its own transcription of the PINN branches; this file deliberately
does not depend on it.)  Imports nothing outside core Lean.
-/
import JinnsModel.Operators
import JinnsModel.Poly
namespace Jinns.Residuals
open Jinns.Calc Jinns.Operators

variable {F : Type}

/-- what the equations need besides `FieldOps`: the constant field `1` and the coordinate fields `x_i` -/
structure Ext (F : Type) where
  one : F
  coord : Nat → F

def polyExt : Ext Poly where
  one := Poly.const 1
  coord := fun i => Poly.var (i + 1)

/-- forward-mode derivative in the time argument with tangent `v` (`jnp.ones_like(t)` = 1) -/
def jvpT (ops : FieldOps F) (v : Rat) (f : F) : F := ops.smul v (ops.dT f)

/-- `jnp.ones_like(x)` for `x` of shape `(B, 1)` -/
def ones (_ : Nat) : Rat := 1

/-! ## Burgers (one space dimension) -/

/-- PINN branch: `du_dt = grad(u_, 0)`, `du_dx = grad(u_, 1)`, `d2u_dx2 = grad(lambda t, x: du_dx(t, x)[0], 1)`;
    `du_dt(t, x) + self.Tmax * (u(t, x, params) * du_dx(t, x) - params.eq_params["nu"] * d2u_dx2(t, x))` -/
def burgersRev (ops : FieldOps F) (Tmax nu : Rat) (u : F) : F :=
  let du_dt := nth ops (gradArg ops 1 .withTime 0 u) 0
  let du_dx := nth ops (gradArg ops 1 .withTime 1 u) 0
  let d2u_dx2 := nth ops (gradArg ops 1 .withTime 1 du_dx) 0
  ops.add du_dt (ops.smul Tmax (ops.sub (ops.mul u du_dx) (ops.smul nu d2u_dx2)))

/-- SPINN branch: `u_tx, du_dt = jvp(lambda t: u(t, x, params), (t,), (ones_like(t),))`,
    `du_dx_fun = lambda x: jvp(lambda x: u(t, x, params), (x,), (ones_like(x),))[1]`,
    `du_dx, d2u_dx2 = jvp(du_dx_fun, (x,), (ones_like(x),))`;
    `du_dt + self.Tmax * (u_tx * du_dx - params.eq_params["nu"] * d2u_dx2)` -/
def burgersFwd (ops : FieldOps F) (Tmax nu : Rat) (u : F) : F :=
  let du_dt := jvpT ops 1 u
  let du_dx := jvpX ops 1 ones u
  let d2u_dx2 := jvpX ops 1 ones du_dx
  ops.add du_dt (ops.smul Tmax (ops.sub (ops.mul u du_dx) (ops.smul nu d2u_dx2)))

/-! ## Fisher-KPP (any space dimension `d`) -/

/-- PINN branch: `du_dt = grad(u_, 0)(t, x)`, `lap = _laplacian_rev(t, x, u, params)[..., None]`;
    `du_dt + self.Tmax * (-D * lap - u(t, x, params) * (r - g * u(t, x, params)))` -/
def fisherRev (ops : FieldOps F) (ext : Ext F) (d : Nat) (Tmax D r g : Rat) (u : F) : F :=
  let du_dt := nth ops (gradArg ops d .withTime 0 u) 0
  let lap := lapRev ops d .withTime (fun _ => u)
  ops.add du_dt (ops.smul Tmax
    (ops.sub (ops.smul (-D) lap) (ops.mul u (ops.sub (ops.smul r ext.one) (ops.smul g u)))))

/-- SPINN branch: `u_tx, du_dt = jvp(lambda t: u(t, x, params), (t,), (ones_like(t),))`,
    `lap = _laplacian_fwd(t, x, u, params)[..., None]`;
    `du_dt + self.Tmax * (-D * lap - u_tx * (r[..., None] - g * u_tx))` -/
def fisherFwd (ops : FieldOps F) (ext : Ext F) (d : Nat) (Tmax D r g : Rat) (u : F) : F :=
  let du_dt := jvpT ops 1 u
  let lap := lapFwd ops d (fun _ => u)
  ops.add du_dt (ops.smul Tmax
    (ops.sub (ops.smul (-D) lap) (ops.mul u (ops.sub (ops.smul r ext.one) (ops.smul g u)))))

/-! ## Ornstein-Uhlenbeck Fokker-Planck in two space dimensions -/

/-- `OU_FPENonStatioLoss2D.drift(t, x, eq_params)[i]` = `(alpha * (mu - x))[i]` -/
def ouDrift (ops : FieldOps F) (ext : Ext F) (alpha mu : Nat → Rat) (i : Nat) : F :=
  ops.smul (alpha i) (ops.sub (ops.smul (mu i) ext.one) (ext.coord i))

/-- `sigma_mat = jnp.diag(sigma)` -/
def sigmaMat (sigma : Nat → Rat) (i k : Nat) : Rat := if i = k then sigma i else 0

/-- `diffusion(t, x, eq_params)[i, j]` = `0.5 * (sigma_mat @ sigma_mat.T)[i, j]` (2 × 2) -/
def ouDiffusion (sigma : Nat → Rat) (i j : Nat) : Rat :=
  (1 / 2 : Rat) * (sigmaMat sigma i 0 * sigmaMat sigma j 0 + sigmaMat sigma i 1 * sigmaMat sigma j 1)

/-- PINN branch of `FPENonStatioLoss2D.equation`:
    `order_1 = grad(drift[0]*u_, 1)[0:1] + grad(drift[1]*u_, 1)[1:2]`,
    `order_2 = grad(grad(u_*D[0,0], 1)[0], 1)[0:1] + grad(grad(u_*D[1,0], 1)[1], 1)[0:1]
             + grad(grad(u_*D[0,1], 1)[0], 1)[1:2] + grad(grad(u_*D[1,1], 1)[1], 1)[1:2]`,
    `-du_dt + self.Tmax * (-order_1 + order_2)` -/
def fpeRev (ops : FieldOps F) (drift : Nat → F) (D : Nat → Nat → Rat) (Tmax : Rat) (u : F) : F :=
  let gx := fun f => gradArg ops 2 .withTime 1 f
  let order_1 := ops.add (nth ops (gx (ops.mul (drift 0) u)) 0) (nth ops (gx (ops.mul (drift 1) u)) 1)
  let order_2 :=
    ops.add (ops.add (ops.add
      (nth ops (gx (nth ops (gx (ops.smul (D 0 0) u)) 0)) 0)
      (nth ops (gx (nth ops (gx (ops.smul (D 1 0) u)) 1)) 0))
      (nth ops (gx (nth ops (gx (ops.smul (D 0 1) u)) 0)) 1))
      (nth ops (gx (nth ops (gx (ops.smul (D 1 1) u)) 1)) 1)
  let du_dt := nth ops (gradArg ops 2 .withTime 0 u) 0
  ops.add (ops.neg du_dt) (ops.smul Tmax (ops.add (ops.neg order_1) order_2))

/-- SPINN branch of `FPENonStatioLoss2D.equation`:
    `dau_dx1 = jvp(drift(t, grid(x))[None, ..., 0:1] * u, tangent_vec_0)`, `dau_dx2 = jvp(drift[...,1:2] * u, tangent_vec_1)`,
    `dsu_dx1_fun(x, i, j) = jvp(diffusion(.., i, j) * u, tangent_vec_0)[1]`, `dsu_dx2_fun` with `tangent_vec_1`,
    `d2su_dx12 = jvp(dsu_dx1_fun(., 0, 0), tangent_vec_0)`, `d2su_dx1dx2 = jvp(dsu_dx1_fun(., 0, 1), tangent_vec_1)`,
    `d2su_dx22 = jvp(dsu_dx2_fun(., 1, 1), tangent_vec_1)`, `d2su_dx2dx1 = jvp(dsu_dx2_fun(., 1, 0), tangent_vec_0)`;
    `-du_dt + self.Tmax * (-(dau_dx1 + dau_dx2) + (d2su_dx12 + d2su_dx22 + d2su_dx1dx2 + d2su_dx2dx1))` -/
def fpeFwd (ops : FieldOps F) (drift : Nat → F) (D : Nat → Nat → Rat) (Tmax : Rat) (u : F) : F :=
  let du_dt := jvpT ops 1 u
  let dau_dx1 := jvpX ops 2 tangent0 (ops.mul (drift 0) u)
  let dau_dx2 := jvpX ops 2 tangent1 (ops.mul (drift 1) u)
  let dsu_dx1_fun := fun i j => jvpX ops 2 tangent0 (ops.smul (D i j) u)
  let dsu_dx2_fun := fun i j => jvpX ops 2 tangent1 (ops.smul (D i j) u)
  let d2su_dx12 := jvpX ops 2 tangent0 (dsu_dx1_fun 0 0)
  let d2su_dx1dx2 := jvpX ops 2 tangent1 (dsu_dx1_fun 0 1)
  let d2su_dx22 := jvpX ops 2 tangent1 (dsu_dx2_fun 1 1)
  let d2su_dx2dx1 := jvpX ops 2 tangent0 (dsu_dx2_fun 1 0)
  ops.add (ops.neg du_dt) (ops.smul Tmax
    (ops.add (ops.neg (ops.add dau_dx1 dau_dx2))
      (ops.add (ops.add (ops.add d2su_dx12 d2su_dx22) d2su_dx1dx2) d2su_dx2dx1)))

def ouRev (ops : FieldOps F) (ext : Ext F) (alpha mu sigma : Nat → Rat) (Tmax : Rat) (u : F) : F :=
  fpeRev ops (ouDrift ops ext alpha mu) (ouDiffusion sigma) Tmax u

def ouFwd (ops : FieldOps F) (ext : Ext F) (alpha mu sigma : Nat → Rat) (Tmax : Rat) (u : F) : F :=
  fpeFwd ops (ouDrift ops ext alpha mu) (ouDiffusion sigma) Tmax u

/-! ## mass conservation -/

/-- PINN branch: `_div_rev(None, x, u, params)[..., None]` -/
def massRev (ops : FieldOps F) (d : Nat) (u : Nat → F) : F := divRev ops d .noTime u
/-- SPINN branch: `_div_fwd(None, x, u, params)[..., None]` -/
def massFwd (ops : FieldOps F) (d : Nat) (u : Nat → F) : F := divFwd ops d u

/-! ## stationary Navier-Stokes in two dimensions -/

/-- PINN branch: `u_dot_nabla_x_u = _u_dot_nabla_times_u_rev(None, x, u, u_params)`,
    `jac_p = jax.jacrev(p, 0)(x)`, `vec_laplacian_u = _vectorial_laplacian(None, x, u, u_params, u_vec_ndim=2)`;
    `result_k = u_dot_nabla_x_u[k] + 1 / rho * jac_p[0, k] - nu * vec_laplacian_u[k]`, `k = 0, 1` -/
def nsRev (ops : FieldOps F) (nu rho : Rat) (u : Nat → F) (p : F) : List F :=
  let adv := advRev ops .noTime u
  let jac_p := gradArg ops 2 .noTime 0 p
  let vl := vecLapRev ops 2 .noTime 2 u
  [ ops.sub (ops.add (nth ops adv 0) (ops.smul (1 / rho) (nth ops jac_p 0))) (ops.smul nu (nth ops vl 0)),
    ops.sub (ops.add (nth ops adv 1) (ops.smul (1 / rho) (nth ops jac_p 1))) (ops.smul nu (nth ops vl 1)) ]

/-- SPINN branch: `_u_dot_nabla_times_u_fwd`, `dp_dx = jvp(p, (x,), (tangent_vec_0,))[1]`,
    `dp_dy = jvp(p, (x,), (tangent_vec_1,))[1]`, `_vectorial_laplacian` (moved to the last axis);
    `result_x = adv[..., 0] + 1 / rho * dp_dx.squeeze() - nu * vec_laplacian_u[..., 0]`, same for `y` -/
def nsFwd (ops : FieldOps F) (nu rho : Rat) (u : Nat → F) (p : F) : List F :=
  let adv := advFwd ops u
  let dp_dx := jvpX ops 2 tangent0 p
  let dp_dy := jvpX ops 2 tangent1 p
  let vl := vecLapFwd ops 2 2 u
  [ ops.sub (ops.add (nth ops adv 0) (ops.smul (1 / rho) dp_dx)) (ops.smul nu (nth ops vl 0)),
    ops.sub (ops.add (nth ops adv 1) (ops.smul (1 / rho) dp_dy)) (ops.smul nu (nth ops vl 1)) ]

end Jinns.Residuals
