/-
Model of the validation interface used by `jinns.solve` and of the built-in
`ValidationLoss` (`jinns/validation/_validation.py`).

* `VOut` : what `AbstractValidationModule.__call__(params)` returns:
  `(new module, early_stop, validation_criterion, update_best_params)`.
* `ValidationLoss.__call__` : draws one batch from *its own* generators
  (`validation_data.get_batch()`, + parameter / observation generators appended to the batch),
  evaluates `self.loss(params, val_batch)`, then

      (counter, best, improved) = cond(v < self.best_val_loss,
                                       (0, v, True), (self.counter + 1, self.best_val_loss, False))
      early_stop = (self.counter == self.patience) and self.early_stopping     -- OLD counter

  `best_val_loss` starts at `+inf` : modelled as `Option Rat` with `none = +∞`.
  The generators (`nextBatch`) and the loss are parameters.  A NaN loss value (`none`) makes the
  comparison `v < best` false: the increment branch is taken (counter + 1, best unchanged, no
  improvement) and the criterion recorded is NaN (`vlNextV`, `vlImprovedV`).
Imports nothing outside core Lean.
-/
namespace Jinns.Validation

/-- result of one invocation of a validation module -/
structure VOut (VS C : Type) where
  vs       : VS
  stop     : Bool
  crit     : C
  improved : Bool

/-- `validation_loss_value < self.best_val_loss` with `best = +∞` encoded as `none`. -/
def ltBest (v : Rat) : Option Rat → Bool
  | none => true
  | some b => decide (v < b)

/-- The scalar part of `ValidationLoss.__call__`: from `(counter, best)` and the loss value `v`
    to `(counter', best')`, the stop request and the improvement flag. -/
structure VLCore where
  counter : Nat
  best    : Option Rat
deriving Repr, DecidableEq

def vlInit : VLCore := { counter := 0, best := none }

def vlImproved (s : VLCore) (v : Rat) : Bool := ltBest v s.best

/-- stop request: the counter *before* this invocation equals `patience`, and early stopping is on -/
def vlStop (patience : Nat) (early : Bool) (s : VLCore) : Bool :=
  (s.counter == patience) && early

def vlNext (s : VLCore) (v : Rat) : VLCore :=
  if vlImproved s v then { counter := 0, best := some v }
  else { counter := s.counter + 1, best := s.best }

/-- a whole sequence of invocations (loss values `vs`), starting from `s`:
    the `(improved, stop)` flags of each invocation -/
def vlRun (patience : Nat) (early : Bool) : VLCore → List Rat → List (Bool × Bool)
  | _, [] => []
  | s, v :: vs => (vlImproved s v, vlStop patience early s) :: vlRun patience early (vlNext s v) vs

/-- the state after a sequence of invocations -/
def vlAfter : VLCore → List Rat → VLCore
  | s, [] => s
  | s, v :: vs => vlAfter (vlNext s v) vs

/-- the same with a possibly-NaN loss value (`none`): `NaN < best` is false -/
def vlImprovedV (s : VLCore) : Option Rat → Bool
  | none => false
  | some v => vlImproved s v

def vlNextV (s : VLCore) : Option Rat → VLCore
  | none => { counter := s.counter + 1, best := s.best }
  | some v => vlNext s v

def vlAfterV : VLCore → List (Option Rat) → VLCore
  | s, [] => s
  | s, v :: vs => vlAfterV (vlNextV s v) vs

/-- `ValidationLoss` as a module: its own generator state and the scalar core. -/
structure VL (G : Type) where
  gens : G
  core : VLCore

structure VLConf (Θ G B : Type) where
  nextBatch : G → G × B            -- its own data (+ parameter + observation) generators
  loss      : Θ → B → Option Rat   -- `self.loss(params, val_batch)[0]` (`none` = NaN)
  patience  : Nat
  early     : Bool

/-- `ValidationLoss.__call__(params)` -/
def VL.call {Θ G B : Type} (cf : VLConf Θ G B) (s : VL G) (θ : Θ) : VOut (VL G) (Option Rat) :=
  let gb := cf.nextBatch s.gens
  let v := cf.loss θ gb.2
  { vs := { gens := gb.1, core := vlNextV s.core v },
    stop := vlStop cf.patience cf.early s.core,
    crit := v,
    improved := vlImprovedV s.core v }

end Jinns.Validation
