/-
`Holds.C14` — the property C14 as a decidable predicate over what a user observes of one
`CubicMeshPDENonStatio.get_batch()` (or one call of `make_cartesian_product`):
the temporal batch `ts`, the spatial batch `xs`, the border batch `dx` (the three factors, i.e. the
slices of the generator's stores at its cursors) and the returned `times_x_inside_batch` /
`times_x_border_batch`.  It is the *statement* (row `k` of a product is `(t[k / n], x[k % n])`,
time-major, time in column 0, per facet for the border; row `i` of a pairing is `(t[i], x[i])`),
not a comparison with the model's repeat/tile construction.
`none` = holds, `some clause` = which clause fails.
-/
namespace Jinns.Holds

/-- `a[..., f]` of a rows × coordinates × facets array (missing entries are `none`). -/
def c14FacetOf (f : Nat) (a : List (List (List Rat))) : List (List (Option Rat)) :=
  a.map fun row => row.map fun c => c[f]?

/-- row `k` of `out` is **not** `a[k / |b|] ++ b[k % |b|]` -/
def c14ProdBad {β : Type} [BEq β] (a b out : List (List β)) (k : Nat) : Bool :=
  match out[k]?, a[k / b.length]?, b[k % b.length]? with
  | some r, some x, some y => !(r == x ++ y)
  | _, _, _ => true

/-- row `i` of `out` is **not** `a[i] ++ b[i]` -/
def c14PairBad {β : Type} [BEq β] (a b out : List (List β)) (i : Nat) : Bool :=
  match out[i]?, a[i]?, b[i]? with
  | some r, some x, some y => !(r == x ++ y)
  | _, _, _ => true

/-- The generic product statement on rows: `out` has `|a|·|b|` rows and row `k` is
    `a[k / |b|] ++ b[k % |b|]`.  Returns which part fails. -/
def c14ProductRows {β : Type} [BEq β] (a b out : List (List β)) (pre : String) : Option String :=
  if out.length != a.length * b.length then some (pre ++ "row-count-is-not-the-product-of-the-batch-sizes")
  else
    let bad := (List.range out.length).find? (c14ProdBad a b out)
    match bad with
    | none => none
    | some k =>
      match out[k]?, a[k / b.length]? with
      | some r, some x =>
        if r.take x.length == x then some (pre ++ "space-columns-are-not-x[k-mod-n]")
        else some (pre ++ "time-column-is-not-t[k-div-n]-time-major")
      | _, _ => some (pre ++ "row-missing")

/-- The pairing statement: same number of rows, row `i` is `a[i] ++ b[i]`. -/
def c14PairedRows {β : Type} [BEq β] (a b out : List (List β)) (pre : String) : Option String :=
  if a.length != b.length || out.length != a.length then some (pre ++ "row-count-is-not-the-batch-size")
  else
    let bad := (List.range out.length).find? (c14PairBad a b out)
    match bad with
    | none => none
    | some _ => some (pre ++ "row-i-is-not-(t[i],x[i])")

def c14First : List (Option String) → Option String
  | [] => none
  | some s :: _ => some s
  | none :: r => c14First r

/-- interior part: `cart` ⇒ product of the time column with the spatial batch; else pairing. -/
def c14Interior (cart : Bool) (ts : List Rat) (xs tx : List (List Rat)) : Option String :=
  let tcol := ts.map fun t => [t]
  if cart then c14ProductRows tcol xs tx "interior-" else c14PairedRows tcol xs tx "interior-"

/-- border part, facet by facet: on facet `f` the batch is the product (pairing) of the same time
    column with the facet's own points `dx[..., f]`; in 1-D the product is always used. -/
def c14Border (cart : Bool) (dim : Nat) (ts : List Rat) (dx tdx : List (List (List Rat))) :
    Option String :=
  let nF := 2 * dim
  if !(tdx.all fun row => row.length == 1 + dim && row.all fun c => c.length == nF) then
    some "border-shape-is-not-rows-x-(1+dim)-x-(2dim)"
  else
    let tcol : List (List (Option Rat)) := ts.map fun t => [some t]
    c14First <| (List.range nF).map fun f =>
      if cart || dim == 1 then c14ProductRows tcol (c14FacetOf f dx) (c14FacetOf f tdx) s!"border-facet{f}-"
      else c14PairedRows tcol (c14FacetOf f dx) (c14FacetOf f tdx) s!"border-facet{f}-"

/-- C14 on one observed `get_batch`. -/
def holdsC14 (cart : Bool) (dim : Nat) (ts : List Rat) (xs : List (List Rat))
    (dx : Option (List (List (List Rat)))) (tx : List (List Rat))
    (tdx : Option (List (List (List Rat)))) : Option String :=
  if !(tx.all fun r => r.length == 1 + dim) then some "interior-shape-is-not-rows-x-(1+dim)"
  else match c14Interior cart ts xs tx with
  | some c => some c
  | none =>
    match dx, tdx with
    | none, none => none
    | some d, some td => c14Border cart dim ts d td
    | _, _ => some "border-batch-presence-differs-from-the-generator's-border-setting"

/-- C14 on one observed call of `make_cartesian_product` on 2-D arrays. -/
def holdsC14Product2 (b1 b2 out : List (List Rat)) : Option String := c14ProductRows b1 b2 out "product-"

/-- … and on 3-D arrays (rows × columns × facets): concatenation is still on axis 1. -/
def holdsC14Product3 (b1 b2 out : List (List (List Rat))) : Option String :=
  c14ProductRows b1 b2 out "product-"

/-- A non-finite entry (NaN, ±∞) in a returned space-time batch (or in a factor) is not the time /
    coordinate of any stored point: the batch is not a product / pairing of stored batches. -/
def c14NotFinite (what : String) : Option String := some (what ++ "-entry-not-finite")

end Jinns.Holds
