/-
`Holds.C02` — the property C02 as a decidable predicate over one OBSERVED call of
`<built-in>.evaluate(point, network(s), params)`: the returned array equals the DOCUMENTED differential
expression of the built-in, evaluated exactly on the (polynomial) fields the networks compute, at the
point, with the equation parameters given BY ROLE (viscosity, diffusion, growth, drift / diffusion
vectors, density, interaction vector) and `Tmax`; in particular it is `0` exactly where the documented
equation holds.  No reference to the code-shaped model (`Equations.burgers`, … are not used here):
only the `…Doc` expressions.  Returns `none` when the observation satisfies the property, `some clause`
otherwise.
-/
import JinnsModel.Equations
namespace Jinns.Holds
open Jinns.Calc Jinns.Equations

/-- the built-in, its parameters by role, and the polynomial fields of the networks
    (variable 0 = `t`, variable `i + 1` = `x_i`) -/
inductive Spec02 where
  | burgers (Tmax nu : Rat) (u : Poly)
  | fisherKPP (d : Nat) (Tmax D r g : Rat) (u : Poly)
  | ouFPE (Tmax : Rat) (alpha mu sigma : List Rat) (u : Poly)
  /-- the inherited `FPENonStatioLoss2D.equation` with a user drift (2 fields) and diffusion (2 × 2 fields) -/
  | fpe (Tmax : Rat) (drift : List Poly) (diff : List (List Poly)) (u : Poly)
  | glv (Tmax c r : Rat) (a : List Rat) (uMain : Poly) (uOthers : List Poly)
  | massConservation (u : List Poly)
  | navierStokes (nu rho : Rat) (u : List Poly) (p : Poly)
deriving Repr

def Spec02.name : Spec02 → String
  | .burgers .. => "burgers"
  | .fisherKPP .. => "fisher-kpp"
  | .ouFPE .. => "ou-fokker-planck"
  | .fpe .. => "fokker-planck-2d"
  | .glv .. => "generalized-lotka-volterra"
  | .massConservation .. => "mass-conservation"
  | .navierStokes .. => "navier-stokes"

def absQ (r : Rat) : Rat := if r < 0 then -r else r

def comp (u : List Poly) (i : Nat) : Poly := u.getD i []

/-- the documented residual as polynomial fields (all built-ins but GLV, which is pointwise) -/
def documentedFields : Spec02 → Option (List Poly)
  | .burgers Tmax nu u => some [burgersDoc polyOps Tmax nu u]
  | .fisherKPP d Tmax D r g u => some [fisherDoc polyOps polyExt d Tmax D r g u]
  | .ouFPE Tmax alpha mu sigma u => some [ouDoc polyOps polyExt Tmax alpha mu sigma u]
  | .fpe Tmax drift diff u => some [fpeDoc polyOps Tmax (comp drift) (fun i j => comp (diff.getD i []) j) u]
  | .glv .. => none
  | .massConservation u => some [massDoc polyOps (comp u)]
  | .navierStokes nu rho u p => some [nsDoc polyOps nu rho (comp u) p 0, nsDoc polyOps nu rho (comp u) p 1]

/-- `Σ_m |c_m · pt^e_m|` over the monomials of `p`: the magnitude against which the rounding of an
    evaluation of `p` in floating point is measured -/
def absSum (p : Poly) (pt : List Rat) : Rat := (p.map (fun m => absQ (Poly.monoEval pt m))).foldr (· + ·) 0

/-- the documented residual at the point; `none` where it is not defined (GLV with `u_main(t) = 0`,
    Navier–Stokes with `rho = 0`).  For GLV also the magnitude of the one inexact intermediate, the
    logarithmic derivative `u'/u` as reverse-mode AD accumulates it (`Σ_m |(u')_m(t)| / |u(t)|` over the
    monomials of `u'`), used by the rounding rule. -/
def documentedAt (s : Spec02) (pt : List Rat) : Option (List Rat × Rat) :=
  match s with
  | .glv Tmax c r a uMain uOthers =>
    match glvDoc polyOps (fun p => Poly.eval p pt) Tmax c r a uMain uOthers with
    | some v => some ([v], absSum (polyOps.dT uMain) pt / absQ (Poly.eval uMain pt))
    | none => none
  | .navierStokes _ rho _ _ =>
    if rho = 0 then none
    else (documentedFields s).map (fun fs => (fs.map (fun f => Poly.eval f pt), 0))
  | _ => (documentedFields s).map (fun fs => (fs.map (fun f => Poly.eval f pt), 0))

/-- the GLV equation without the logarithm, as a polynomial residual:
    `u_main' − Tmax · u_main · (r + Σ_k a_k u_k − c Σ_k u_k)` -/
def glvPolyResidual (Tmax c r : Rat) (a : List Rat) (uMain : Poly) (uOthers : List Poly) : Poly :=
  let us := uMain :: uOthers
  let inter := (List.range us.length).foldr (fun k acc => polyOps.add (polyOps.smul (a.getD k 0) (comp us k)) acc) []
  let tot := us.foldr (fun u acc => polyOps.add u acc) []
  polyOps.sub (polyOps.dT uMain)
    (polyOps.smul Tmax (polyOps.mul uMain
      (polyOps.add (polyOps.add (Poly.const r) inter) (polyOps.neg (polyOps.smul c tot)))))

/-- the fields solve the documented equation identically (the residual is the zero polynomial) -/
def solvesEverywhere : Spec02 → Bool
  | .glv Tmax c r a uMain uOthers => (Poly.normalize (glvPolyResidual Tmax c r a uMain uOthers)).isEmpty
  | s => match documentedFields s with
    | some fs => fs.all (fun f => (Poly.normalize f).isEmpty)
    | none => false

def compareAll (name : String) (relTol scale : Rat) : Nat → List Rat → List Rat → Option String
  | _, [], [] => none
  | k, o :: os, d :: ds =>
    if relTol = 0 then
      if d = 0 && o != 0 then some s!"{name}:residual-nonzero-where-the-documented-equation-holds[{k}]"
      else if d != 0 && o = 0 then some s!"{name}:residual-zero-where-the-documented-equation-fails[{k}]"
      else if o != d then some s!"{name}:residual-differs-from-documented-expression[{k}]"
      else compareAll name relTol scale (k + 1) os ds
    else
      if absQ (o - d) ≤ relTol * (scale + absQ d) then compareAll name relTol scale (k + 1) os ds
      else some s!"{name}:residual-differs-from-documented-expression-beyond-rounding[{k}]"
  | _, _, _ => some s!"{name}:number-of-components"

/-- `relTol = 0`: exact equality (every float64 operation of the implementation is exact on the inputs
    used).  `relTol > 0` (GLV at a point where `u_main(t)` is not a power of two: `1/u` is rounded and
    reverse-mode AD propagates it through the monomials of the network with a bounded number `N` of
    roundings per term, `relTol = N · 2^-53`): `|obs − doc| ≤ relTol · (Σ_m |(u')_m(t)| / |u(t)| + |doc|)`.
    Outside the domain of the documented expression nothing is required. -/
def holdsC02 (s : Spec02) (pt : List Rat) (observed : List Rat) (relTol : Rat) : Option String :=
  match documentedAt s pt with
  | none => none
  | some (doc, scale) => compareAll s.name relTol scale 0 observed doc

/-- the observation is either the returned array or a rejection (`evaluate` raised): where the documented
    expression is defined, a rejection violates the property (every layout `extract_params` accepts is valid) -/
def holdsC02Obs (s : Spec02) (pt : List Rat) (observed : Option (List Rat)) (relTol : Rat) : Option String :=
  match observed with
  | some o => holdsC02 s pt o relTol
  | none =>
    match documentedAt s pt with
    | some _ => some s!"{s.name}:valid-layout-rejected"
    | none => none

end Jinns.Holds
