/-
Model of the space-time batch construction of `jinns/data/_DataGenerators.py`:
`make_cartesian_product` (repeat the first factor, tile the second, concatenate on axis 1) and
`CubicMeshPDENonStatio.get_batch` (one interior, one border and one temporal batch from the C09
cursor machine, combined as a cartesian product or as a row-wise pairing).

Arrays: a 2-D array is `List (List α)` (rows × columns); a 3-D border array is
`List (List (List α))` (rows × coordinates × facets), i.e. a 2-D array whose entries are the
facet vectors — `concatenate(axis=1)` is `++` on rows in both cases, so one generic `cartesian`
serves both.  Imports only the C09 cursor model.
-/
import JinnsModel.Minibatch

namespace Jinns.Cartesian
open Jinns.Minibatch

variable {α : Type}

/-- `jnp.repeat(b1, k, axis=0)`: every row repeated `k` times, in place. -/
def repeatEach (k : Nat) : List α → List α
  | [] => []
  | a :: as => List.replicate k a ++ repeatEach k as

/-- `jnp.tile(b2, reps=(k, 1, …))`: the whole block repeated `k` times. -/
def tile : Nat → List α → List α
  | 0, _ => []
  | k + 1, l => l ++ tile k l

/-- `make_cartesian_product(b1, b2)`:
    `b1 = repeat(b1, n2, axis=0); b2 = tile(b2, (n1, 1…)); concatenate([b1, b2], axis=1)`. -/
def cartesian (b1 b2 : List (List α)) : List (List α) :=
  List.zipWith (· ++ ·) (repeatEach b2.length b1) (tile b1.length b2)

/-- `jnp.concatenate([t, x], axis=1)` (the non-cartesian branch). -/
def paired (b1 b2 : List (List α)) : List (List α) := List.zipWith (· ++ ·) b1 b2

/-- `t.reshape(bt, 1)` -/
def col (ts : List α) : List (List α) := ts.map fun t => [t]

/-- `t.reshape(bt, 1, 1)` followed by `jnp.repeat(t_, F, axis=2)`: rows × 1 × F. -/
def timeRep (F : Nat) (ts : List α) : List (List (List α)) := ts.map fun t => [List.replicate F t]

/-- `dx.shape[-1]` of a rows × coordinates × facets array. -/
def facetCount (dx : List (List (List α))) : Nat :=
  match dx with
  | (c :: _) :: _ => c.length
  | _ => 0

/-- facet `f` of a border array: `a[..., f]` (entries that do not exist are `none`). -/
def facet (f : Nat) (a : List (List (List α))) : List (List (Option α)) :=
  a.map fun row => row.map fun c => c[f]?

/-- The guard of `CubicMeshPDENonStatio.__post_init__` for the pairing mode
    (`cartesian_product=False`): both `raise ValueError` branches, in order. -/
def pairingGuard (cart : Bool) (dim bt b : Nat) (bb : Option Nat) : Except String Unit :=
  if !cart then
    if bt != b then .error "value_error"
    else if decide (dim > 1) && bb.isSome && bb != some bt then .error "value_error"
    else .ok ()
  else .ok ()

/-- The border part of the generator state. -/
inductive Border (α : Type) where
  /-- `omega_border_batch_size is None` -/
  | absent
  /-- `dim == 1`: `omega_border = [xmin, xmax]`, no cursor -/
  | fixed1d (ends : List α)
  /-- `dim == 2`: a C09 cursor over the rows × coordinates × facets store -/
  | facets (m : MB (List (List α)))

/-- `border_batch()`: `None` / `omega_border[None, None]` / one C09 request (`nB = nb // (2 dim)`). -/
def Border.next (nB : Nat) : Border α → List (List (List α)) →
    Border α × Option (List (List (List α)))
  | .absent, _ => (.absent, none)
  | .fixed1d e, _ => (.fixed1d e, some [[e]])
  | .facets m, o => let r := Minibatch.next nB m o; (.facets r.1, some r.2)

def Border.run (nB : Nat) : Border α → List (List (List (List α))) →
    Border α × List (Option (List (List (List α))))
  | b, [] => (b, [])
  | b, o :: os =>
    let r := Border.next nB b o
    let rs := Border.run nB r.1 os
    (rs.1, r.2 :: rs.2)

/-- State of a `CubicMeshPDENonStatio` as far as `get_batch` is concerned. -/
structure NS (α : Type) where
  omega  : MB (List α)
  border : Border α
  times  : MB α
  cart   : Bool
  dim    : Nat

/-- What `get_batch` builds from the three factor batches (`x`, `dx`, `t`):
    `(times_x_inside_batch, times_x_border_batch)`. -/
def combine (cart : Bool) (dim : Nat) (x : List (List α)) (dx : Option (List (List (List α))))
    (t : List α) : List (List α) × Option (List (List (List α))) :=
  let tx := if cart then cartesian (col t) x else paired (col t) x
  let tdx := dx.map fun d =>
    let t_ := timeRep (facetCount d) t
    if cart || dim == 1 then cartesian t_ d else paired t_ d
  (tx, tdx)

/-- One `get_batch()`: `inside_batch`, then `border_batch`, then `temporal_batch`, then `combine`.
    `nO, nB, nT` are the epoch sizes `n`, `nb // (2 dim)`, `nt`; the oracles are the reshuffled
    stores the PRNG would produce. -/
def getBatch (nO nB nT : Nat) (g : NS α)
    (o : List (List α) × List (List (List α)) × List α) :
    NS α × (List (List α) × Option (List (List (List α)))) :=
  let rx := Minibatch.next nO g.omega o.1
  let rb := Border.next nB g.border o.2.1
  let rt := Minibatch.next nT g.times o.2.2
  ({ g with omega := rx.1, border := rb.1, times := rt.1 }, combine g.cart g.dim rx.2 rb.2 rt.2)

/-- A whole history of `get_batch` calls. -/
def runNS (nO nB nT : Nat) : NS α → List (List (List α) × List (List (List α)) × List α) →
    NS α × List (List (List α) × Option (List (List (List α))))
  | g, [] => (g, [])
  | g, o :: os =>
    let r := getBatch nO nB nT g o
    let rs := runNS nO nB nT r.1 os
    (rs.1, r.2 :: rs.2)

end Jinns.Cartesian
