/-
Model of the boundary term of `LossPDEStatio` / `LossPDENonStatio` (PINN branches).

  jinns/loss/_loss_utils.py          : `boundary_condition_apply`
  jinns/loss/_boundary_conditions.py : `_compute_boundary_loss`, `boundary_dirichlet_statio`,
        `boundary_neumann_statio`, `boundary_dirichlet_nonstatio`, `boundary_neumann_nonstatio`
  jinns/loss/_LossPDE.py             : `_LossPDEAbstract.__post_init__` (an `int` component
        selection is rewritten as the slice `[v : v+1]`)
  jinns/data/_DataGenerators.py      : layout of the border batch, `(rows, coordinates, facets)`;
        non-stationary: coordinate 0 is the time, replicated on every facet, rows are the cartesian
        product times × border points (`get_batch`, `make_cartesian_product`)

User functions are parameters: `uval p` is the whole output `u(p)`, `jac p` the table
`[component][space coordinate]` of first space derivatives at `p` (JAX AD is an oracle),
`f p` the boundary function, which may return a 0-d scalar or a 1-D array.
A point `p` is the list of coordinates of one row of the border batch at one facet
(`t :: x` in the non-stationary case).
Imports only `JinnsModel.LossTerms` (core Lean).
-/
import JinnsModel.LossTerms

namespace Jinns.Boundary
open Jinns.LossTerms

/-- the border batch, indexed `[row][coordinate][facet]` -/
abbrev Border := List (List (List Rat))

/-- `border_batch.shape[-1]` -/
def nFacets : Border → Nat
  | (c :: _) :: _ => c.length
  | _ => 0

/-- number of coordinates of a row (`shape[-2]`) -/
def nCoords : Border → Nat
  | row :: _ => row.length
  | [] => 0

/-- `border_batch[..., facet]` : one point per row -/
def facetPts (b : Border) (facet : Nat) : List (List Rat) :=
  b.map fun row => row.map fun c => c.getD facet 0

/-- the 1-D normal table `n = jnp.array([-1, 1])` -/
def normal1 : List Rat := [-1, 1]
/-- the 2-D normal table `n = jnp.array([[-1, 1, 0, 0], [0, 0, -1, 1]])` -/
def normal2 : List (List Rat) := [[-1, 1, 0, 0], [0, 0, -1, 1]]

/-- `n[..., facet]`; the 1-D table is used when the points have one space coordinate -/
def normal (d facet : Nat) : List Rat :=
  if d = 1 then [normal1.getD facet 0] else normal2.map fun r => r.getD facet 0

def dot (a b : List Rat) : Rat := (List.zipWith (fun x y => x * y) a b).sum

/-- what the user's `f` returns: a 0-d scalar or a 1-D array -/
inductive FRet where
  | scalar (a : Rat)
  | vec (l : List Rat)
deriving Repr

/-- numpy broadcasting of `f`'s return against `k` components (`(k,) - ()`, `(k,) - (1,)`,
    `(k,) - (k,)`; for Neumann, after `atleast_1d`, `k = 1`). -/
def FRet.bcast : FRet → Nat → List Rat
  | .scalar a, k => List.replicate k a
  | .vec l, k => if l.length = 1 then List.replicate k (l.headD 0) else l

inductive Cond where
  | dirichlet
  | neumann
deriving Repr, BEq, DecidableEq

/-- what is configured for one facet -/
structure FacetSpec where
  cond : Cond
  dim  : Slice                -- `omega_boundary_dim` (an int `v` has become `[v : v+1]`)
  f    : List Rat → FRet

/-- per-point mismatch, one entry per selected component.
    Dirichlet: `u(p)[dim_to_apply] - f(p)`.
    Neumann: `atleast_1d(dot(grad(squeeze(u(·)[dim_to_apply]))(p), n[..., facet]) - f(p))`
    (the code needs exactly one selected component; the model is written per selected component). -/
def mismatch (s : FacetSpec) (n : List Rat) (uval : List Rat → List Rat)
    (jac : List Rat → List (List Rat)) (p : List Rat) : List Rat :=
  match s.cond with
  | .dirichlet =>
    let v := s.dim.apply (uval p)
    sub v ((s.f p).bcast v.length)
  | .neumann =>
    let g := (s.dim.apply (jac p)).map fun grad => dot grad n
    sub g ((s.f p).bcast g.length)

/-- number of space coordinates of the border points (`border_batch.shape[-1]` after the facet
    has been selected; the time coordinate is split off first in the non-stationary case) -/
def spaceDim (hasTime : Bool) (b : Border) : Nat := nCoords b - (if hasTime then 1 else 0)

/-- `jnp.mean(loss_weight * _compute_boundary_loss(cond, f, batch, u, params, facet, dim))`:
    the rows are summed over the components (`sum(res**2, axis=-1)`), multiplied by the weight,
    averaged over the rows of this facet. -/
def facetLoss (w : Rat) (s : FacetSpec) (hasTime : Bool) (uval : List Rat → List Rat)
    (jac : List Rat → List (List Rat)) (b : Border) (facet : Nat) : Rat :=
  mean ((facetPts b facet).map fun p =>
    w * ((mismatch s (normal (spaceDim hasTime b) facet) uval jac p).map sqr).sum)

/-- boundary specification: one condition for all facets, or a dictionary facet ↦ condition / None -/
inductive Spec where
  | global (s : FacetSpec)
  | perFacet (l : List (Option FacetSpec))

/-- the leaves visited by the `tree_map` of `boundary_condition_apply`: `range(shape[-1])` for a
    global specification; the dictionary zipped with `facet_tree` (`xmin, xmax[, ymin, ymax]` ↦
    `0, 1[, 2, 3]`) otherwise. -/
def Spec.facets (spec : Spec) (b : Border) : List (Option FacetSpec) :=
  match spec with
  | .global s => List.replicate (nFacets b) (some s)
  | .perFacet l => l

/-- a dictionary must have exactly the keys of `facet_tree`, which exists for 2 or 4 facets only
    (otherwise `ValueError`) -/
def Spec.rejected (spec : Spec) (b : Border) : Bool :=
  match spec with
  | .global _ => false
  | .perFacet l => !((nFacets b == 2 || nFacets b == 4) && l.length == nFacets b)

/-- sum over the facets, numbered from `i`, a `None` facet being skipped -/
def sumFacets (g : FacetSpec → Nat → Rat) : List (Option FacetSpec) → Nat → Rat
  | [], _ => 0
  | none :: rest, i => sumFacets g rest (i + 1)
  | some s :: rest, i => g s i + sumFacets g rest (i + 1)

/-- `boundary_condition_apply`: `tree_reduce(+, tree_leaves(b_losses_by_facet))`. -/
def boundary (w : Rat) (spec : Spec) (hasTime : Bool) (uval : List Rat → List Rat)
    (jac : List Rat → List (List Rat)) (b : Border) : Rat :=
  sumFacets (fun s i => facetLoss w s hasTime uval jac b i) (spec.facets b) 0

/-- `CubicMeshPDENonStatio.get_batch` (cartesian product): the time is replicated on every facet and
    every time is paired with every border row, times varying slowest. -/
def productRows (ts : List Rat) (dx : Border) : Border :=
  ts.flatMap fun t => dx.map fun row => List.replicate (nFacets dx) t :: row

/-! ### separable networks (SPINN branches)

A `SPINN` is not evaluated row by row: given the `B` rows of `border_batch[..., facet]` (resp. the time
column and the space columns of `times_x_border_batch[..., facet]`) it returns its values on the whole
tensor grid of the coordinate columns — `B^D` entries, `D` the number of coordinates — and the
boundary function is applied to `_get_grid(…)`, the same grid (`meshgrid(indexing="ij")`).  The term
is the mean over the grid.  On a facet one coordinate column is constant (the pinned coordinate), so
the grid is that constant × the product of the free columns: in the stationary 2-D case exactly the
facet's own points (each `B` times), in the non-stationary case the times of the batch × the facet's
points (`JinnsProofs/C04.lean`: `cart_mean_const_col`, `grid_mean_eq_rows_*`). -/

-- (`cart`, `columns`, `gridPts` are defined in `JinnsModel/LossTerms.lean`)

/-- SPINN branches of `boundary_dirichlet_*` / `boundary_neumann_*` followed by
    `jnp.mean(loss_weight * …)`: same per-point mismatch (`u(grid)[..., dim] - f(grid)`, resp. the
    `jvp`s along the space axes combined with `n[·, facet]`), evaluated on the grid. -/
def facetLossSpinn (w : Rat) (s : FacetSpec) (hasTime : Bool) (uval : List Rat → List Rat)
    (jac : List Rat → List (List Rat)) (b : Border) (facet : Nat) : Rat :=
  mean ((gridPts (nCoords b) (facetPts b facet)).map fun p =>
    w * ((mismatch s (normal (spaceDim hasTime b) facet) uval jac p).map sqr).sum)

def boundarySpinn (w : Rat) (spec : Spec) (hasTime : Bool) (uval : List Rat → List Rat)
    (jac : List Rat → List (List Rat)) (b : Border) : Rat :=
  sumFacets (fun s i => facetLossSpinn w s hasTime uval jac b i) (spec.facets b) 0

end Jinns.Boundary
