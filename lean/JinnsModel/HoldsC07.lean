/-
`Holds.C07` — the property C07 as a decidable predicate over what is observed on one call of
`jinns.solve` (or on a run and its resumption, concatenated), given the trace of the textbook
mini-batch loop on the same program (`RefTrace`: its batches are the batches of the generators
passed in, replayed outside the loop).  `none` = holds, `some clause` = the clause that fails.

The property speaks of runs that nothing stops: when the reference parameters contain a NaN
(`C18`) the predicate makes no claim.  `n = 0` is a degenerate input on which the property makes
no claim either (the code rejects it; that rejection is compared with the model separately).
-/
import JinnsModel.SolveTrace
namespace Jinns.Holds
open Jinns.SolveTrace

def SolveAux.firstFail (l : List (Bool × String)) : Option String :=
  (l.find? (fun c => !c.1)).map (·.2)

def SolveAux.faultFree (ref : RefTrace) : Bool := ref.thetas.all (fun θ => !hasNaN θ)

def holdsC07 (ref : RefTrace) (rejected : Bool) (o : Obs) : Option String :=
  if ref.n == 0 then none
  else if rejected then some "valid-program-rejected"
  else if !SolveAux.faultFree ref then none
  else SolveAux.firstFail [
    (o.iters == ref.n, "exactly-n-iterations"),
    (o.batches == ref.batches, "iteration-i-trains-on-the-i-th-batch"),
    (o.lossH == ref.losses, "loss-history"),
    (o.termH == ref.terms, "term-histories"),
    (o.trackH == ref.tracked, "tracked-parameters-after-update"),
    (some o.params == ref.thetas[ref.n]?, "final-parameters"),
    (some o.opt == ref.opts[ref.n]?, "optimizer-state"),
    (some o.gen == ref.gens[ref.n]?, "advanced-data-generator")]

end Jinns.Holds
