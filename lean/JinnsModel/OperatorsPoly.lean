/-
The operators of `JinnsModel/Operators.lean` (and the Navier-Stokes residual of `Residuals.lean`, through
which the advection operator is reached) run on the executable instance `polyOps`: what the drivers of
C01 / C11 evaluate.  `u` lists the components of the network as exact polynomials in `(t, x_0, …)`
(for `"ns"`: `u_x, u_y, p`).  Imports nothing outside core Lean.
-/
import JinnsModel.Operators
import JinnsModel.Residuals
import JinnsModel.OpNames
namespace Jinns.Operators
open Jinns.Calc

def compP (u : List Poly) (i : Nat) : Poly := u.getD i []

/-- the reverse-mode (PINN) operator `op`, as polynomials (one per output component) -/
def runRev (op : OpName) (sig : Sig) (d m : Nat) (u : List Poly) (nu rho : Rat) : List Poly :=
  match op with
  | .lap => [lapRev polyOps d sig (compP u)]
  | .div => [divRev polyOps d sig (compP u)]
  | .veclap => vecLapRev polyOps d sig m (compP u)
  | .adv => advRev polyOps sig (compP u)
  | .ns => Jinns.Residuals.nsRev polyOps nu rho (compP u) (compP u 2)

/-- the forward-mode (SPINN) operator `op` -/
def runFwd (op : OpName) (d m : Nat) (u : List Poly) (nu rho : Rat) : List Poly :=
  match op with
  | .lap => [lapFwd polyOps d (compP u)]
  | .div => [divFwd polyOps d (compP u)]
  | .veclap => vecLapFwd polyOps d m (compP u)
  | .adv => advFwd polyOps (compP u)
  | .ns => Jinns.Residuals.nsFwd polyOps nu rho (compP u) (compP u 2)

/-- values of a list of polynomials at the point `pt = [t, x_0, …]` -/
def evalAll (ps : List Poly) (pt : List Rat) : List Rat := ps.map (fun p => Poly.eval p pt)

end Jinns.Operators
