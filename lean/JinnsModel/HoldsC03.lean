/-
`Holds.C03` — the property C03 as a decidable predicate over what a user observes of
`loss.evaluate(params, batch)`: the returned total, the returned dictionary of terms, which terms
were configured, and — for the dynamic term — the exact residuals of the user's equation at the
points of the batch, together with four metamorphic re-evaluations *of the implementation*
(weight scaled by `c`, a second weight and the sum of the two, permuted batch, the two halves of
the batch).  `tol = 0` means exact equality (the correspondence uses inputs on which float64
arithmetic is exact); a positive `tol` is the 4-ulp allowance for batch sizes that are not powers
of two.  Returns `none` when the property holds, `some clause` otherwise.
-/
namespace Jinns.Holds

def c03Abs (x : Rat) : Rat := if x < 0 then -x else x
def c03Close (tol a b : Rat) : Bool := decide (c03Abs (a - b) ≤ tol)

/-- a weight as observed: `some a` = a float, `none` = the array `wv` -/
structure W03 where
  scalar : Option Rat
  vec    : List Rat
deriving Repr

/-- weighted sum over the residual components of the squared residual at one point -/
def c03Row (w : W03) (r : List Rat) : Rat :=
  match w.scalar with
  | some a => a * (r.map fun x => x * x).sum
  | none => (List.zipWith (fun wc x => wc * (x * x)) w.vec r).sum

/-- mean over the collocation points of the batch -/
def c03Dyn (w : W03) (residuals : List (List Rat)) : Rat :=
  ((residuals.map (c03Row w)).sum) / (residuals.length : Rat)

structure Dyn03 where
  w         : W03
  residuals : List (List Rat)     -- residual components at each point of the batch, batch order
  scale     : Rat
  scaled    : Rat                 -- dynamic term returned with the weight `scale • w`
  w2        : W03
  withW2    : Rat                 -- … with the weight `w2`
  withSum   : Rat                 -- … with the weight `w + w2`
  permuted  : Rat                 -- … on a permutation of the batch
  halves    : Option (Rat × Rat)  -- … on the first / second half (even batch sizes)
deriving Repr

structure Obs03 where
  keys       : List String         -- keys the returned dictionary must have for this loss
  total      : Rat
  terms      : List (String × Rat)
  configured : List String
  dyn        : Option Dyn03        -- present iff "dyn_loss" is configured
  tol        : Rat
deriving Repr

def c03First : List (Bool × String) → Option String
  | [] => none
  | (ok, clause) :: rest => if ok then c03First rest else some clause

def holdsC03 (o : Obs03) : Option String :=
  let termOf (k : String) : Rat := (o.terms.lookup k).getD 0
  let structural : List (Bool × String) := [
    (o.keys.all (fun k => (o.terms.lookup k).isSome) && o.terms.length == o.keys.length,
      "terms-dictionary-keys"),
    (c03Close o.tol o.total ((o.terms.map (·.2)).sum), "total-is-not-the-sum-of-the-terms"),
    (o.terms.all (fun kv => o.configured.contains kv.1 || kv.2 == 0),
      "unconfigured-term-not-zero")]
  let dynamic : List (Bool × String) :=
    match o.dyn with
    | none => []
    | some d =>
      let v := termOf "dyn_loss"
      [ (c03Close o.tol v (c03Dyn d.w d.residuals), "dynamic-term-is-not-the-batch-mean-of-weighted-squared-residuals"),
        (c03Close (o.tol * (1 + c03Abs d.scale)) d.scaled (d.scale * v), "dynamic-term-not-homogeneous-in-its-weight"),
        (c03Close (2 * o.tol) d.withSum (v + d.withW2), "dynamic-term-not-additive-in-its-weight"),
        (c03Close o.tol d.permuted v, "dynamic-term-not-permutation-invariant"),
        (match d.halves with
          | none => true
          | some (a, b) => c03Close (2 * o.tol) v ((a + b) / 2), "dynamic-term-not-the-average-of-its-halves") ]
  c03First (structural ++ dynamic)

end Jinns.Holds
