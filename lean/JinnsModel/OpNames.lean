/-
Vocabulary shared by the observation predicates `Holds.C01` / `Holds.C11` and by the instance runners:
the names of the operators of `jinns/loss/_operators.py` (and of the Navier-Stokes residual through which
the advection operator is reached).  Imports nothing outside core Lean.
-/
namespace Jinns

inductive OpName where
  | lap      -- `_laplacian_rev` / `_laplacian_fwd`
  | div      -- `_div_rev` / `_div_fwd`
  | veclap   -- `_vectorial_laplacian`
  | adv      -- `_u_dot_nabla_times_u_rev` / `_u_dot_nabla_times_u_fwd`
  | ns       -- `NavierStokes2DStatio.evaluate`
deriving DecidableEq, Repr

def OpName.ofString (s : String) : Option OpName :=
  if s = "lap" then some .lap
  else if s = "div" then some .div
  else if s = "veclap" then some .veclap
  else if s = "adv" then some .adv
  else if s = "ns" then some .ns
  else none

end Jinns
