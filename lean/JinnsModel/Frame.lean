/-
Model of the Python-level effects of loss evaluation and batch drawing (property C20).

`evaluate` and `get_batch` are modelled as `Args → Args × Result`: the first component is the
*post-state of the arguments*.  What can go wrong at the Python level is a write through a local name
that still aliases an object of the caller (`params.eq_params[k] = …`, `object.__setattr__(self, …)`);
what the code does instead is `eqx.tree_at` / `_update_eq_params_dict`, which build a new object and
rebind the local name.  The bodies of the `evaluate` methods are therefore written in a three-instruction
language over the state (caller's dictionary, dictionary bound to the local name `params`, "still
aliased"):

* `rebind rows` — `params = _update_eq_params_dict(params, rows)`  (functional update: new object);
* `assign rows` — `params.eq_params[k] = v` for the rows (in-place write through the local name) —
  not used by the current code; it is the pre-fix body of `SystemLossPDE.evaluate` and serves as the
  witness that the frame theorems are not vacuous;
* `use`        — any pure use (vmap, network calls, reductions).

Mirrors: `LossODE.evaluate`, `LossPDEStatio.evaluate`, `LossPDENonStatio.evaluate`
(`jinns/loss/_LossODE.py`, `_LossPDE.py`), `SystemLossODE.evaluate`, `SystemLossPDE.evaluate` with
`constraints_system_loss_apply` (`_loss_utils.py`: the internal single losses receive a `Params` built
around the *same* dictionary object), `_update_eq_params_dict` (`parameters/_params.py`), and the
`get_batch` methods of `jinns/data/_DataGenerators.py` (`new = eqx.tree_at(…, self, new_attributes)`;
`self` is never written).  The values returned are those of `ParamBatch.evalSingle` /
`SystemLoss.sysEvaluate`.  Imports nothing outside core Lean (and the C12 / C13 models).
-/
import JinnsModel.ParamBatch
import JinnsModel.SystemLoss

namespace Jinns.Frame
open Jinns.ParamBatch Jinns.SystemLoss

inductive Op where
  | rebind (rows : Rows)
  | assign (rows : Rows)
  | use
deriving Repr

structure St where
  caller  : Tree       -- the dictionary object the caller holds (`params.eq_params`)
  loc     : Tree       -- the dictionary the local name `params` currently refers to
  aliased : Bool       -- is it still the caller's object
deriving Repr, BEq

/-- `d[k] = v`: replace the entry of an existing key, append a new one -/
def setKey (t : Tree) (k : String) (e : Entry) : Tree :=
  if hasKey k t then t.map fun kv => if kv.1 = k then (k, e) else kv else t ++ [(k, e)]

def assignTree (t : Tree) (rows : Rows) : Tree :=
  rows.foldl (fun acc r => setKey acc r.1 (Entry.stacked r.2)) t

def step (s : St) : Op → St
  | .rebind rows => { s with loc := stackTree s.loc rows, aliased := false }
  | .assign rows =>
    if s.aliased then { s with caller := assignTree s.loc rows, loc := assignTree s.loc rows }
    else { s with loc := assignTree s.loc rows }
  | .use => s

def run (s : St) : List Op → St
  | [] => s
  | o :: r => run (step s o) r

/-- on entry the local name is the caller's object -/
def entry (p : Params) : St := { caller := ofParams p, loc := ofParams p, aliased := true }

def toParams (t : Tree) : Params := t.map fun e => (e.1, entryVal e.2)

def optRebind (pr : Option Rows) : List Op :=
  match pr with
  | none => []
  | some rows => [Op.rebind rows]

/-- body of `LossODE.evaluate` / `LossPDEStatio.evaluate`: update with the parameter batch, the
    dynamic / initial / normalisation / boundary terms, update with the observed parameters, the
    observation term -/
def bodySingle (pr orows : Option Rows) (hasObs : Bool) : List Op :=
  optRebind pr ++ [Op.use] ++ (if hasObs then [Op.rebind (orows.getD []), Op.use] else [])

/-- `LossPDENonStatio.evaluate`: its own update, `super().evaluate(params, batch)` (which updates
    again), then the initial-condition term -/
def bodyNonStatio (pr orows : Option Rows) (hasObs : Bool) : List Op :=
  optRebind pr ++ bodySingle pr orows hasObs ++ [Op.use]

/-- `SystemLossODE.evaluate` / `SystemLossPDE.evaluate`: update, the dynamic terms, then every
    unknown's internal single loss on a `Params` wrapping the same dictionary object -/
def bodySystem (pr : Option Rows) (unknowns : List (Option Rows × Bool)) (nonStatio : Bool) : List Op :=
  optRebind pr ++ [Op.use] ++
    unknowns.flatMap fun u => if nonStatio then bodyNonStatio pr u.1 u.2 else bodySingle pr u.1 u.2

/-- the pre-fix `SystemLossPDE.evaluate`: `params_dict.eq_params[k] = batch.param_batch_dict[k]` -/
def bodySystemInPlace (pr : Option Rows) (unknowns : List (Option Rows × Bool)) : List Op :=
  (match pr with | none => [] | some rows => [Op.assign rows]) ++ [Op.use] ++
    unknowns.flatMap fun u => bodySingle pr u.1 u.2

inductive LossKind where
  | ode | statio | nonstatio
deriving Repr, DecidableEq

def singleBody (k : LossKind) (s : Single) : List Op :=
  match k with
  | .nonstatio => bodyNonStatio s.paramRows s.obsRows s.obs.isSome
  | _ => bodySingle s.paramRows s.obsRows s.obs.isSome

def sysBody (S : Sys) (nonStatio : Bool) : List Op :=
  bodySystem S.paramRows (S.unknowns.map fun ku => (ku.2.obsRows, ku.2.obs.isSome)) nonStatio

/-- result of a loss evaluation -/
abbrev Outcome := Except String (Terms × Rat)

/-- `loss.evaluate(params, batch)` for a single loss: post-state of the caller's parameters, value -/
def evaluateSingle (k : LossKind) (s : Single) (p : Params) : Params × Outcome :=
  (toParams (run (entry p) (singleBody k s)).caller, (evalSingle p s).map fun t => (t, t.total))

/-- `loss.evaluate(params_dict, batch)` for a system loss -/
def evaluateSys (S : Sys) (nonStatio : Bool) (p : Params) : Params × Outcome :=
  (toParams (run (entry p) (sysBody S nonStatio)).caller, sysEvaluate p S)

/-- the same with the in-place body (pre-fix code): the value is computed from the same data -/
def evaluateSysInPlace (S : Sys) (p : Params) : Params × Outcome :=
  (toParams (run (entry p) (bodySystemInPlace S.paramRows
      (S.unknowns.map fun ku => (ku.2.obsRows, ku.2.obs.isSome)))).caller, sysEvaluate p S)

/-! ### repeated evaluations on shared objects -/

/-- a store of parameter objects; a call names the object it passes -/
def callOn {R : Type} (f : Params → Params × R) (store : List Params) (i : Nat) : List Params × Option R :=
  match store[i]? with
  | none => (store, none)
  | some p => let r := f p; (store.set i r.1, some r.2)

/-- a history of calls `(which evaluation, which parameter object)`, threading the post-states -/
def runHistory {R : Type} (fs : List (Params → Params × R)) (store : List Params) :
    List (Nat × Nat) → List Params × List (Option R)
  | [] => (store, [])
  | c :: r =>
    match fs[c.1]? with
    | none => let q := runHistory fs store r; (q.1, none :: q.2)
    | some f =>
      let a := callOn f store c.2
      let q := runHistory fs a.1 r
      (q.1, a.2 :: q.2)

/-! ### batch drawing -/

/-- `get_batch`: `step` computes the new attributes and the batch from `self`; the method returns
    `(eqx.tree_at(…, self, new_attributes), batch)` and leaves `self` as it is -/
def getBatch {σ β : Type} (step : σ → σ × β) (self : σ) : σ × (σ × β) := (self, step self)

/-- the `n` batches obtained by re-binding the generator to the returned one -/
def drawN {σ β : Type} (step : σ → σ × β) : σ → Nat → σ × List β
  | g, 0 => (g, [])
  | g, n + 1 =>
    let r := (getBatch step g).2
    let q := drawN step r.1 n
    (q.1, r.2 :: q.2)

end Jinns.Frame
