/-
`Holds.C05` — the property C05 as a decidable predicate over what is observed of
`terms['initial_condition']`, `terms['norm_loss']`, `terms['observations']`, given exact value
tables of the user's functions computed independently of jinns:

* ODE initial condition: `u(t0)` and the prescribed `u0`;
* PDE initial condition: for each spatial point `x` of the batch, `u0(x)` and `u(0, x)`;
* normalisation: the volume `L`, the (scalar) solution at each normalisation sample — for each time
  of the batch in the non-stationary case;
* observations: for each observed row `i`, the selected solution components of the network at the
  observed input `i` evaluated with row `i` of every observed equation parameter, and the observed
  values of row `i`.

`none` = holds, `some clause` otherwise.  `tol = 0` is exact equality.
-/
namespace Jinns.Holds

def c05Abs (x : Rat) : Rat := if x < 0 then -x else x
def c05Close (tol a b : Rat) : Bool := decide (c05Abs (a - b) ≤ tol)
def c05Mean (l : List Rat) : Rat := l.sum / (l.length : Rat)

/-- a weight: a float or one entry per component -/
structure W05 where
  scalar : Option Rat
  vec    : List Rat
deriving Repr

/-- weighted squared mismatch of two rows, summed over the components -/
def c05Row (w : W05) (a b : List Rat) : Rat :=
  let sqs := List.zipWith (fun x y => (x - y) * (x - y)) a b
  match w.scalar with
  | some s => s * sqs.sum
  | none => (List.zipWith (fun wc q => wc * q) w.vec sqs).sum

structure Obs05 where
  tol : Rat
  /-- value, weight, `u(t0)`, `u0` -/
  icOde : Option (Rat × Rat × List Rat × List Rat)
  /-- value, weight, for each spatial point of the batch `(u0(x), u(0, x))` -/
  icPde : Option (Rat × W05 × List (List Rat × List Rat))
  /-- value, weight, volume, solution at each sample -/
  normStatio : Option (Rat × Rat × Rat × List Rat)
  /-- value, weight, volume, for each time of the batch the solution at each sample -/
  normNonStatio : Option (Rat × Rat × Rat × List (List Rat))
  /-- value, weight, for each observed row `(selected solution components with row-i parameters, observed values)` -/
  obs : Option (Rat × W05 × List (List Rat × List Rat))
deriving Repr

def c05IcOde (w : Rat) (ut0 u0 : List Rat) : Rat :=
  w * (List.zipWith (fun x y => (x - y) * (x - y)) ut0 u0).sum

def c05MeanRows (w : W05) (rows : List (List Rat × List Rat)) : Rat :=
  c05Mean (rows.map fun ab => c05Row w ab.1 ab.2)

/-- squared deviation from 1 of the Monte-Carlo integral `L · mean_s u(s)` -/
def c05Dev (L : Rat) (us : List Rat) : Rat := (L * c05Mean us - 1) * (L * c05Mean us - 1)

def holdsC05 (o : Obs05) : Option String :=
  let c1 := match o.icOde with
    | none => true
    | some (v, w, ut0, u0) => c05Close o.tol v (c05IcOde w ut0 u0)
  let c2 := match o.icPde with
    | none => true
    | some (v, w, rows) => c05Close o.tol v (c05MeanRows w rows)
  let c3 := match o.normStatio with
    | none => true
    | some (v, w, L, us) => c05Close o.tol v (w * c05Dev L us)
  let c4 := match o.normNonStatio with
    | none => true
    | some (v, w, L, tbl) => c05Close o.tol v (w * c05Mean (tbl.map (c05Dev L)))
  let c5 := match o.obs with
    | none => true
    | some (v, w, rows) => c05Close o.tol v (c05MeanRows w rows)
  if !c1 then some "ode-initial-condition-term"
  else if !c2 then some "pde-initial-condition-term"
  else if !c3 then some "stationary-normalisation-term"
  else if !c4 then some "non-stationary-normalisation-term"
  else if !c5 then some "observation-term"
  else none

end Jinns.Holds
