"""
Shared machinery of the jinns verification checks (see /verif/DESIGN.md §2).

  build_lean / audit_axioms / token_grep   -- the proof side (Lean 4)
  lean_eval                                -- line protocol to the executable model
  run_cases                                -- runs the real jinns code on generated cases (process pool)
  run_check                                -- decision procedure of §2.4, evidence, replay, known findings
"""
from __future__ import annotations

import fcntl
import importlib
import json
import os
import random
import re
import subprocess
import sys
import time
import traceback
from fractions import Fraction
from pathlib import Path

VERIF = Path(__file__).resolve().parent.parent
LEAN = VERIF / "lean"
REPO = Path(os.environ.get("JINNS_REPO", "/repo"))
EVIDENCE = Path(os.environ.get("VERIF_EVIDENCE_DIR", VERIF / "evidence"))
REPLAY = Path(os.environ.get("VERIF_REPLAY_DIR", VERIF / "replay"))
CORPUS = VERIF / "corpus"
ALLOWED_AXIOMS = {"propext", "Classical.choice", "Quot.sound"}
FORBIDDEN = re.compile(
    r"\bsorry\b|\badmit\b|^\s*axiom\s|native_decide|bv_decide|implemented_by|\bunsafe\s|maxHeartbeats\s+0\b",
    re.M,
)

TRUSTED_BASE = [
    "Lean 4.33.0 kernel (proof terms re-checked by `lake build`; `leanchecker` in the thorough tier)",
    "axioms: subset of {propext, Classical.choice, Quot.sound}, audited per theorem by `#print axioms` on every run",
    "Lean's evaluator (`lean --run`) for the executable side of the model",
    "hand-written model tied to /repo by differential execution only: the generators, the Python "
    "drivers in /verif/harness, the extraction of oracle values (PRNG outputs) and the canonicalisation are trusted",
    "modelled, not verified: JAX AD, vmap, lax control flow, XLA compilation, the PRNG (oracle with contract), "
    "equinox pytree machinery, optax; floating point (theorems are over exact rationals, inputs are chosen so "
    "that float64 arithmetic is exact)",
]


# ----------------------------------------------------------------------------------------------
# exact numbers
# ----------------------------------------------------------------------------------------------
def frac(x) -> Fraction:
    """exact value of a python/numpy/jax scalar"""
    import numpy as np

    if isinstance(x, Fraction):
        return x
    if isinstance(x, (int, np.integer)):
        return Fraction(int(x))
    return Fraction(float(x))


def qstr(x) -> str:
    f = frac(x)
    return str(f.numerator) if f.denominator == 1 else f"{f.numerator}/{f.denominator}"


def qlist(a):
    """nested lists of exact rationals (strings) from an array-like"""
    import numpy as np

    a = np.asarray(a)
    if a.ndim == 0:
        return qstr(a.item())
    return [qlist(x) for x in a]


def parse_q(s) -> Fraction:
    if isinstance(s, (int,)):
        return Fraction(s)
    return Fraction(s)


def is_finite_tree(a) -> bool:
    import numpy as np

    return bool(np.all(np.isfinite(np.asarray(a, dtype=float))))


# ----------------------------------------------------------------------------------------------
# Lean side
# ----------------------------------------------------------------------------------------------
class Infra(Exception):
    """infrastructure failure: exit code 2, never a VIOLATION"""


def _lake_env():
    env = dict(os.environ)
    env.pop("LEAN_PATH", None)
    return env


def build_lean(targets=(), timeout=1500) -> str:
    """`lake build <targets>` under a file lock (checks may run concurrently). Returns the build log."""
    lock = LEAN / ".build.lock"
    with open(lock, "w") as fh:
        fcntl.flock(fh, fcntl.LOCK_EX)
        try:
            subprocess.run([sys.executable, str(VERIF / "tools" / "gen_lean_index.py")], check=True)
            p = subprocess.run(
                ["lake", "build", *targets], cwd=LEAN, capture_output=True, text=True, timeout=timeout, env=_lake_env()
            )
        finally:
            fcntl.flock(fh, fcntl.LOCK_UN)
    log = p.stdout + p.stderr
    if p.returncode != 0:
        raise Infra("lake build failed:\n" + log[-4000:])
    return log


def audit_axioms(theorems: list[str], imports=("JinnsProofs",)) -> dict[str, list[str]]:
    """#print axioms for every theorem; returns name -> axioms (raises Infra on unknown theorem)."""
    src = "".join(f"import {m}\n" for m in imports) + "".join(f"#print axioms {t}\n" for t in theorems)
    tmp = LEAN / f".audit_{os.getpid()}_{random.randrange(1 << 30)}.lean"
    tmp.write_text(src)
    try:
        p = subprocess.run(
            ["lake", "env", "lean", tmp.name], cwd=LEAN, capture_output=True, text=True, timeout=900, env=_lake_env()
        )
    finally:
        tmp.unlink(missing_ok=True)
    out = p.stdout + p.stderr
    if p.returncode != 0:
        raise Infra("axiom audit failed:\n" + out[-3000:])
    res: dict[str, list[str]] = {}
    flat = re.sub(r"\s+", " ", out)
    for t in theorems:
        m = re.search(r"'" + re.escape(t) + r"' depends on axioms: \[([^\]]*)\]", flat)
        if m:
            res[t] = [a.strip() for a in m.group(1).split(",") if a.strip()]
        elif re.search(r"'" + re.escape(t) + r"' does not depend on any axioms", flat):
            res[t] = []
        else:
            raise Infra(f"axiom audit: no report for {t}\n{out[-2000:]}")
    return res


def strip_lean_comments(s: str) -> str:
    out, i, depth, n = [], 0, 0, len(s)
    while i < n:
        if s.startswith("/-", i):
            depth += 1
            i += 2
        elif depth and s.startswith("-/", i):
            depth -= 1
            i += 2
        elif depth:
            i += 1
        elif s.startswith("--", i):
            while i < n and s[i] != "\n":
                i += 1
        else:
            out.append(s[i])
            i += 1
    return "".join(out)


def import_closure(modules) -> list[Path]:
    """files of the lake project reachable from `modules` through `import Jinns…` lines"""
    seen, todo, files = set(), list(modules), []
    while todo:
        m = todo.pop()
        if m in seen:
            continue
        seen.add(m)
        f = LEAN / (m.replace(".", "/") + ".lean")
        if not f.exists():
            continue
        files.append(f)
        for mm in re.findall(r"^import\s+(Jinns[\w.]*)", f.read_text(), re.M):
            todo.append(mm)
    return sorted(files)


def token_grep(modules=None) -> list[str]:
    hits = []
    if modules is None:
        files = [f for f in sorted(LEAN.rglob("*.lean")) if ".lake" not in f.parts and not f.name.startswith(".audit_")]
    else:
        files = import_closure(modules)
    for f in files:
        txt = strip_lean_comments(f.read_text())
        for m in FORBIDDEN.finditer(txt):
            hits.append(f"{f.relative_to(LEAN)}: {m.group(0).strip()}")
    return hits


DRIVER = "Driver.lean"


def lean_eval(reqs: list[dict], timeout=1800, strict=True) -> list[dict]:
    """pipes the requests to the model driver, returns the answers in order"""
    if not reqs:
        return []
    data = "".join(json.dumps({**r, "id": i}) + "\n" for i, r in enumerate(reqs))
    p = subprocess.run(
        ["lake", "env", "lean", "--run", DRIVER],
        cwd=LEAN, input=data, capture_output=True, text=True, timeout=timeout, env=_lake_env(),
    )
    if p.returncode != 0:
        raise Infra("model driver failed:\n" + (p.stdout + p.stderr)[-3000:])
    outs = [json.loads(l) for l in p.stdout.splitlines() if l.strip()]
    if len(outs) != len(reqs):
        raise Infra(f"model driver answered {len(outs)} of {len(reqs)} requests\n{p.stderr[-2000:]}")
    byid = {o.get("id"): o for o in outs}
    res = [byid[i] for i in range(len(reqs))]
    if strict:
        for r in res:
            if not r.get("ok"):
                raise Infra("model driver error: " + json.dumps(r)[:2000])
    return res


# ----------------------------------------------------------------------------------------------
# implementation side: worker pool
# ----------------------------------------------------------------------------------------------
def _worker_init():
    os.environ.setdefault("JAX_PLATFORMS", "cpu")
    os.environ["JINNS_VERIF"] = "1"
    os.environ.setdefault("XLA_FLAGS", "--xla_cpu_multi_thread_eigen=false intra_op_parallelism_threads=1")
    os.environ.setdefault("OMP_NUM_THREADS", "1")
    import warnings

    warnings.filterwarnings("ignore")
    sys.path.insert(0, str(VERIF))
    if str(REPO) not in sys.path:
        sys.path.insert(0, str(REPO))
    import jax

    jax.config.update("jax_enable_x64", True)
    _start_coverage()


_COV = None


def _start_coverage():
    """optional (VERIF_COVERAGE_DIR set): line/branch coverage of /repo/jinns under the correspondence runs,
    used by tools/coverage_report.py to list the anchored code the generators never reach"""
    global _COV
    cov_dir = os.environ.get("VERIF_COVERAGE_DIR")
    if not cov_dir or _COV is not None:
        return
    import coverage
    from multiprocessing import util as mpu

    os.makedirs(cov_dir, exist_ok=True)
    _COV = coverage.Coverage(data_file=os.path.join(cov_dir, ".coverage"), data_suffix=True, branch=True,
                             source=[str(REPO / "jinns")])
    _COV.start()

    def _save():
        _COV.stop()
        _COV.save()

    mpu.Finalize(None, _save, exitpriority=0)
    import atexit

    atexit.register(lambda: _COV.save())


def err_kind(e: BaseException) -> str:
    if isinstance(e, ValueError):
        return "value_error"
    if isinstance(e, TypeError):
        return "type_error"
    if isinstance(e, NotImplementedError):
        return "not_implemented"
    if isinstance(e, AssertionError):
        return "assertion_error"
    return "other:" + type(e).__name__


def _run_one(args):
    modname, case = args
    mod = importlib.import_module(modname)
    t0 = time.time()
    try:
        obs = mod.run_impl(case)
    except Exception as e:  # the harness itself failed around the implementation
        obs = {"harness_exception": err_kind(e), "trace": traceback.format_exc()[-3000:]}
    obs["_wall"] = time.time() - t0
    return obs


def run_cases(modname: str, cases: list[dict], workers: int) -> list[dict]:
    if workers <= 1 or len(cases) <= 1:
        _worker_init()
        return [_run_one((modname, c)) for c in cases]
    import multiprocessing as mp
    from concurrent.futures import ProcessPoolExecutor

    ctx = mp.get_context("spawn")
    with ProcessPoolExecutor(max_workers=workers, mp_context=ctx, initializer=_worker_init) as ex:
        return list(ex.map(_run_one, [(modname, c) for c in cases], chunksize=max(1, len(cases) // (workers * 4))))


# ----------------------------------------------------------------------------------------------
# known findings
# ----------------------------------------------------------------------------------------------
def load_known(prop: str) -> list[dict]:
    f = VERIF / "known_findings.json"
    if not f.exists():
        return []
    data = json.loads(f.read_text())
    return [k for k in data.get("findings", []) if k.get("property") == prop]


# ----------------------------------------------------------------------------------------------
# the check
# ----------------------------------------------------------------------------------------------
def write_evidence(prop, tier, seed, coverage, assumptions, wall, violations):
    EVIDENCE.mkdir(exist_ok=True, parents=True)
    ev = {
        "property_id": prop,
        "tier": tier,
        "seed": seed,
        "level": "proof",
        "coverage": coverage,
        "assumptions": assumptions,
        "wall_s": round(wall, 2),
        "violations": violations,
    }
    (EVIDENCE / f"{prop}.json").write_text(json.dumps(ev, indent=1, sort_keys=True))


def write_replay(prop, seed, payload) -> Path:
    REPLAY.mkdir(exist_ok=True, parents=True)
    path = REPLAY / f"{prop}_seed{seed}_{int(time.time())}_{os.getpid()}.json"
    path.write_text(json.dumps(payload, indent=1, sort_keys=True))
    return path


def load_corpus(prop) -> list[dict]:
    d = CORPUS / prop
    if not d.is_dir():
        return []
    return [json.loads(f.read_text()) for f in sorted(d.glob("*.json"))]


LAST_ANSWERS: dict = {}


def _call_opt_answer(fn, c, o):
    """`tags` / `nontrivial` may take the model's answer as an optional third argument"""
    import inspect

    if len(inspect.signature(fn).parameters) >= 3:
        return fn(c, o, LAST_ANSWERS.get(id(c)))
    return fn(c, o)


def judge_cases(mod, cases, obss):
    """returns list of verdict dicts: {status: ok|disagree|violation|reject_ok, clause, detail}"""
    reqs, idx = [], []
    verdicts = [None] * len(cases)
    for i, (c, o) in enumerate(zip(cases, obss)):
        if "harness_exception" in o:
            # Resource failures are infrastructure (exit 2).  Anything else means the implementation behaved in a
            # way the harness could not even observe (it never does on the unchanged tree): the correspondence
            # obligation of this case is broken -> `disagree` (search for a failing input, else
            # `VIOLATION … no-failing-input-found` naming this obligation), never a silent pass, never a crash.
            if o["harness_exception"] in ("other:MemoryError", "other:OSError", "other:TimeoutError",
                                          "other:BrokenProcessPool", "other:KeyboardInterrupt"):
                raise Infra(f"harness failed on case {json.dumps(c)[:500]}:\n{o.get('trace')}")
            verdicts[i] = {"status": "disagree", "clause": "implementation-could-not-be-observed:" + o["harness_exception"],
                           "trace": (o.get("trace") or "")[-1500:]}
            continue
        r = mod.lean_request(c, o)
        if r is None:
            verdicts[i] = mod.judge(c, o, None)
        elif isinstance(r, list):
            idx.append((i, len(reqs), len(r)))
            reqs.extend(r)
        else:
            idx.append((i, len(reqs), None))
            reqs.append(r)
    # a module that sets DRIVER_ERRORS_TO_JUDGE = True receives {"ok": false, "error": …} answers in `judge`
    # (e.g. malformed implementation output the driver cannot parse is then a verdict, not an exit 2)
    answers = lean_eval(reqs, strict=not getattr(mod, "DRIVER_ERRORS_TO_JUDGE", False))
    for i, start, k in idx:
        a = answers[start] if k is None else answers[start:start + k]
        verdicts[i] = mod.judge(cases[i], obss[i], a)
        LAST_ANSWERS[id(cases[i])] = a
    return verdicts


def matches_known(known, prop, verdict, case) -> dict | None:
    for k in known:
        if k.get("clause") == verdict.get("clause"):
            sel = k.get("case_filter", {})
            if all(case.get(kk) == vv for kk, vv in sel.items()):
                return k
    return None


def shrink(mod, case, still_fails):
    """greedy delta-debugging with the property module's own `shrink_candidates`"""
    if not hasattr(mod, "shrink_candidates"):
        return case
    cur, budget = case, 60
    progress = True
    while progress and budget > 0:
        progress = False
        try:
            cands = list(mod.shrink_candidates(cur))
        except Exception:  # a bug in a shrinker must never hide the violation: keep what we have
            traceback.print_exc(file=sys.stderr)
            break
        for cand in cands:
            budget -= 1
            if budget <= 0:
                break
            try:
                if still_fails(cand):
                    cur, progress = cand, True
                    break
            except Exception:
                continue
    return cur


def run_check(prop: str, tier: str, seed: int, replay: str | None = None) -> int:
    t0 = time.time()
    modname = f"harness.{prop.lower()}"
    sys.path.insert(0, str(VERIF))
    mod = importlib.import_module(modname)
    workers = int(os.environ.get("VERIF_WORKERS", "8" if tier == "quick" else "16"))
    workers = getattr(mod, "WORKERS", {}).get(tier, workers)

    # ---------------- proof side
    global DRIVER
    proof_mods = list(getattr(mod, "LEAN_MODULES", [f"JinnsProofs.{prop}"]))
    driver_mods = list(getattr(mod, "DRIVER_MODULES", [f"JinnsDriver.{prop}"]))
    DRIVER = f"drivers/Driver_{driver_mods[0].split('.')[-1]}.lean"
    checker_cmds = ["cd /verif/lean && lake build " + " ".join(proof_mods + driver_mods)]
    build_lean(proof_mods + driver_mods)
    hits = token_grep(proof_mods + driver_mods)
    if hits:
        raise Infra("forbidden tokens in the Lean tree: " + "; ".join(hits))
    theorems = list(mod.THEOREMS)
    axioms = audit_axioms(theorems, proof_mods)
    checker_cmds.append("lake env lean <#print axioms of every property theorem>")
    bad = {t: a for t, a in axioms.items() if not set(a) <= ALLOWED_AXIOMS}
    if bad:
        raise Infra(f"axioms outside the allowed set: {bad}")
    if tier == "thorough" and os.environ.get("VERIF_LEANCHECKER", "1") == "1":
        mods = getattr(mod, "LEAN_MODULES", [f"JinnsProofs.{prop}"])
        p = subprocess.run(["lake", "env", "leanchecker", *mods], cwd=LEAN, capture_output=True, text=True,
                           timeout=3000, env=_lake_env())
        if p.returncode != 0:
            raise Infra("leanchecker failed:\n" + (p.stdout + p.stderr)[-3000:])
        checker_cmds.append("lake env leanchecker " + " ".join(mods))

    # ---------------- correspondence side
    rng = random.Random(seed * 1000003 + sum(map(ord, prop)))
    if replay:
        payload = json.loads(Path(replay).read_text())
        cases = [payload["case"]] if "case" in payload else payload["cases"]
    else:
        cases = load_corpus(prop) + list(mod.gen_cases(rng, tier))
    obss = run_cases(modname, cases, workers)
    verdicts = judge_cases(mod, cases, obss)

    if replay:
        for c, o, v in zip(cases, obss, verdicts):
            print("CASE", json.dumps(c)[:3000])
            print("IMPL", json.dumps({k: v for k, v in o.items() if k != "_wall"})[:6000])
            print("VERDICT", json.dumps(v)[:3000])

    known = load_known(prop)
    viol, disagree, known_hits = [], [], {}
    for i, v in enumerate(verdicts):
        if v["status"] == "violation":
            k = matches_known(known, prop, v, cases[i])
            if k is not None:
                known_hits.setdefault(k["id"], (k, []))[1].append(i)
            else:
                viol.append(i)
        elif v["status"] == "disagree":
            disagree.append(i)

    def fails(c):
        o = run_cases(modname, [c], 1)
        v = judge_cases(mod, [c], o)[0]
        return v["status"] == "violation"

    rc = 0
    replay_paths = []
    for kid, (k, idxs) in known_hits.items():
        print(f"KNOWN-FINDING: property={prop} {k['what']} [{len(idxs)} case(s), id={kid}]")
    if viol:
        i = viol[0]
        small = shrink(mod, cases[i], fails) if not replay else cases[i]
        o = run_cases(modname, [small], 1)
        v = judge_cases(mod, [small], o)[0]
        path = write_replay(prop, seed, {"property": prop, "kind": "failing-input", "case": small,
                                         "impl": {k: x for k, x in o[0].items() if k != "_wall"}, "verdict": v,
                                         "how_to_replay": f"./check {prop} --replay <this file>"})
        replay_paths.append(str(path))
        print(f"VIOLATION property={prop} replay={path}")
        rc = 1
    elif disagree:
        # correspondence broken, Holds true on everything explored so far: widen the search
        found = None
        if hasattr(mod, "widen") and not replay:
            try:
                extra = list(mod.widen(rng, [cases[i] for i in disagree[:5]]))
            except Exception:  # a widening generator that cannot digest the case must not hide the report
                traceback.print_exc(file=sys.stderr)
                extra = []
            eo = run_cases(modname, extra, workers)
            ev = judge_cases(mod, extra, eo)
            for c, o, v in zip(extra, eo, ev):
                if v["status"] == "violation" and matches_known(known, prop, v, c) is None:
                    found = (c, o, v)
                    break
        if found:
            c, o, v = found
            path = write_replay(prop, seed, {"property": prop, "kind": "failing-input", "case": c,
                                             "impl": {k: x for k, x in o.items() if k != "_wall"}, "verdict": v})
            print(f"VIOLATION property={prop} replay={path}")
        else:
            i = disagree[0]
            path = write_replay(prop, seed, {
                "property": prop, "kind": "correspondence-broken",
                "obligation": f"correspondence {prop}: implementation trace = model trace ({modname}.judge); "
                              f"theorems {theorems} are about the model and no longer transfer",
                "case": cases[i], "impl": {k: x for k, x in obss[i].items() if k != "_wall"},
                "verdict": verdicts[i], "n_disagreements": len(disagree)})
            print(f"VIOLATION property={prop} replay={path} no-failing-input-found")
        replay_paths.append(str(path))
        rc = 1

    # ---------------- evidence
    nontrivial = set()
    dist: dict[str, int] = {}
    for c, o in zip(cases, obss):
        if "harness_exception" in o:
            dist["unobservable_case"] = dist.get("unobservable_case", 0) + 1
            continue
        for tag in _call_opt_answer(mod.tags, c, o):
            dist[tag] = dist.get(tag, 0) + 1
        if _call_opt_answer(mod.nontrivial, c, o):
            nontrivial.add(json.dumps(c, sort_keys=True))
    samples = [{"case": c, "verdict": v} for c, v in list(zip(cases, verdicts))[:3]]
    coverage = {
        "obligations": len(theorems),
        "discharged": len([t for t in theorems if t in axioms and set(axioms[t]) <= ALLOWED_AXIOMS]),
        "checker_cmd": " && ".join(checker_cmds),
        "trusted_base": TRUSTED_BASE + list(getattr(mod, "TRUSTED_EXTRA", [])),
        "theorems": {t: axioms[t] for t in theorems},
        "evaluations": len(cases),
        "distinct_nontrivial": len(nontrivial),
        "traces_validated_against_impl": sum(1 for v in verdicts if v["status"] in ("ok",)),
        "rule": mod.RULE,
        "samples": samples if len(json.dumps(samples)) < 30000 else
        [{"case_truncated_json": json.dumps(cases[0])[:4000], "verdict": verdicts[0]}],
        "distribution": dist,
        "disagreements_checked": len(disagree),
        "known_findings_matched": {k: len(v[1]) for k, v in known_hits.items()},
        "impl_wall_s": round(sum(o.get("_wall", 0) for o in obss), 2),
        "replay_files": replay_paths,
        "exhaustive": bool(getattr(mod, "EXHAUSTIVE", {}).get(tier, False)),
    }
    write_evidence(prop, tier, seed, coverage, list(getattr(mod, "ASSUMPTIONS", [])), time.time() - t0,
                   len(viol) + (1 if (disagree and not viol) else 0))
    print(f"[{prop}] tier={tier} seed={seed} cases={len(cases)} nontrivial={len(nontrivial)} "
          f"theorems={len(theorems)} violations={len(viol)} disagreements={len(disagree)} "
          f"known={sum(len(v[1]) for v in known_hits.values())} wall={time.time() - t0:.1f}s")
    return rc


def main(argv=None):
    import argparse

    ap = argparse.ArgumentParser()
    ap.add_argument("prop")
    ap.add_argument("--tier", default=os.environ.get("VERIF_TIER", "quick"))
    ap.add_argument("--replay", default=None)
    a = ap.parse_args(argv)
    seed = int(os.environ.get("VERIF_SEED", "0"))
    try:
        rc = run_check(a.prop.upper(), a.tier, seed, a.replay)
    except Infra as e:
        print(f"INFRASTRUCTURE FAILURE ({a.prop}): {e}", file=sys.stderr)
        sys.exit(2)
    except Exception:  # a bug of the machinery itself: never a VIOLATION, never a silent pass
        traceback.print_exc(file=sys.stderr)
        print(f"INFRASTRUCTURE FAILURE ({a.prop}): unexpected exception in the harness", file=sys.stderr)
        sys.exit(2)
    sys.exit(rc)


if __name__ == "__main__":
    main()
