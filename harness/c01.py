"""
C01 — differential operators return the mathematical operator's value.
Correspondence: the real `_laplacian_rev`, `_div_rev`, `_vectorial_laplacian`, `_u_dot_nabla_times_u_rev`
of jinns/loss/_operators.py (and the advection operator through the real `NavierStokes2DStatio.evaluate`)
on real jinns `PINN`s around exact polynomial networks, against JinnsModel/Operators.lean run on exact
polynomials; `Holds.C01` is evaluated on the implementation's own values.
"""
from __future__ import annotations

from fractions import Fraction

from harness.polynet import P, monomials

PROP = "C01"
LEVEL_TEXT = ("Lean 4 theorems, for every spatial dimension d, number of components m, field algebra, network and "
              "both call signatures (t is None / t given): the code-shaped Laplacian, divergence, vector Laplacian and "
              "advection equal Sum_i d_i d_i u_0, Sum_i d_i u_i, Sum_i d_i d_i u_j (every j < m) and Sum_{j<2} u_j d_j u_k; "
              "no operator reads the time derivative (any two operation tables differing only in dT give the same field, "
              "with and without a time argument); component j of the result depends on u_j only.  The model is tied to "
              "/repo on every run by exact differential execution on polynomial PINNs (monomial basis of total degree "
              "<= 3 in d = 1..4, with and without time variable, scalar and vector outputs, random integer polynomials "
              "of degree <= 4, eager and jitted, unrelated parameters perturbed), and Holds.C01 is evaluated on the "
              "implementation's own values.")
LEVEL_NOTE = ("Trusted: Lean kernel + {propext, Classical.choice, Quot.sound}; JAX AD enters through the contract "
              "'grad(f, k)[i] is the i-th partial derivative in argument k, hessian(f, k)[i][j] = d_j d_i f' (FieldOps), "
              "validated only by the differential runs; the tie of the hand-written model to the code is differential "
              "(it sees the generated polynomial fields; agreement on the monomial basis of degree <= 3 determines a "
              "constant-coefficient operator of order <= 2 on all polynomials only by linearity, an inference, not a "
              "theorem about the code); smooth non-polynomial fields (the trigonometric/Gaussian family of the "
              "property text) are not exactly representable and are covered only through the AD contract.")
TECHNIQUE = "Lean 4 proof (index routing over list sums, all d and m) + exact differential correspondence on polynomial PINNs"
THEOREMS = [
    "Jinns.Operators.lapRev_eq",
    "Jinns.Operators.divRev_eq",
    "Jinns.Operators.vecLapRev_length",
    "Jinns.Operators.vecLapRev_eq",
    "Jinns.Operators.advRev_eq",
    "Jinns.Operators.advRev_eq_sum",
    "Jinns.Operators.lapRev_time_fixed",
    "Jinns.Operators.divRev_time_fixed",
    "Jinns.Operators.vecLapRev_time_fixed",
    "Jinns.Operators.advRev_time_fixed",
    "Jinns.Operators.lapRev_sig",
    "Jinns.Operators.divRev_sig",
    "Jinns.Operators.vecLapRev_sig",
    "Jinns.Operators.advRev_sig",
    "Jinns.Operators.lapRev_local",
    "Jinns.Operators.divRev_local",
    "Jinns.Operators.vecLapRev_local",
    "Jinns.Operators.advRev_local",
    "Jinns.Operators.runRev_eq_expected",
    "Jinns.Operators.model_holdsC01",
]
LEAN_MODULES = ["JinnsProofs.C01"]
RULE = ("case = (operator, d, time argument or not, number of outputs m, eager|jit, list of items); item = exact "
        "polynomial field (one polynomial per output, variables (t,) x_0..x_{d-1}), an integer/dyadic point, "
        "(nu, rho) for the Navier-Stokes route; observed per item: the value, the value again after changing "
        "unrelated equation parameters, and (time cases) the value of the time-free operator on the field frozen "
        "at t; non-trivial = at least one item whose observed value is non-zero and whose field has a non-zero "
        "second derivative in at least two coordinates (counting t) -- for d = 1 without time: a non-zero second "
        "derivative; distinct = distinct case dicts"
        " Plus the forward-mode versions of the same operators on real separable networks (SPINN) with genuinely quadratic polynomial features, batches smaller than, equal to and larger than the dimension, every grid entry against the operator's value of the pointwise twin at its grid point.")
ASSUMPTIONS = [
    "JAX AD contract: grad(f, argnum=k)[i] is the i-th partial derivative in positional argument k; "
    "hessian(f, argnums=k)[i][j] = d_j d_i f (modelled by FieldOps.dX / dT)",
    "float64 arithmetic on small integer / dyadic polynomial data is exact (Fraction(float(x)) compared by equality)",
]
EXHAUSTIVE = {"quick": True, "thorough": True}

OPS = ["lap", "div", "veclap", "adv", "ns"]
COORDS = [Fraction(1), Fraction(-1), Fraction(2), Fraction(-2), Fraction(3), Fraction(1, 2), Fraction(3, 2),
          Fraction(-1, 2)]
MAXDEG = 4


# ------------------------------------------------------------------------------------------
# generation
# ------------------------------------------------------------------------------------------
def _q(x):
    x = Fraction(x)
    return str(x.numerator) if x.denominator == 1 else f"{x.numerator}/{x.denominator}"


def _rand_poly(rng, nvars, maxdeg, nterms, cmax=3):
    ms = monomials(nvars, maxdeg)
    c = {}
    for e in rng.sample(ms, min(nterms, len(ms))):
        v = rng.randint(-cmax, cmax)
        if v:
            c[e] = v
    return P(nvars, c)


def _pt(rng, nvars):
    return [_q(rng.choice(COORDS)) for _ in range(nvars)]


def _item(rng, polys, nvars, nu="0", rho="1"):
    return {"polys": [p.to_json() for p in polys], "pt": _pt(rng, nvars), "nu": nu, "rho": rho}


def _mono(nvars, e, c):
    return P(nvars, {tuple(e): c})


def _items_basis(rng, which, d, time, m, deg):
    """the exhaustive monomial-basis items of one configuration"""
    nv = d + (1 if time else 0)
    out = []
    basis = monomials(nv, deg)
    if which == "lap":
        for e in basis:
            polys = [_mono(nv, e, rng.choice([1, -1, 2, 3]))] + [_rand_poly(rng, nv, 3, 3) for _ in range(m - 1)]
            out.append(_item(rng, polys, nv))
    elif which == "div":
        for i in range(d):
            for e in basis:
                polys = [(_mono(nv, e, rng.choice([1, -1, 2, 3])) if k == i else P(nv)) for k in range(m)]
                out.append(_item(rng, polys, nv))
    elif which == "veclap":
        for j in range(m):
            for e in basis:
                polys = [(_mono(nv, e, rng.choice([1, -1, 2, 3])) if k == j else _rand_poly(rng, nv, 3, 2))
                         for k in range(m)]
                out.append(_item(rng, polys, nv))
    elif which in ("adv", "ns"):
        # quadratic operator: pairs of monomials of degree <= 2 in the two components, and each monomial of
        # degree <= deg in one component against a fixed non-trivial partner
        low = monomials(nv, 2)
        for ea in low:
            for eb in low:
                polys = [_mono(nv, ea, rng.choice([1, -1, 2])), _mono(nv, eb, rng.choice([1, -1, 2]))]
                if which == "ns":
                    polys.append(P.const(nv, rng.randint(-2, 2)))
                out.append(_item(rng, polys, nv, nu="0", rho=_q(rng.choice([1, 2, 4]))))
        for k in range(2):
            for e in basis:
                partner = _rand_poly(rng, nv, 2, 3)
                polys = [_mono(nv, e, 1), partner] if k == 0 else [partner, _mono(nv, e, 1)]
                if which == "ns":
                    polys.append(_rand_poly(rng, nv, 3, 3))
                    out.append(_item(rng, polys, nv, nu=_q(rng.choice([0, 1, Fraction(1, 2), 2])),
                                     rho=_q(rng.choice([1, 2, 4, Fraction(1, 2)]))))
                else:
                    out.append(_item(rng, polys, nv))
    return out


def _extra_exps(rng, nv, n=8):
    """a few monomials of total degree 4: with the full basis of degree <= 3 they are the monomial set of the
    network of one configuration (keeps the XLA graph, hence the compile time, small)"""
    deg4 = [e for e in monomials(nv, MAXDEG) if sum(e) == MAXDEG]
    return sorted(rng.sample(deg4, min(n, len(deg4))))


def _rand_poly_from(rng, exps, nterms, cmax=3):
    c = {}
    for e in rng.sample(exps, min(nterms, len(exps))):
        v = rng.randint(-cmax, cmax)
        if v:
            c[tuple(e)] = v
    return P(len(exps[0]), c)


def _items_random(rng, which, d, time, m, n, extra=()):
    nv = d + (1 if time else 0)
    out = []
    exps = monomials(nv, 3) + [tuple(e) for e in extra]
    hi = [tuple(e) for e in extra] or exps
    for _ in range(n):
        k = 3 if which == "ns" else m
        polys = [_rand_poly_from(rng, exps, rng.randint(2, 5)) + _rand_poly_from(rng, hi, 1) for _ in range(k)]
        if which == "ns":
            out.append(_item(rng, polys, nv, nu=_q(rng.choice([0, 1, Fraction(1, 2), 2, Fraction(-3, 4)])),
                             rho=_q(rng.choice([1, 2, 4, Fraction(1, 2), -2]))))
        else:
            out.append(_item(rng, polys, nv))
    return out


def _configs():
    for d in (1, 2, 3, 4):
        for time in (False, True):
            yield "lap", d, time, 1
            yield "lap", d, time, 2
            yield "div", d, time, d
            yield "veclap", d, time, d
            yield "veclap", d, time, (d % 3) + 1  # u_vec_ndim different from the dimension of x
    for time in (False, True):
        yield "adv", 2, time, 2
    yield "ns", 2, False, 2
    # rejections: the advection is written for two space dimensions only
    yield "adv", 1, False, 1
    yield "adv", 3, True, 3


def _chunks(lst, n):
    for i in range(0, len(lst), n):
        yield lst[i:i + n]


def gen_cases(rng, tier):
    cases = []
    nrand = 6 if tier == "quick" else 40
    neager = 3 if tier == "quick" else 12
    for which, d, time, m in _configs():
        nv = d + (1 if time else 0)
        extra = [list(e) for e in _extra_exps(rng, nv)]
        base = {"which": which, "d": d, "time": time, "m": m, "extra": extra}
        if which == "adv" and d != 2:
            cases.append({**base, "mode": "eager", "items": _items_random(rng, which, d, time, m, 2, extra)})
            continue
        items = _items_basis(rng, which, d, time, m, 3) + _items_random(rng, which, d, time, m, nrand, extra)
        for ch in _chunks(items, 120):
            cases.append({**base, "mode": "jit", "items": ch})
        eager = rng.sample(items, min(neager, len(items)))
        cases.append({**base, "mode": "eager", "items": eager})
    cases += _spinn_cases(rng, tier)
    return cases


def _spinn_cases(rng, tier):
    """the forward-mode versions of the same operators (`_laplacian_fwd`, `_div_fwd`, `_vectorial_laplacian`,
    `_u_dot_nabla_times_u_fwd`) on real separable networks (`SPINN`) with integer-polynomial sub-networks: every
    entry of the returned grid is the operator's value at its grid point, for the pointwise twin polynomial
    sum_r prod_k f_{k,r}(z_k).  Batches smaller than, equal to and larger than the dimension."""
    import itertools
    from harness import c11

    out = []
    cfgs = []
    for d in (1, 2, 3):
        for time in (False, True):
            cfgs += [("lap", d, time, 1), ("div", d, time, d), ("veclap", d, time, d), ("veclap", d, time, (d % 3) + 1)]
    cfgs += [("adv", 2, False, 2), ("adv", 2, True, 2)]
    for which, d, time, m in cfgs:
        D = d + (1 if time else 0)
        Bs = [1, 2] if tier == "quick" else [1, 2, 3]
        if D >= 4:
            Bs = [1, 2]
        for B in Bs:
            R, deg = rng.choice([1, 2]), 2
            coef = c11._coef(rng, D, R * m, deg)
            for sub in coef:      # every feature is genuinely quadratic: no second derivative vanishes identically
                for row in sub:
                    if row[2] == 0:
                        row[2] = rng.choice([-1, 1, 2])
            X = c11._batch(rng, B, D)
            exps = list(itertools.product(range(deg + 1), repeat=D))
            tw = c11._twin_coef(coef, R, m, exps)
            polys = [[[_q(Fraction(v)), list(e)] for v, e in zip(row, exps) if v != 0] for row in tw]
            items = [{"polys": polys, "pt": [_q(v) for v in pt], "nu": "0", "rho": "1"} for pt in c11._grid_points(X)]
            out.append({"which": which, "d": d, "time": time, "m": m, "extra": [], "mode": "spinn", "items": items,
                        "spinn": {"R": R, "deg": deg, "coef": coef, "X": X}})
    return out


def shrink_candidates(case):
    if case["mode"] == "spinn":  # the items are the grid of one batch: not independent
        return
    its = case["items"]
    if len(its) > 1:
        for it in its:
            yield {**case, "items": [it]}
        return
    it = its[0]
    for k, pj in enumerate(it["polys"]):
        if len(pj) > 1:
            for drop in range(len(pj)):
                polys = list(it["polys"])
                polys[k] = pj[:drop] + pj[drop + 1:]
                yield {**case, "items": [{**it, "polys": polys}]}


def widen(rng, bad_cases):
    out = []
    for c in bad_cases:
        if c["mode"] == "spinn":
            out += [x for x in _spinn_cases(rng, "thorough") if x["which"] == c["which"]]
            continue
        for _ in range(3):
            out.append({**c, "items": _items_random(rng, c["which"], c["d"], c["time"], c["m"], 30, c["extra"])})
    return out


# ------------------------------------------------------------------------------------------
# implementation side
# ------------------------------------------------------------------------------------------
def _poly_of_json(nv, pj):
    return P(nv, {tuple(e): Fraction(c) for c, e in pj})


def _freeze(p, t0):
    """x -> p(t0, x): the stationary field frozen at time t0 (variables x_0..)"""
    q = p.subs_affine(0, 0, Fraction(t0))
    return P(p.n - 1, {e[1:]: v for e, v in q.c.items()})


_NETS = {}
_FNS = {}


def _basis_pinn(nv, m, eq_type, exps):
    """a real jinns PINN around a PolyNet holding the monomials `exps`; the polynomial it computes is set
    through its trainable coefficient matrix"""
    from harness.polynet import make_pinn

    key = (nv, m, eq_type, exps)
    if key not in _NETS:
        full = P(nv, {e: 1 for e in exps})
        pinn = make_pinn([full] * m, eq_type)
        _NETS[key] = (pinn, pinn.init_params())
    return _NETS[key]


def _coef(nn0, polys):
    import jax.numpy as jnp

    exps = nn0.exps
    for p in polys:
        for e in p.c:
            assert e in exps, "monomial outside the basis of the network"
    return jnp.asarray([[float(p.c.get(e, 0)) for e in exps] for p in polys], dtype=jnp.float64)


def _make_fn(which, d, time, m, exps):
    """returns f(coefs, t, x, eq_params) -> array, calling the real jinns operator on real PINNs"""
    import equinox as eqx
    import jax.numpy as jnp
    from jinns.loss import _div_rev, _laplacian_rev, _vectorial_laplacian
    from jinns.loss._operators import _u_dot_nabla_times_u_rev
    from jinns.parameters._params import Params, ParamsDict

    nv = d + (1 if time else 0)
    eq_type = "nonstatio_PDE" if time else "statio_PDE"
    if which == "ns":
        from jinns.loss import NavierStokes2DStatio

        pu, nu0 = _basis_pinn(nv, 2, eq_type, exps)
        pp, np0 = _basis_pinn(nv, 1, eq_type, exps)
        ns = NavierStokes2DStatio(u_key="u", p_key="p")

        def f(coefs, t, x, eqp):
            nn = {"u": eqx.tree_at(lambda n: n.coef, nu0, coefs[0]),
                  "p": eqx.tree_at(lambda n: n.coef, np0, coefs[1])}
            return ns.evaluate(x, {"u": pu, "p": pp}, ParamsDict(nn_params=nn, eq_params=eqp))

        return f, (nu0, np0)
    pinn, nn0 = _basis_pinn(nv, m, eq_type, exps)

    def f(coefs, t, x, eqp):
        params = Params(nn_params=eqx.tree_at(lambda n: n.coef, nn0, coefs[0]), eq_params=eqp)
        tt = t if time else None
        if which == "lap":
            return jnp.atleast_1d(_laplacian_rev(tt, x, pinn, params))
        if which == "div":
            return jnp.atleast_1d(_div_rev(tt, x, pinn, params))
        if which == "veclap":
            # (the documented default: u_vec_ndim is the dimension of x when it is not given)
            return _vectorial_laplacian(tt, x, pinn, params, u_vec_ndim=None if m == d else m)
        if which == "adv":
            return _u_dot_nabla_times_u_rev(tt, x, pinn, params)
        raise ValueError(which)

    return f, (nn0,)


def _get_fn(which, d, time, m, exps):
    """one jitted callable per configuration and worker process: XLA compiles it once"""
    import jax

    key = (which, d, time, m, exps)
    if key not in _FNS:
        f, nets = _make_fn(which, d, time, m, exps)
        _FNS[key] = (jax.jit(f), nets)
    return _FNS[key]


def _exps_of(polys, nv):
    return tuple(sorted({e for p in polys for e in p.c} | {(0,) * nv}))


def run_impl(case):
    import jax
    import jax.numpy as jnp
    import numpy as np
    from harness import core

    which, d, time, m = case["which"], case["d"], case["time"], case["m"]
    if case["mode"] == "spinn":
        return _run_spinn(case)
    nv = d + (1 if time else 0)
    jit = case["mode"] == "jit"
    do_frozen = time and which != "ns"
    if jit:
        # one network per configuration holding every monomial the items use; only its coefficients change
        exps = tuple(sorted(set(monomials(nv, 3)) | {tuple(e) for e in case["extra"]}))
        f, nets = _get_fn(which, d, time, m, exps)
        if do_frozen:
            ffz, nets_fz = _get_fn(which, d, False, m, tuple(sorted({e[1:] for e in exps})))
    out = []
    for it in case["items"]:
        polys = [_poly_of_json(nv, pj) for pj in it["polys"]]
        pt = [Fraction(s) for s in it["pt"]]
        t = jnp.asarray([float(pt[0])]) if time else jnp.zeros((1,))
        x = jnp.asarray([float(v) for v in (pt[1:] if time else pt)])
        nu, rho = float(Fraction(it["nu"])), float(Fraction(it["rho"]))
        fz = [_freeze(p, pt[0]) for p in polys] if do_frozen else None
        if not jit:
            # eager: a network holding exactly the monomials of the item, every primitive dispatched one by one
            f, nets = _make_fn(which, d, time, m, _exps_of(polys, nv))
            if do_frozen:
                ffz, nets_fz = _make_fn(which, d, False, m, _exps_of(fz, nv - 1))
        if which == "ns":
            coefs = (_coef(nets[0], polys[:2]), _coef(nets[1], polys[2:3]))
            eqp = {"nu": jnp.asarray(nu), "rho": jnp.asarray(rho), "unrelated": jnp.asarray(1.0)}
            # unrelated: a parameter no term of the equation reads; rho too when grad p = 0
            eqps = [{**eqp, "unrelated": jnp.asarray(5.0)}]
            if all(sum(e) == 0 for e in polys[2].c):
                eqps.append({**eqp, "rho": jnp.asarray(rho * 4 + 1), "unrelated": jnp.asarray(-2.0)})
        else:
            coefs = (_coef(nets[0], polys),)
            eqp = {"nu": jnp.asarray(1.0), "unrelated": jnp.asarray(0.5)}
            eqps = [{"nu": jnp.asarray(-3.0), "unrelated": jnp.asarray(7.0)}]
        rec = {}
        try:
            v = f(coefs, t, x, eqp)
            rec["value"] = core.qlist(np.asarray(v).reshape(-1))
            rec["finite"] = core.is_finite_tree(v)
            rec["perturbed"] = [core.qlist(np.asarray(f(coefs, t, x, e2)).reshape(-1)) for e2 in eqps]
            if do_frozen:
                cz = (_coef(nets_fz[0], fz),)
                rec["frozen"] = core.qlist(np.asarray(ffz(cz, jnp.zeros((1,)), x, eqp)).reshape(-1))
        except (NotImplementedError, ValueError, TypeError, AssertionError, IndexError) as e:
            rec = {"error": core.err_kind(e)}
        out.append(rec)
    return {"items": out}


def _run_spinn(case):
    import jax.numpy as jnp
    import numpy as np
    from harness import core, c11
    from jinns.loss import _div_fwd, _laplacian_fwd, _vectorial_laplacian
    from jinns.loss._operators import _u_dot_nabla_times_u_fwd
    from jinns.parameters._params import Params

    which, d, time, m, sp = case["which"], case["d"], case["time"], case["m"], case["spinn"]
    D = d + (1 if time else 0)
    net, tmpl, _, _ = c11._nets(time, D, sp["R"], m, sp["deg"])
    nn = c11._set(tmpl, jnp.asarray(sp["coef"], dtype=jnp.float64))
    X = jnp.asarray([[float(Fraction(v)) for v in row] for row in sp["X"]], dtype=jnp.float64)
    t, x = (X[:, 0:1], X[:, 1:]) if time else (None, X)
    B = X.shape[0]

    def f(eqp):
        params = Params(nn_params=nn, eq_params=eqp)
        if which == "lap":
            return _laplacian_fwd(t, x, net, params)[..., None]
        if which == "div":
            return _div_fwd(t, x, net, params)[..., None]
        if which == "veclap":
            return jnp.moveaxis(_vectorial_laplacian(t, x, net, params, u_vec_ndim=m), 0, -1)
        if which == "adv":
            return _u_dot_nabla_times_u_fwd(t, x, net, params)
        raise ValueError(which)

    try:
        v = np.asarray(f({"nu": jnp.asarray(1.0), "unrelated": jnp.asarray(0.5)}))
        v2 = np.asarray(f({"nu": jnp.asarray(-3.0), "unrelated": jnp.asarray(7.0)}))
    except (NotImplementedError, ValueError, TypeError, AssertionError, IndexError) as e:
        return {"items": [{"error": core.err_kind(e)} for _ in case["items"]]}
    if v.shape[:D] != (B,) * D:
        return {"items": [{"error": "grid_shape"} for _ in case["items"]]}
    v, v2 = v.reshape(B ** D, -1), v2.reshape(B ** D, -1)
    return {"items": [{"value": core.qlist(a), "finite": core.is_finite_tree(a), "perturbed": [core.qlist(b)]}
                      for a, b in zip(v, v2)]}


# ------------------------------------------------------------------------------------------
# model side and verdict
# ------------------------------------------------------------------------------------------
def _accepts(which, d):
    """`_u_dot_nabla_times_u_rev`: `if x.shape[0] == 2: … raise NotImplementedError`"""
    return d == 2 if which in ("adv", "ns") else True


def lean_request(case, obs):
    which, d, time, m = case["which"], case["d"], case["time"], case["m"]
    items = []
    for it, o in zip(case["items"], obs["items"]):
        if "error" in o:
            continue
        polys = it["polys"] if time else [[[c, [0] + list(e)] for c, e in pj] for pj in it["polys"]]
        pt = it["pt"] if time else ["0"] + list(it["pt"])
        items.append({"which": which, "d": d, "m": m, "time": time, "polys": polys, "pt": pt, "nu": it["nu"],
                      "rho": it["rho"], "value": o["value"], "perturbed": o["perturbed"],
                      "frozen": o.get("frozen")})
    if not items:
        return None
    return {"op": "c01", "items": items}


def judge(case, obs, answer):
    which, d = case["which"], case["d"]
    k = 0
    first_disagree = None
    for i, (it, o) in enumerate(zip(case["items"], obs["items"])):
        if "error" in o:
            if _accepts(which, d):
                return {"status": "violation", "clause": "operator-rejects-supported-input", "item": i,
                        "error": o["error"]}
            if o["error"] != "not_implemented":
                first_disagree = first_disagree or {"status": "disagree", "clause": "rejection-kind", "item": i}
            continue
        a = answer["results"][k]
        k += 1
        if not o.get("finite", True):
            return {"status": "violation", "clause": "non-finite-value", "item": i}
        if not _accepts(which, d):
            first_disagree = first_disagree or {"status": "disagree", "clause": "model-rejects-implementation-accepts",
                                                "item": i}
            continue
        if not a["holds"]:
            return {"status": "violation", "clause": a["clause"], "item": i, "model": a["model"],
                    "observed": o["value"]}
        if not a["agree"] and first_disagree is None:
            first_disagree = {"status": "disagree", "clause": "model-value-differs", "item": i, "model": a["model"]}
    return first_disagree or {"status": "ok", "clause": None}


def _second_derivs(it, nv):
    n = 0
    polys = [_poly_of_json(nv, pj) for pj in it["polys"]]
    for v in range(nv):
        if any(not p.d(v).d(v).is_zero() for p in polys):
            n += 1
    return n


def nontrivial(case, obs):
    nv = case["d"] + (1 if case["time"] else 0)
    need = 1 if nv == 1 else 2
    for it, o in zip(case["items"], obs["items"]):
        if "error" in o:
            continue
        if any(Fraction(v) != 0 for v in o["value"]) and _second_derivs(it, nv) >= need:
            return True
    return False


def tags(case, obs):
    out = [f"op={case['which']}", f"d={case['d']}", "time" if case["time"] else "no_time", f"m={case['m']}",
           f"mode={case['mode']}"]
    n_err = sum(1 for o in obs["items"] if "error" in o)
    if n_err:
        out.append("rejected(not_implemented)")
    out.append("ulp_rule_cases=0")
    return out
