"""
C19 — validation is called on schedule; early stopping and best parameters follow it.
Correspondence: the real `jinns.solve` (compiled loop) on exact programs with
 (a) a scripted `AbstractValidationModule` (harness/solveprog.py: replays an outcome script indexed
     by its own call counter, records the parameters it is called with): ALL scripts over
     {improve, same, worse} x {stop, continue} up to a length bound, periods 1..4;
 (b) the real `jinns.validation.ValidationLoss` around an exact loss with its own data / parameter /
     observation generators, patience 0..3, early stopping on and off;
against `JinnsModel/SolveLoop.lean` + `JinnsModel/Validation.lean` at the exact family.  All
parameters are tracked, so that "the post-update parameters of iteration i" are observable.
"""
from __future__ import annotations

import copy
import itertools
import json
import os

from harness import solveprog as sp
from harness import c18 as faults

PROP = "C19"
LEVEL_TEXT = ("Lean 4 theorems, for every validation module (an arbitrary function of its state and the parameters, "
              "hence every outcome sequence), every period, n and training program: the module is invoked exactly at the "
              "iterations divisible by the period with the post-update parameters; criterion slot i holds the outcome of "
              "the latest invocation <= i; training stops right after the first invocation that requests it and no later "
              "invocation happens; the best parameters are those of the last improving invocation (initial ones if none). "
              "For the built-in ValidationLoss, for every sequence of loss values and every patience: best = minimum of "
              "earlier values, improvement iff strict new minimum, counter = trailing run of non-improving invocations, "
              "stop requested at the first invocation preceded by `patience` such ones and never when disabled.  Tied to "
              "/repo on every run by exact differential execution of the real jinns.solve with exhaustively enumerated "
              "outcome scripts and with the real ValidationLoss."
              "  Holds.C19VL (outcomes re-derived from the observed criteria by the wording of the property, NaN-aware) is proved of every model run with a ValidationLoss module (holdsC19VL_model; nothing is left partial).")
LEVEL_NOTE = ("Trusted: Lean kernel + {propext, Classical.choice, Quot.sound}; the models' tie to the code is "
              "differential; a NaN criterion is outside the ValidationLoss model (comparison false); the counter / best "
              "value of ValidationLoss are not returned by solve and are observed through their effects (criteria, stop "
              "iteration, best parameters, calls recorded by the validation loss).")
TECHNIQUE = "Lean 4 proof (invariants of the validation schedule and of the patience counter) + exhaustive exact differential correspondence"
THEOREMS = [
    "Jinns.Solve.validation_calls",
    "Jinns.Solve.mem_calls_iff",
    "Jinns.Solve.crit_history",
    "Jinns.Solve.best_params",
    "Jinns.Solve.bestRef_last_improving",
    "Jinns.Solve.bestRef_none",
    "Jinns.Solve.stops_after_first_request",
    "Jinns.Solve.solve_validation_schedule",
    "Jinns.Validation.vl_best_is_min",
    "Jinns.Validation.vl_improved_iff_strict_min",
    "Jinns.Validation.lead_ge_iff",
    "Jinns.Validation.vl_counter_is_trailing_run",
    "Jinns.Validation.vl_stop_iff",
    "Jinns.Validation.vl_first_stop",
    "Jinns.Validation.vl_never_stops_when_disabled",
    "Jinns.Validation.VL_call_spec",
    "Jinns.SolveFamily.valState_sched",
    "Jinns.SolveFamily.outAt_sched",
    "Jinns.SolveFamily.callsRef_sched",
    "Jinns.SolveFamily.holdsC19_model_sched_gen",
    "Jinns.SolveFamily.holdsC19_model_sched",
    "Jinns.SolveFamily.holdsC19_model",
    "Jinns.SolveFamily.holdsC19_model_vl",
    "Jinns.SolveFamily.vlOutcomes_improved",
    "Jinns.SolveFamily.holdsC19VL_model_partial",
    "Jinns.SolveFamily.derImp_eq_model",
    "Jinns.SolveFamily.vl_counter_trailingFalse",
    "Jinns.SolveFamily.vlOutcomes_eq_model",
    "Jinns.SolveFamily.holdsC19VL_model_gen",
    "Jinns.SolveFamily.holdsC19VL_model_driver",
    "Jinns.SolveFamily.holdsC19VL_model",
]
LEAN_MODULES = ["JinnsProofs.C19", "JinnsProofs.C19Holds", "JinnsProofs.C19VL"]
RULE = ("(a) case = (period c in 1..4, script length L, chunk of scripts); every script over the 6 outcomes "
        "{improve, same, worse} x {stop, continue} of length <= 5 (quick) / <= 7 (thorough) is run on the real solve "
        "with n = c*L + 1 (one more invocation than the script length is possible); the model and Holds.C19 are "
        "evaluated once per distinct (script prefix through its first stop request, observation) pair -- scripts that "
        "differ only after their first stop request and give the same observation are one computation; (b) case = one static "
        "configuration x (period, patience 0..3, early on/off) variations with the real ValidationLoss; (c) NaN faults "
        "(every route, k = 0..8 on and off the schedule, periods 1..3) combined with a scripted module (with and "
        "without stop requests) and with the real ValidationLoss on a still-decreasing loss: the failing invocation "
        "must receive the post-update (NaN) parameters, record the criterion computed on them and set / leave the "
        "best parameters accordingly; non-trivial = at "
        "least two invocations and (a stop before n, or an improvement after the first invocation)")
ASSUMPTIONS = [
    "a scripted module returns script[min(counter, L-1)] (harness-side object, replicated in the model)",
    "exact programs: the validation criterion of the built-in module is an exact rational",
]
EXHAUSTIVE = {"quick": True, "thorough": True}
SYMS = "isw" "ISW"        # improve / same / worse ; upper case = requests a stop
CHUNK = 400


def decode(script):
    out, crit = [], 8
    for ch in script:
        low = ch.lower()
        if low == "i":
            crit -= 1
        elif low == "w":
            crit += 1
        out.append([str(crit), low == "i", ch.isupper()])
    return out


def all_scripts(L):
    return ["".join(t) for t in itertools.product(SYMS, repeat=L)]


def canonical_scripts(L):
    """every script of length L up to what follows the first stop request (fillers: continue / stop)"""
    out = set()
    for t in itertools.product("isw", repeat=L):
        out.add("".join(t))
    for s in range(L):
        for pre in itertools.product("isw", repeat=s):
            for st in "ISW":
                rest = L - s - 1
                out.add("".join(pre) + st + "i" * rest)
                out.add("".join(pre) + st + "W" * rest)
    return sorted(out)


def _scripted_base(rng, c, L):
    shape = {"nn": {"w": 1}, "eq": {"nu": 0}}
    n = c * L + 1
    gens = {"data": {"nt": 4, "b": 1, "seed": rng.randrange(1 << 30), "half": True}, "param": None, "obs": None}
    seg = {"n": n, "shape": shape, "gens": gens,
           "opt": {"lr0": "1/4", "bounds": [], "momentum": None, "nan_at": None, "kind": "sgd"},
           "track": sp.full_track(shape), "jit": True,
           "params": sp.random_params(rng, shape),
           # the loss does not report its evaluations here (one debug callback per iteration dominates the run
           # time of 10^4..10^5 runs): the iterations run are read off the history of the "probe" term
           "loss": {"terms": [["dyn_loss", [["1", [0], 1], ["-1", [1], 0]]], ["probe", [["1", [], 0]]]],
                    "mark": None, "grad_fault": []},
           "record": False,
           "val": {"kind": "scripted", "call_every": c, "script": None}}
    return seg


def _vl_base(rng, n, kind, vaux):
    shape = rng.choice(sp.PSHAPES)
    gens = sp.random_gens(rng, with_aux=True, bmax=2)
    seg = {"n": n, "shape": shape, "gens": gens, "opt": sp.random_opt(rng, rng.choice(["sgd", "momentum", "schedule"])),
           "track": sp.full_track(shape), "jit": True, "params": sp.random_params(rng, shape)}
    if n > 16:
        seg["opt"]["momentum"] = None
        seg["opt"]["kind"] = seg["opt"]["kind"].replace("momentum", "sgd")
    nflat = sum(sp.leaf_sizes(seg["params"]))
    seg["loss"] = sp.random_loss(rng, nflat, gens)
    vg = sp.random_gens(rng, with_aux=True, bmax=2)
    vg["data"]["b"] = rng.choice([1, 2])
    vg["data"]["nt"] = max(vg["data"]["nt"], 2 * vg["data"]["b"])      # at least two distinct own batches
    # the validation module's own auxiliary generators are fixed by the case index (not left to chance),
    # so that every run has modules owning a parameter generator, an observation generator, both, none
    vb = vg["data"]["b"]
    vg["param"] = ({"n": rng.choice([x for x in (2, 3, 4, 6) if x >= vb]), "seed": rng.randrange(1 << 30),
                    "keys": ["nu"]} if "param" in vaux else None)
    if "obs" in vaux:
        no = rng.choice([x for x in (3, 4, 5, 8) if x >= vb])
        vg["obs"] = {"n": no, "seed": rng.randrange(1 << 30), "vals": [rng.randint(-3, 3) for _ in range(no)]}
    else:
        vg["obs"] = None
    if kind == "plateau":
        # the criterion only depends on a parameter the training loss never moves: equal values from
        # the second invocation on (non-strict "improvements" must not count)
        used = {i for _, ms in seg["loss"]["terms"] for m in ms for i in m[1]}
        free = [i for i in range(nflat) if i not in used] or [0]
        vloss = {"terms": [["dyn_loss", [["1", [free[0]], 0]]]], "mark": None, "grad_fault": []}
    elif kind == "staircase":
        vloss = {"terms": [["dyn_loss", [[str(rng.choice([-1, 1])), [rng.randrange(nflat)], 0],
                                         ["1", [], rng.choice([1, 2])]]]], "mark": None, "grad_fault": []}
    else:
        vloss = sp.random_loss(rng, nflat, vg, nterms=rng.randint(1, 2))
    seg["val"] = {"kind": "vloss", "call_every": 1, "patience": 0, "early": True, "loss": vloss, "gens": vg,
                  "vkind": kind}
    return seg


def gen_cases(rng, tier):
    cases = []
    Lfull = int(os.environ.get("C19_LFULL", 5 if tier == "quick" else 7))   # (override: development only)
    for c in (1, 2, 3, 4):
        for L in range(1, Lfull + 1):
            scripts = all_scripts(L)
            base = _scripted_base(rng, c, L)
            for off in range(0, len(scripts), CHUNK):
                cases.append({"mode": "scripted", "seg": base, "scripts": scripts[off:off + CHUNK],
                              "exhaustive": L <= Lfull})
    # the same loop through a plain (not jit-wrapped) call, a few scripts per period
    for c in (1, 2, 3, 4):
        base = _scripted_base(rng, c, 4)
        base["jit"] = False
        base["record"] = True
        cases.append({"mode": "scripted", "seg": base, "scripts": rng.sample(all_scripts(4), 3), "exhaustive": False})
    # the Python-loop path of solve (obs_batch_sharding), with an observation generator
    for c in ((2,) if tier == "quick" else (1, 2, 3, 4)):
        base = _scripted_base(rng, c, 4)
        base["gens"]["obs"] = {"n": 4, "seed": rng.randrange(1 << 30), "vals": [rng.randint(-3, 3) for _ in range(4)],
                               "sharding_device": True}
        base["loss"]["terms"][0][1].append(["1", [1], 3])       # the observation batch enters the loss
        base.update(jit=False, record=True, sharding=True)
        cases.append({"mode": "scripted", "seg": base, "exhaustive": False,
                      "scripts": ["iswi", "isSi", "wWii", "sssI"] + rng.sample(all_scripts(4), 2 if tier == "quick" else 12)})
    # (b) the real ValidationLoss
    nb = 6 if tier == "quick" else 30
    for bi in range(nb):
        n = rng.choice([8, 12, 12, 16, 20])
        base = _vl_base(rng, n, ["plateau", "random", "staircase", "random"][bi % 4],
                        [("param", "obs"), ("obs",), (), ("param",), ("obs",), ("param", "obs")][bi % 6])
        variants = []
        for c in (1, 2, 3):
            for pat in (0, 1, 2, 3):
                for early in (True, False):
                    if tier == "quick" and rng.random() < 0.5 and not (pat <= 1 and early) \
                            and not (pat == 0 and not early):
                        continue
                    variants.append({"call_every": c, "patience": pat, "early": early})
        cases.append({"mode": "vloss", "seg": base, "variants": variants})
        if bi % 2 == 0:
            # a NaN criterion on FINITE parameters (the validation loss is singular on one of its own batches),
            # followed by lower finite criteria: a NaN is never an improvement and never becomes the minimum
            vn = copy.deepcopy(base)
            vn["val"]["vkind"] = "decreasing+nan"
            nflat = sum(sp.leaf_sizes(vn["params"]))
            vn["loss"] = {"terms": [["dyn_loss", [["1", [i], 0] for i in range(nflat)]]], "mark": None,
                          "grad_fault": []}
            zf = sp.n_features(vn["val"]["gens"]) - 1
            vn["val"]["loss"] = {"terms": [["dyn_loss", [["1", [i], 0] for i in range(nflat)] + [["1", [], zf]]]],
                                 "mark": None, "grad_fault": []}
            vn["val"]["gens"]["data"]["nt"] = max(vn["val"]["gens"]["data"]["nt"], 3 * vn["val"]["gens"]["data"]["b"])
            cases.append({"mode": "vloss", "seg": vn, "vnan": rng.choice([1, 2]),
                          "variants": [{"call_every": c, "patience": pat, "early": early}
                                       for c in (1, 2) for pat in (1, 2, 3) for early in (True, False)
                                       if tier != "quick" or rng.random() < 0.6]})
        if bi % 3 == 0:
            plain = copy.deepcopy(base)
            plain["jit"] = False
            cases.append({"mode": "vloss", "seg": plain, "variants": rng.sample(variants, 2)})
        if bi == 1 or (tier != "quick" and bi % 6 == 1):
            sh = copy.deepcopy(base)
            if sh["gens"]["obs"] is None:
                b = sh["gens"]["data"]["b"]
                sh["gens"]["obs"] = {"n": max(4, b), "seed": rng.randrange(1 << 30),
                                     "vals": [rng.randint(-3, 3) for _ in range(max(4, b))]}
            sh["gens"]["obs"]["sharding_device"] = True
            sh.update(jit=False, sharding=True, n=min(sh["n"], 8))
            cases.append({"mode": "vloss", "seg": sh, "variants": rng.sample(variants, 3)})
    # NaN faults combined with a validation module (the groups of C18: scripted / real ValidationLoss,
    # every route, k = 0..8 on and off the schedule, no stop request) ...
    for g in faults.fault_val_groups(rng, tier):
        cases.append({"mode": "fault", "seg": g[0], "segs": g})
    # ... and with scripts that do request stops, before, at and after the failing iteration
    for c in (1, 2, 3):
        base = faults._base(rng, 9, opt_kind="sgd")
        base["track"] = sp.full_track(base["shape"])
        seg = faults._with_route(rng, base, ["opt", "loss", "grad-eq"][c - 1])
        L = 9 // c + 2
        scs = ["i" * L, "iiI" + "i" * (L - 3), "sI" + "i" * (L - 2)] + \
              ["".join(rng.choice(SYMS) for _ in range(L)) for _ in range(3 if tier == "quick" else 12)]
        for sc in scs:
            cases.append({"mode": "fault", "script": sc, "seg": seg,
                          "segs": [{**seg, "k": k, "val": {"kind": "scripted", "call_every": c,
                                                           "script": faults.script_outcomes(sc)}}
                                   for k in ((0, 1, 2, 3, 4, 6) if tier == "quick" else range(9))]})
    # the (slow, eager) Python-loop cases go first so that they overlap with the bulk of the work
    def _slow(c):
        return bool((c.get("seg") or c["segs"][0]).get("sharding"))
    return [c for c in cases if _slow(c)] + [c for c in cases if not _slow(c)]


def shrink_candidates(case):
    if case["mode"] == "fault":
        if len(case["segs"]) > 1:
            for sg in case["segs"]:
                yield {**case, "segs": [sg], "seg": sg}
        return
    if case["mode"] == "scripted":
        if len(case["scripts"]) > 1:
            for s in case["scripts"]:
                yield {**case, "scripts": [s]}
            return
        s = case["scripts"][0]
        c = case["seg"]["val"]["call_every"]
        if len(s) > 1:
            for t in (s[:-1], s[1:]):
                yield {**case, "scripts": [t], "seg": {**case["seg"], "n": c * len(t) + 1}}
    else:
        if len(case["variants"]) > 1:
            for v in case["variants"]:
                yield {**case, "variants": [v]}
            return
        seg = case["seg"]
        for n in sorted({2, 4, seg["n"] // 2}):
            if 1 <= n < seg["n"]:
                yield {**case, "seg": {**seg, "n": n}}


def _segments(case, vbatches=None):
    seg = case["seg"]
    if case.get("vnan") is not None and vbatches is not None:
        # the validation loss is NaN on every own batch that contains the first point of own batch `vnan`
        seg = copy.deepcopy(seg)
        seg["val"]["loss"]["mark"] = sp.first_point(vbatches[int(case["vnan"])])
    if case["mode"] == "scripted":
        for s in case["scripts"]:
            yield {**seg, "val": {**seg["val"], "script": decode(s)}}
    else:
        for v in case["variants"]:
            yield {**seg, "val": {**seg["val"], **v}}


def prefix_key(script):
    """the script through its first stop request (what the loop can depend on)"""
    for i, ch in enumerate(script):
        if ch.isupper():
            return script[:i + 1]
    return script


def _run_fault(case):
    """mode "fault": each segment has its own fault position; the marked point comes from the replay"""
    out = {"runs": [], "uniq": [], "rep": [], "index": []}
    for i, seg in enumerate(case["segs"]):
        data, pdata, odata = sp.build_generators(seg["gens"])
        batches, fps = sp.replay(data, pdata, odata, int(seg["n"]))
        rs = faults._resolved(seg, batches)
        obs, _ = sp.run_segment(rs)
        rec = {"batches": batches, "gens": fps}
        if seg["val"]["kind"] == "vloss":
            vd, vp, vo = sp.build_generators(seg["val"]["gens"])
            rec["vbatches"], _ = sp.replay(vd, vp, vo, int(seg["n"]))
        out["runs"].append(rec)
        out["uniq"].append(obs)
        out["rep"].append(i)
        out["index"].append(i)
    return out


def run_impl(case):
    if case["mode"] == "fault":
        return _run_fault(case)
    seg = case["seg"]
    data, pdata, odata = sp.build_generators(seg["gens"])
    batches, fps = sp.replay(data, pdata, odata, int(seg["n"]))
    out = {"batches": batches, "gens": fps}
    if case["mode"] == "vloss":
        vd, vp, vo = sp.build_generators(seg["val"]["gens"])
        out["vbatches"], _ = sp.replay(vd, vp, vo, int(seg["n"]))
        out["uniq"] = [sp.run_segment(s)[0] for s in _segments(case, out["vbatches"])]
        out["rep"] = list(range(len(out["uniq"])))
        out["index"] = list(range(len(out["uniq"])))
        return out
    # scripted: every script is run; identical (prefix through first stop, observation) pairs are kept once
    seen, uniq, rep, index = {}, [], [], []
    for i, (script, s) in enumerate(zip(case["scripts"], _segments(case))):
        obs, _ = sp.run_segment(s)
        key = (prefix_key(script), json.dumps(obs, sort_keys=True))
        if key not in seen:
            seen[key] = len(uniq)
            uniq.append(obs)
            rep.append(i)
        index.append(seen[key])
    out.update(uniq=uniq, rep=rep, index=index)
    return out


def lean_request(case, obs):
    if case["mode"] == "fault":
        reqs = []
        for seg, rec, o in zip(case["segs"], obs["runs"], obs["uniq"]):
            rs = faults._resolved(seg, rec["batches"])
            reqs.append({"op": "c19", "prog": sp.lean_prog(rs, rec["batches"], rec["gens"],
                                                             vbatches=rec.get("vbatches")), "obs": o})
        return reqs
    segs = list(_segments(case, obs.get("vbatches")))
    reqs = []
    for o, i in zip(obs["uniq"], obs["rep"]):
        reqs.append({"op": "c19", "prog": sp.lean_prog(segs[i], obs["batches"], obs["gens"],
                                                         vbatches=obs.get("vbatches")), "obs": o})
    return reqs


def _label(case, i):
    if case["mode"] == "fault":
        sg = case["segs"][i]
        return {"route": sg["route"], "k": sg["k"], "module": sg["val"]["kind"], "period": sg["val"]["call_every"]}
    return case["scripts"][i] if case["mode"] == "scripted" else case["variants"][i]


def judge(case, obs, answers):
    obs["_fault_at"] = [a.get("fault_at") for a in answers]
    for u, a in enumerate(answers):
        if not a["holds"]:
            return {"status": "violation", "clause": a["clause"], "which": _label(case, obs["rep"][u])}
    for u, a in enumerate(answers):
        if not a["agree"]:
            return {"status": "disagree", "clause": "model-differs:" + ",".join(a["differs"]),
                    "which": _label(case, obs["rep"][u]), "model": a["model"]}
    return {"status": "ok", "clause": None}


def nontrivial(case, obs):
    n = case["seg"]["n"]
    for o in obs["uniq"]:
        if "error" in o or len(o["calls"]) < 2:
            continue
        if o["iters"] < n or o["best"] != o["calls"][0]["params"]:
            return True
    return False


def tags(case, obs):
    seg = case["seg"]
    out = [f"mode={case['mode']}", "python_loop(obs_batch_sharding)" if seg.get("sharding") else
           ("jit_wrapped" if seg.get("jit", True) else "plain_call")]
    if case["mode"] == "fault":
        sg = case["segs"][0]
        c = sg["val"]["call_every"]
        out.append(f"fault_route={sg['route']}/module={sg['val']['kind']}/period={c}")
        for k in obs.get("_fault_at", []):
            if k is not None:
                out.append("fault_on_validation_schedule" if k % c == 0 else "fault_off_validation_schedule")
        out += ["fault_run"] * len(case["segs"])
    elif case["mode"] == "scripted":
        out.append(f"period={seg['val']['call_every']}")
        out.append(f"script_len={len(case['scripts'][0])}" + ("" if case.get("exhaustive") else "(canonical/sample)"))
        out += ["scripted_run"] * len(case["scripts"])
    elif case["mode"] == "vloss":
        out.append(f"vloss={seg['val']['vkind']}")
        out += ["validation_loss_run"] * len(case["variants"])
        if seg["val"]["gens"]["param"]:
            out.append("validation_param_generator")
        if seg["val"]["gens"]["obs"]:
            out.append("validation_obs_generator")
    stopped = sum(1 for o in obs["uniq"] if "error" not in o and o["iters"] < seg["n"])
    out += ["model_evaluation"] * len(obs["uniq"])
    if stopped:
        out.append("some_run_stopped_early")
    return out


def widen(rng, bad_cases):
    out = []
    for c in bad_cases:
        if c["mode"] == "scripted":
            for L in (1, 2, 3):
                cc = c["seg"]["val"]["call_every"]
                out.append({**c, "scripts": all_scripts(L), "seg": {**c["seg"], "n": cc * L + 1}})
    return out
