"""
C17 — refinement adds the highest-residual candidates and keeps active points.
Correspondence: real `trigger_rar` (guarded hook on) interleaved with real `get_batch` draws, and the
real `jinns.solve`, on the three generator kinds, against JinnsModel/RarSelect.lean.
"""
from __future__ import annotations

from fractions import Fraction

from harness import rarlib

PROP = "C17"
LEVEL_TEXT = ("Lean 4 theorems, for every residual vector / table, candidate and selected sizes, initial counts (time "
              "and space equal or not) and every history of refinement steps interleaved with batch draws and "
              "reshuffles: the chosen indices are `selected` distinct candidates whose residuals dominate all "
              "non-chosen ones (product domains: the max(sel_t, sel_x) best (time, space) pairs by decreasing "
              "residual, time points = rows of the first sel_t, space points = columns of the first sel_x); a step "
              "writes only into [n_eff, n_eff + selected), which was inactive, leaves every previously active slot "
              "unchanged and active, and after any history the active points are the initial ones plus all chosen "
              "candidates — separately for time and space with their own offsets.  The model is tied to /repo on "
              "every run by exact differential execution (candidates, residuals and chosen indices through the "
              "guarded hook; residuals recomputed exactly from the polynomial network), and Holds.C17 is evaluated on "
              "the implementation's own histories."
              "  Holds.C17 itself is proved of every record of every history of refinement steps interleaved with draws and reshuffles of the model, for the three generator kinds (holdsC17_model_history, holdsC17_model_step).")
LEVEL_NOTE = ("Trusted: Lean kernel + {propext, Classical.choice, Quot.sound}; the hand-written selection/store "
              "model's tie to the code is differential (sees the generated sizes and histories); the PRNG is an oracle: "
              "candidates come from the hook (their membership in the domain is checked), a reshuffle is the observed "
              "store with the contract 'zero-probability slots stay last' checked on each one; argsort / top_k are "
              "modelled as stable sorts, ties being accepted in any order; the residual landscape is a quantised "
              "polynomial so that float64 evaluation is exact.")
TECHNIQUE = ("Lean 4 proof (sortedness + permutation of a stable argsort, store-update lemmas, induction over histories "
             "of draws and steps) + differential correspondence with PRNG and residuals as oracles")
THEOREMS = [
    "Jinns.Rar.sortBy_perm",
    "Jinns.Rar.sortBy_sorted",
    "Jinns.Rar.selectTop_spec",
    "Jinns.Rar.topK_spec",
    "Jinns.Rar.topPairs_spec",
    "Jinns.Rar.selectTop_passes_topCheck",
    "Jinns.Rar.topPairs_passes_pairsCheck",
    "Jinns.Rar.selectTop_passes_topCheck_rat",
    "Jinns.Rar.topPairs_passes_pairsCheck_rat",
    "Jinns.Rar.updateStore_length",
    "Jinns.Rar.add_keeps_active_slots",
    "Jinns.Rar.add_writes_only_new_slots",
    "Jinns.Rar.add_active",
    "Jinns.Rar.new_slots_were_inactive",
    "Jinns.Rar.draw_active_perm",
    "Jinns.Rar.run_active",
    "Jinns.Rar.run_active_mono",
    "Jinns.Rar.run2_active",
    "Jinns.Rar.genInv_init",
    "Jinns.Rar.gen_trigger_refines",
    "Jinns.Rar.gen_getBatch_inv",
    "Jinns.Rar.gen_run_active",
    "Jinns.Rar.add_passes_sideCheck",
    "Jinns.Rar.holdsC17_model_step_single",
    "Jinns.Rar.holdsC17_model_step_product",
    "Jinns.Rar.holdsC17_model_step",
    "Jinns.Rar.model_step_active",
    "Jinns.Rar.holdsC17_model_draw",
    "Jinns.Rar.holdsC17_model_history",
    "Jinns.Rar.holdsC17_model_history_each",
    "Jinns.Rar.holdsC17_model_history_step",
    "Jinns.Rar.holdsC17_model_history_init",
    "Jinns.Rar.holdsC17_model_summary",
    "Jinns.Rar.runM_eq_runOps",
]
LEAN_MODULES = ["JinnsProofs.C17", "JinnsProofs.C17Holds"]
RULE = ("cases = (generator kind, allocation / initial / selected / candidate sizes, batch sizes, schedule, a history "
        "of get_batch draws and trigger_rar calls with a network shift per call | a jinns.solve run); every step is "
        "observed with its candidates, reported and exactly recomputed squared residuals, chosen indices, stores and "
        "probability patterns before/after; non-trivial = at least one step chooses among strictly more candidates "
        "than it selects and (trigger mode) a reshuffle is observed after a step; distinct = distinct case dicts")
ASSUMPTIONS = [
    "points are identified by their float64 value (two draws of the PRNG coincide with probability ~ 0)",
    "jax.random.choice(replace=False, p) keeps zero-probability entries last (validated on every observed reshuffle)",
    "the candidates, residuals and indices reported by the guarded hook are those the step uses (the hook sits "
    "between the selection and the store update); the reported residuals are compared with exact ones",
    "legal configurations (Holds.legalCfg of C16) must run: their rejection at construction or trace time is the "
    "Holds clause valid-configuration-rejected; a selected set larger than the sample or the store is illegal",
    "system losses (ODE / stationary): the residual of a candidate is the sum over the equations of the squared "
    "residuals, which is what the code computes",
]
EXHAUSTIVE = {"quick": False, "thorough": False}

# kind, dim, (nt, ntStart, selT, sampT, bT), (n, nStart, selX, sampX, bX)
_STATICS = [
    ("ode", 0, (12, 3, 2, 5, 2), None),
    ("ode", 0, (10, 2, 4, 8, 1), None),
    ("ode", 0, (9, 4, 1, 1, 2), None),
    ("ode", 0, (16, 2, 3, 6, 2), None),
    ("statio", 2, None, (12, 4, 2, 6, 2)),
    ("statio", 2, None, (10, 1, 3, 3, 1)),
    ("statio", 2, None, (14, 3, 4, 8, 1)),
    ("nonstatio", 2, (8, 2, 2, 4, 2), (12, 3, 3, 5, 1)),
    ("nonstatio", 2, (10, 4, 1, 3, 2), (8, 2, 2, 2, 2)),
    ("nonstatio", 2, (9, 1, 3, 4, 1), (9, 3, 1, 4, 1)),
    ("nonstatio", 2, (8, 3, 2, 3, 1), (8, 3, 2, 3, 1)),
    ("nonstatio", 2, (14, 8, 1, 3, 2), (12, 2, 2, 4, 2)),      # nt_start = n_start + 3*sel_x
    ("nonstatio", 2, (12, 2, 2, 4, 1), (16, 9, 1, 3, 2)),      # n_start = nt_start + 3.5*sel_t
    ("statio", 1, None, (11, 3, 2, 5, 2)),                     # 1-D space domain
    ("nonstatio", 1, (8, 2, 2, 4, 1), (10, 4, 3, 5, 2)),       # 1-D space domain
]
# systems of two equations (SystemLossODE / SystemLossPDE): residual = sum of the squared residuals
_SYSTEMS = [
    ("ode", 0, (10, 2, 2, 5, 2), None),
    ("statio", 2, None, (10, 3, 2, 5, 1)),
]


def _base(rng, kind, dim, T, X, mode):
    nt, ntStart, selT, sampT, bT = T if T else (0, 0, 0, 0, 0)
    n, nStart, selX, sampX, bX = X if X else (0, 0, 0, 0, 0)
    case = {"kind": kind, "mode": mode, "dim": dim if X else 0,
            "nt": nt, "ntStart": ntStart, "selT": selT, "sampT": sampT, "bT": bT,
            "n": n, "nStart": nStart, "selX": selX, "sampX": sampX, "bX": bX,
            "Q": 64, "tmin": -1, "tmax": 2, "xmin": [-2, 0][:dim if X else 0], "xmax": [1, 2][:dim if X else 0],
            "a0": rarlib.core.qstr(Fraction(rng.randint(-8, 8), 4)), "seed": rng.randrange(1 << 30)}
    if case["seed"] % 2 == 0:
        # a time interval away from 0 (candidates drawn as tmin + U(0, tmax) would leave it)
        case["tmin"], case["tmax"] = 1, 3
    case["poly"] = rarlib.random_landscape(rng, rarlib.nvars_of(case)).to_json()
    return case


def _history(rng, case, n_trig, max_draws):
    """0..max_draws draws between consecutive trigger calls"""
    ops, i = [], 0
    # (a second solve on the returned generator: `init_rar` again and the iteration number restarts)
    reinit_at = rng.randint(case["start"] + 1, max(case["start"] + 1, n_trig - 2)) if (n_trig >= case["start"] + 3 and rng.random() < 0.5) else None
    for k in range(n_trig):
        if k == reinit_at:
            ops.append(["reinit"])
            i = 0
        for _ in range(rng.randint(0, max_draws)):
            ops.append(["draw"])
        ops.append(["trigger", i, rarlib.core.qstr(Fraction(rng.randint(-12, 12), 4))])
        i += 1
    for _ in range(rng.randint(0, max_draws)):
        ops.append(["draw"])
    return ops


def _random_static(rng, kind):
    def store():
        sel = rng.randint(1, 4)
        samp = rng.randint(sel, min(8, sel + 4))
        n_start = rng.randint(1, 5)
        # the store holds at least one selected set (jax rejects a larger update at trace time)
        n = max(sel, n_start + sel * rng.randint(0, 4) + rng.randint(0, sel - 1))
        b = rng.choice([1, 2]) if n_start >= 2 else 1
        return (n, n_start, sel, samp, b)
    T = store() if rarlib.has_t(kind) else None
    X = store() if rarlib.has_x(kind) else None
    if T and X and abs(T[2] - X[2]) > 2:
        # keep the enumeration of Holds.C17 (pairs with one free coordinate) small
        selX = T[2]
        X = (max(X[0], selX), X[1], selX, max(X[3], selX), X[4])
    return (kind, 2 if X else 0, T, X)


def gen_cases(rng, tier):
    cases = []
    scheds = [(0, 1), (0, 1), (1, 1), (0, 2), (1, 2)]
    if tier == "quick":
        statics = [_STATICS[0], _STATICS[1], _STATICS[4], _STATICS[6], _STATICS[7], _STATICS[9], _STATICS[10],
                   _STATICS[11], _STATICS[12], _STATICS[13], _STATICS[14]]
        per_static, n_solve = 6, 1
    else:
        statics = list(_STATICS) + [_random_static(rng, k) for k in ("ode", "statio", "nonstatio") for _ in range(6)]
        per_static, n_solve = 14, 4
    for kind, dim, T, X in statics:
        base = _base(rng, kind, dim, T, X, "trigger")
        cap = rarlib.cap_of({**base, "kind": kind})
        for _ in range(per_static):
            c = dict(base)
            c["start"], c["every"] = rng.choice(scheds)
            c["seed"] = rng.randrange(1 << 30)
            n_trig = min(8, c["start"] + c["every"] * (cap + 1) + rng.randint(0, 1))
            c["ops"] = _history(rng, c, n_trig, rng.choice([1, 3, 5]))
            cases.append(c)
    for kind, dim, T, X in _SYSTEMS:
        base = _base(rng, kind, dim, T, X, "trigger")
        base["system"] = True
        base["poly2"] = rarlib.random_landscape(rng, rarlib.nvars_of(base)).to_json()
        cap = rarlib.cap_of(base)
        for _ in range(3 if tier == "quick" else 10):
            c = dict(base)
            c["start"], c["every"] = rng.choice(scheds)
            c["seed"] = rng.randrange(1 << 30)
            c["ops"] = _history(rng, c, min(8, c["start"] + c["every"] * (cap + 1)), rng.choice([1, 3]))
            cases.append(c)
    # a selected set larger than the store: jax rejects the program when trigger_rar is traced
    big = _base(rng, "ode", 0, (3, 2, 4, 5, 1), None, "trigger")
    big.update(start=0, every=1, ops=[["draw"], ["trigger", 0, "0"]], expect_error="type_error")
    cases.append(big)
    solve_statics = [_STATICS[0], _STATICS[4], _STATICS[7], _STATICS[9], _STATICS[14]]
    for kind, dim, T, X in solve_statics:
        base = _base(rng, kind, dim, T, X, "solve")
        cap = rarlib.cap_of(base)
        for _ in range(n_solve):
            c = dict(base)
            c["start"], c["every"] = rng.choice([(0, 1), (1, 2), (2, 3), (0, 2)])
            c["seed"] = rng.randrange(1 << 30)
            c["n_iter"] = c["start"] + c["every"] * cap + 2
            cases.append(c)
    return cases


def shrink_candidates(case):
    if case["mode"] == "trigger":
        ops = case["ops"]
        n = len(ops)
        for m in sorted({n // 2, n - 1}):
            if 1 <= m < n:
                yield {**case, "ops": ops[:m]}
        # drop one draw
        for k, op in enumerate(ops):
            if op[0] == "draw":
                yield {**case, "ops": ops[:k] + ops[k + 1:]}
                break
    else:
        n = case["n_iter"]
        for m in sorted({n // 2, n - 1}):
            if 1 <= m < n:
                yield {**case, "n_iter": m}


def run_impl(case):
    return rarlib.run(case)


def lean_request(case, obs):
    req = {"op": "c17", "cfg": rarlib.cfg_json(case), "sizes": rarlib.sizes_json(case)}
    if "error" in obs:
        return {**req, "rejected": obs["error"]}
    init = obs["init"]
    evs = []
    for e in obs["events"]:
        e = {k: v for k, v in e.items() if k not in ("a", "hook", "finite", "n_hook_records", "hook_iter_nb")}
        if case["mode"] == "solve":
            e["light"] = True
        evs.append(e)
    if case["mode"] == "solve":
        evs.append({"ev": "final", **obs["final"]})
    return {**req, "bT": case["bT"], "bX": case["bX"],
            "storeT0": init.get("storeT", []), "storeX0": init.get("storeX", []),
            "pT0": init.get("pT", []), "pX0": init.get("pX", []),
            "tlo": [str(case["tmin"])], "thi": [str(case["tmax"])],
            "xlo": [str(v) for v in case["xmin"]], "xhi": [str(v) for v in case["xmax"]],
            "events": evs}


def judge(case, obs, answer):
    if "error" in obs:
        # Holds.C17: a legal configuration must not be rejected (constructor or trace time)
        if not answer["holds"]:
            return {"status": "violation", "clause": answer["clause"], "error": obs["error"],
                    "message": obs.get("message")}
        return {"status": "ok", "clause": None}
    if not answer["legal"]:
        return {"status": "disagree", "clause": "accepted-although-the-model-rejects"}
    if not answer["holds"]:
        return {"status": "violation", "clause": answer["clause"]}
    if any(e.get("n_hook_records", 0) > 1 for e in obs["events"]):
        return {"status": "violation", "clause": "several-steps-in-one-trigger"}
    if not answer["oracle_contract"]:
        return {"status": "violation", "clause": "draw-changed-the-active-points"}
    if case["mode"] == "solve" and obs["n_ticks"] != case["n_iter"]:
        return {"status": "disagree", "clause": "solve-ran-another-number-of-iterations"}
    if not answer["agree"]:
        return {"status": "disagree", "clause": "model-trace-differs", "where": answer["disagreement"]}
    return {"status": "ok", "clause": None}


def _step_events(obs):
    return [e for e in obs.get("events", []) if e["ev"] == "trigger" and e["stepped"]]


def nontrivial(case, obs):
    if "error" in obs:
        return False
    if not _step_events(obs):
        return False
    real_choice = (rarlib.has_t(case["kind"]) and case["selT"] < case["sampT"]) or (
        rarlib.has_x(case["kind"]) and case["selX"] < case["sampX"])
    if not real_choice:
        return False
    if case["mode"] == "solve":
        return True
    seen_step = False
    for e in obs["events"]:
        if e["ev"] == "trigger" and e["stepped"]:
            seen_step = True
        elif e["ev"] == "draw" and seen_step and (e.get("resetT") or e.get("resetX")):
            return True
    return False


def tags(case, obs):
    if "error" in obs:
        return ["rejected:" + obs["error"]]
    st = _step_events(obs)
    out = [f"kind={case['kind']}", f"mode={case['mode']}", f"dim={case['dim']}", f"steps={len(st)}"]
    if case.get("system"):
        out.append("system-loss")
    ties = False
    for e in st:
        flat = e["exact"] if case["kind"] != "nonstatio" else [v for row in e["exact"] for v in row]
        if len(set(flat)) < len(flat):
            ties = True
    out.append("residual-ties" if ties else "residuals-distinct")
    if case["kind"] == "nonstatio":
        out.append("nt_start==n_start" if case["ntStart"] == case["nStart"] else "nt_start!=n_start")
        out.append("selT==selX" if case["selT"] == case["selX"] else "selT!=selX")
    if case["mode"] == "trigger" and any(op[0] == "reinit" for op in case["ops"]):
        out.append("second_init_rar(resumed run)")
    if case["mode"] == "trigger":
        out.append(f"reshuffles={sum(1 for e in obs['events'] if e['ev'] == 'draw' and (e.get('resetT') or e.get('resetX')))}")
    return out


def widen(rng, bad_cases):
    out = []
    for c in bad_cases:
        if c["mode"] != "trigger":
            continue
        for _ in range(12):
            d = dict(c)
            d["seed"] = rng.randrange(1 << 30)
            d["start"], d["every"] = rng.choice([(0, 1), (1, 1), (0, 2)])
            d["ops"] = _history(rng, d, 6, rng.choice([1, 3, 5]))
            out.append(d)
    return out
