"""
C07 — solve() is observationally the textbook mini-batch training loop.
Correspondence: the real `jinns.solve` (compiled `lax.while_loop`) on exact programs
(harness/solveprog.py) against `JinnsModel/SolveLoop.lean` instantiated at the exact family
(`JinnsModel/SolveFamily.lean`); `Holds.C07` compares the observation with the trace of the
five-line reference loop on the batches of the generators passed in (replayed outside the loop).
"""
from __future__ import annotations

import copy
from fractions import Fraction
import json

from harness import solveprog as sp

PROP = "C07"
LEVEL_TEXT = ("Lean 4 theorems, for every loss/optimizer (update), batch source, NaN predicate, tracking projection, "
              "validation module and iteration count: when no parameter is NaN and no validation call requests a stop, "
              "solve runs exactly n iterations and its returned parameters, optimizer state, generators, loss/term/"
              "tracked histories are those of the textbook loop refLoop; history entry i is the loss at the pre-update "
              "parameters on the i-th batch, tracked entry i the post-update value; a run resumed from the returned "
              "(params, opt_state, generators) continues the single run (histories concatenate).  The model is tied to "
              "/repo on every run by exact differential execution of the real compiled jinns.solve on exact programs "
              "(sgd, momentum, piecewise-constant schedules, ODE/parameter/observation generators, tracked holes, "
              "n in 0..40, resumed runs), the whole 9-tuple compared by equality.")
LEVEL_NOTE = ("Trusted: Lean kernel + {propext, Classical.choice, Quot.sound}; the hand-written loop model's tie to "
              "the code is differential (sees the generated programs); loss/AD/optax are parameters of the theorems and "
              "an exact polynomial family with symbolic gradients in the executable instance; PRNG shuffles are oracle "
              "inputs (the generators passed in are replayed outside the loop); n_iter = 0 is rejected by the code "
              "(IndexError while tracing) and modelled as such; solve returns only the main data generator, so resumed "
              "runs with parameter/observation generators restart those (checked as independent runs).")
TECHNIQUE = "Lean 4 proof (refinement of a while loop to the reference loop by induction) + exact differential correspondence"
THEOREMS = [
    "Jinns.Solve.whileLoop_eq_iter",
    "Jinns.Solve.solve_exits",
    "Jinns.Solve.solve_runs_n_iterations",
    "Jinns.Solve.solve_refines_refLoop",
    "Jinns.Solve.refLoop_gens",
    "Jinns.Solve.refLoop_entry",
    "Jinns.Solve.solve_history_entry",
    "Jinns.Solve.refLoop_resume",
    "Jinns.Solve.solve_resume",
    "Jinns.Solve.unstopped_of_no_validation",
    "Jinns.Solve.unstopped_of_never_stop",
    "Jinns.Solve.solve_is_iter",
    "Jinns.Solve.solve_i_le",
    "Jinns.SolveFamily.refStates_eq",
    "Jinns.SolveFamily.holdsC07_model",
    "Jinns.SolveFamily.holdsC07_model_no_validation",
]
LEAN_MODULES = ["JinnsProofs.C07", "JinnsProofs.C07Holds"]
RULE = ("case = one static configuration (parameter pytree shape, loss structure, optimizer, tracked spec, generator "
        "sizes, n, jit-wrapped or plain call) x several data variations (initial values, coefficients, PRNG seeds); "
        "resume cases run n then m iterations from the returned (params, opt_state, data) and are judged alone and "
        "concatenated against a single reference run of n+m; non-trivial = n >= 2, at least two distinct batches were "
        "trained on, the parameters moved and the loss history is not constant"
        " Plus: non-stopping validation modules with full tracking, verbose mode, +infinity in a parameter leaf no term reads (finite stand-in in the model), and a probe flavour without model: the compiled solve against the harness's own textbook loop on real LossPDEStatio / LossPDENonStatio with CubicMesh + parameter / observation generators, in x64 and in the default precision (rounding rule).")
ASSUMPTIONS = [
    "jax.value_and_grad returns the derivative of the (polynomial) loss; optax sgd/trace/schedule compute the documented "
    "updates (instantiated symbolically in JinnsModel/SolveFamily.lean, validated by every exact run)",
    "the batch stream of a generator is a function of the generator passed in (replayed outside the loop, C09/C20)",
    "every float64 operation of the generated programs is exact (small dyadics; cases whose model values exceed 50 "
    "significant bits are counted under skipped_inexact and not judged)",
]
EXHAUSTIVE = {"quick": False, "thorough": False}
BITS_LIMIT = 50


# ------------------------------------------------------------------------------------------------
INF_STANDIN = "7"


def _standin(x):
    """the same JSON value with every +infinity replaced by the model's finite stand-in"""
    if isinstance(x, str):
        return INF_STANDIN if x == sp.INF else x
    if isinstance(x, list):
        return [_standin(v) for v in x]
    if isinstance(x, dict):
        return {k: _standin(v) for k, v in x.items()}
    return x


def _structure(rng, n, kind, aux=True, sharding=False, inf_leaf=False):
    shape = rng.choice(sp.PSHAPES)
    gens = sp.random_gens(rng, with_aux=aux)
    if sharding:
        # second execution path of solve (obs_batch_sharding: get_batch_sharding + Python while loop):
        # parameter and observation generators both present
        b = gens["data"]["b"]
        gens["param"] = {"n": rng.choice([x for x in (3, 4, 6, 8) if x >= b]), "seed": rng.randrange(1 << 30),
                         "keys": ["nu"]}
        no = rng.choice([x for x in (3, 4, 5, 8) if x >= b])
        gens["obs"] = {"n": no, "seed": rng.randrange(1 << 30), "vals": [rng.randint(-3, 3) for _ in range(no)],
                       "sharding_device": rng.random() < 0.5}
    if kind == "bilinear":
        opt = sp.random_opt(rng, rng.choice(["sgd", "schedule"]))
        opt["lr0"] = rng.choice(["1/2", "1/4"])
    elif n > 16:
        opt = sp.random_opt(rng, rng.choice(["sgd", "schedule"]))
    else:
        opt = sp.random_opt(rng)
    seg = {"n": n, "shape": shape, "gens": gens, "opt": opt, "track": sp.random_track(rng, shape),
           "jit": True, "val": None}
    seg["params"] = sp.random_params(rng, shape)
    seg["loss"] = sp.random_loss(rng, sum(sp.leaf_sizes(seg["params"])), gens, bilinear=(kind == "bilinear"))
    if inf_leaf:
        # an equation parameter that no loss term reads holds +infinity (e.g. an unused carrying capacity): it is
        # not NaN, its gradient is 0, nothing stops the loop.  It is the LAST leaf, so the flat indices of the loss
        # are unchanged; the model is run with the finite stand-in INF_STANDIN in its place.
        seg["shape"] = {"nn": dict(shape["nn"]), "eq": {**shape["eq"], "zinf": 0}}
        seg["params"]["eq"]["zinf"] = sp.INF
        seg["track"] = sp.random_track(rng, seg["shape"])
    if sharding:
        seg["sharding"] = True
        seg["jit"] = False
        if seg["track"] is None:
            seg["track"] = sp.full_track(shape)
        # every batch column enters the loss (a dropped parameter / observation batch must show)
        nflat = sum(sp.leaf_sizes(seg["params"]))
        for j in range(1, sp.n_features(gens) - 1):
            seg["loss"]["terms"][0][1].append([str(rng.choice([-1, 1])), [rng.randrange(nflat)], j])
    return seg


def _variant(rng, seg):
    """same static configuration, new data"""
    s = copy.deepcopy(seg)
    s["params"] = sp.random_params(rng, s["shape"])
    for _, monos in s["loss"]["terms"]:
        for m in monos:
            m[0] = str(rng.choice([-2, -1, 1, 2]))
    s["gens"]["data"]["seed"] = rng.randrange(1 << 30)
    if s["gens"]["param"]:
        s["gens"]["param"]["seed"] = rng.randrange(1 << 30)
    if s["gens"]["obs"]:
        s["gens"]["obs"]["seed"] = rng.randrange(1 << 30)
        s["gens"]["obs"]["vals"] = [rng.randint(-3, 3) for _ in s["gens"]["obs"]["vals"]]
    return s


# ------------------------------------------------------------------------------------------------
# real PDE generators with auxiliary generators: the textbook loop on a real loss
# ------------------------------------------------------------------------------------------------
def _pde_cases(rng, tier):
    out = []
    for kind in ("statio", "nonstatio"):
        for aux in ("param", "obs"):
            for rep in range(1 if tier == "quick" else 3):
                out.append({"kind": "pde", "gen": kind, "aux": aux, "n": rng.choice([2, 3]), "seed": rng.randrange(1 << 30),
                            "x32": aux == "param",   # (with x32: temporal batch > spatial batch + 1, see below)
                            "ob": rng.choice([1, 2]), "tb": 4 if aux == "param" else rng.choice([2, 4]), "a0": str(rng.choice([-2, -1, 1, 2])),
                            "c": [str(rng.choice([-2, -1, 1, 2])) for _ in range(3)]})
    return out


def _run_pde(case):
    if case.get("x32"):
        # the library's default precision (int32 cursors, float32 values)
        import jax
        with jax.enable_x64(False):
            return _run_pde_body(case)
    return _run_pde_body(case)


def _run_pde_body(case):
    """`jinns.solve` on a real LossPDEStatio / LossPDENonStatio with a CubicMesh generator and a parameter or
    observation generator of the documented batch size, against the five-line textbook loop run by the harness on
    the same objects (same generators passed in, same optimizer): loss history, final parameters, iterations."""
    import jax
    import jax.numpy as jnp
    import numpy as np
    import optax
    import jinns
    from fractions import Fraction
    from harness import core
    from harness.polynet import P, make_pinn
    from jinns.data._DataGenerators import (CubicMeshPDEStatio, CubicMeshPDENonStatio, DataGeneratorParameter,
                                            DataGeneratorObservations, append_param_batch, append_obs_batch)
    from jinns.loss import PDEStatio, PDENonStatio, LossPDEStatio, LossPDENonStatio
    from jinns.parameters import Params, DerivativeKeysPDEStatio, DerivativeKeysPDENonStatio

    nonstatio = case["gen"] == "nonstatio"
    nv = 2 if nonstatio else 1
    c = [Fraction(x) for x in case["c"]]
    poly = P(nv, {(0,) * nv: c[0], (1,) + (0,) * (nv - 1): c[1], (0,) * (nv - 1) + (2,): c[2]})
    pinn = make_pinn([poly], "nonstatio_PDE" if nonstatio else "statio_PDE")
    params = Params(nn_params=pinn.init_params(), eq_params={"a": jnp.array(float(Fraction(case["a0"])))})
    key = jax.random.PRNGKey(case["seed"])
    ob, tb, n = case["ob"], case["tb"], case["n"]
    if nonstatio:
        class Eq(PDENonStatio):
            def equation(self, t, x, u, params):
                return u(t, x, params) + params.eq_params["a"]
        data = CubicMeshPDENonStatio(key=key, n=4, nb=None, nt=6, omega_batch_size=ob, omega_border_batch_size=None,
                                     temporal_batch_size=tb, dim=1, min_pts=(0.0,), max_pts=(1.0,), tmin=0.0, tmax=1.0,
                                     method="grid")
        bsz = ob * tb
        dk = DerivativeKeysPDENonStatio.from_str(params=params, dyn_loss="eq_params", observations="eq_params")
        loss = LossPDENonStatio(u=pinn, dynamic_loss=Eq(), derivative_keys=dk, params=params)
    else:
        class Eq(PDEStatio):
            def equation(self, x, u, params):
                return u(x, params) + params.eq_params["a"]
        data = CubicMeshPDEStatio(key=key, n=4, nb=None, omega_batch_size=ob, omega_border_batch_size=None, dim=1,
                                  min_pts=(0.0,), max_pts=(1.0,), method="grid")
        bsz = ob
        dk = DerivativeKeysPDEStatio.from_str(params=params, dyn_loss="eq_params", observations="eq_params")
        loss = LossPDEStatio(u=pinn, dynamic_loss=Eq(), derivative_keys=dk, params=params)
    pdata = odata = None
    if case["aux"] == "param":
        pdata = DataGeneratorParameter(jax.random.PRNGKey(case["seed"] + 1), 2 * bsz, bsz,
                                       user_data={"a": jnp.arange(1.0, 2 * bsz + 1.0)})
    else:
        nobs = 2 * bsz
        odata = DataGeneratorObservations(jax.random.PRNGKey(case["seed"] + 2), bsz,
                                          jnp.arange(0.0, nobs * nv).reshape(nobs, nv) / 4.0,
                                          jnp.arange(1.0, nobs + 1.0).reshape(nobs, 1))
    opt = optax.sgd(0.25)
    # the textbook loop
    p, st, d, pd, od = params, opt.init(params), data, pdata, odata
    ref_hist = []
    try:
        for _ in range(n):
            d, batch = d.get_batch()
            if pd is not None:
                pd, pb = pd.get_batch()
                batch = append_param_batch(batch, pb)
            if od is not None:
                od, obb = od.get_batch()
                batch = append_obs_batch(batch, obb)
            (lv, _), g = jax.value_and_grad(loss.evaluate, has_aux=True)(p, batch)
            upd, st = opt.update(g, st, p)
            p = optax.apply_updates(p, upd)
            ref_hist.append(core.qstr(lv))
        ref = {"hist": ref_hist, "a": core.qstr(p.eq_params["a"])}
    except Exception as e:
        return {"pde": {"harness_reference_failed": core.err_kind(e), "msg": str(e)[:200]}}
    try:
        out = jinns.solve(n_iter=n, init_params=params, data=data, loss=loss, optimizer=opt, param_data=pdata,
                          obs_data=odata, verbose=False)
    except Exception as e:  # a rejection of a legal program is an observation
        return {"pde": {"error": core.err_kind(e), "msg": str(e)[:200], "ref": ref}}
    return {"pde": {"hist": [core.qstr(x) for x in np.asarray(out[1], dtype=float)],
                    "a": core.qstr(out[0].eq_params["a"]), "ref": ref}}


def _judge_pde(case, obs):
    o = obs["pde"]
    if "harness_reference_failed" in o:
        return {"status": "disagree", "clause": "reference-loop-could-not-run:" + o["harness_reference_failed"]}
    if "error" in o:
        return {"status": "violation", "clause": "valid-program-rejected", "error": o["error"], "message": o.get("msg")}
    # compiled loop vs eager reference: the same real-number program, possibly fused differently by XLA -- the
    # rounding rule of DESIGN section 2.3 (a logic error moves these values by orders of magnitude more)
    def close(a, b):
        fa, fb = Fraction(a), Fraction(b)
        return abs(fa - fb) <= Fraction(1, 2 ** (16 if case.get("x32") else 46)) * max(abs(fa), abs(fb), 1)

    if len(o["hist"]) != len(o["ref"]["hist"]) or not all(close(a, b) for a, b in zip(o["hist"], o["ref"]["hist"])):
        return {"status": "violation", "clause": "loss-history", "observed": o["hist"], "reference": o["ref"]["hist"]}
    if not close(o["a"], o["ref"]["a"]):
        return {"status": "violation", "clause": "final-parameters", "observed": o["a"], "reference": o["ref"]["a"]}
    obs["_ulp"] = o["hist"] != o["ref"]["hist"] or o["a"] != o["ref"]["a"]
    return {"status": "ok", "clause": None}



def gen_cases(rng, tier):
    cases = []
    if tier == "quick":
        plan = [(0, "linear"), (1, "linear"), (2, "linear"), (3, "bilinear"), (4, "bilinear"), (5, "linear"),
                (7, "linear"), (9, "linear"), (12, "linear"), (16, "linear"), (24, "linear"), (40, "linear"),
                (6, "linear"), (10, "linear"), (3, "linear"), (40, "linear"), (2, "bilinear"), (8, "linear"),
                (11, "linear"), (14, "linear"), (20, "linear"), (32, "linear"), (1, "bilinear"), (13, "linear")]
        nvar, nresume = 4, 10
    else:
        plan = [(n, "linear") for n in range(0, 41)] + [(n, "linear") for n in range(1, 41, 2)] + \
               [(n, "bilinear") for n in (1, 2, 3, 4, 5)] * 3 + [(40, "linear")] * 4
        nvar, nresume = 5, 40
    for idx, (n, kind) in enumerate(plan):
        base = _structure(rng, n, kind)
        segs = [base] + [_variant(rng, base) for _ in range(nvar - 1)]
        cases.append({"kind": "single", "segs": segs})
        if idx % 4 == 1 and n > 0:       # the same program through a plain (not jit-wrapped) call of solve
            plain = copy.deepcopy(base)
            plain["jit"] = False
            plain["verbose"] = idx % 8 == 1      # printing the losses must not change anything
            cases.append({"kind": "single", "segs": [plain]})
    # the Python-loop path (obs_batch_sharding given), single and resumed runs
    for n in ((3, 7) if tier == "quick" else (1, 2, 3, 5, 7, 9, 12)):
        base = _structure(rng, n, "linear", sharding=True)
        cases.append({"kind": "single", "segs": [base, _variant(rng, base)]})
    for n, m in (((2, 3),) if tier == "quick" else ((1, 1), (2, 3), (4, 2), (5, 4))):
        base = _structure(rng, n, "linear", sharding=True)
        cases.append({"kind": "resume", "segs": [base], "m": m})
    for n in ((4, 9) if tier == "quick" else (1, 3, 4, 9, 12)):
        base = _structure(rng, n, "linear", aux=False, inf_leaf=True)
        cases.append({"kind": "single", "segs": [base, _variant(rng, base)]})
    # a validation module that never requests a stop must not disturb anything the property names: the tracked
    # histories are the post-update values of EVERY iteration, also between two invocations and after an
    # invocation that did not improve (where the "best" parameters lag behind the current ones)
    from harness.c18 import script_outcomes
    for c, n in (((2, 7), (3, 10)) if tier == "quick" else ((1, 5), (2, 7), (2, 12), (3, 10), (4, 13), (5, 11))):
        base = _structure(rng, n, "linear", aux=False)
        base["track"] = sp.full_track(base["shape"])
        L = n // c + 2
        pat = "i" + "".join(rng.choice("wsi") for _ in range(L - 1))
        if "w" not in pat and "s" not in pat:
            pat = pat[:1] + "w" + pat[2:]
        base["val"] = {"kind": "scripted", "call_every": c, "script": script_outcomes(pat)}
        base["verbose"] = c == 2
        cases.append({"kind": "single", "segs": [base, _variant(rng, base)]})
    for _ in range(nresume):
        n, m = rng.choice([(1, 1), (2, 3), (3, 2), (5, 4), (4, 7), (8, 8), (6, 1), (12, 9)])
        aux = rng.random() < 0.3
        base = _structure(rng, n, "linear", aux=aux)
        if base["opt"]["momentum"] is not None and n + m > 16:
            base["opt"]["momentum"] = None
        cases.append({"kind": "resume", "segs": [base, _variant(rng, base)], "m": m})
    # the (slow, eager) Python-loop cases go first so that they overlap with the bulk of the work
    def _slow(c):
        return bool((c.get("seg") or c["segs"][0]).get("sharding"))
    return [c for c in cases if _slow(c)] + [c for c in cases if not _slow(c)] + _pde_cases(rng, tier)


def shrink_candidates(case):
    if case["kind"] == "pde":
        return
    if len(case["segs"]) > 1:
        for s in case["segs"]:
            yield {**case, "segs": [s]}
        return
    seg = case["segs"][0]
    if case["kind"] == "resume":
        yield {"kind": "single", "segs": [seg]}
        for m in sorted({1, case["m"] // 2}):
            if 1 <= m < case["m"]:
                yield {**case, "m": m}
    for n in sorted({1, 2, seg["n"] // 2, seg["n"] - 1}):
        if 1 <= n < seg["n"]:
            yield {**case, "segs": [{**seg, "n": n}]}
    if seg["gens"]["param"] or seg["gens"]["obs"]:
        g = copy.deepcopy(seg["gens"])
        g["param"] = g["obs"] = None
        nz = sp.n_features(g)
        loss = copy.deepcopy(seg["loss"])
        for _, monos in loss["terms"]:
            for mo in monos:
                mo[2] = min(mo[2], nz - 2)
        yield {**case, "segs": [{**seg, "gens": g, "loss": loss}]}
    if seg["opt"]["momentum"] is not None or seg["opt"]["bounds"]:
        yield {**case, "segs": [{**seg, "opt": {**seg["opt"], "momentum": None, "bounds": []}}]}
    if len(seg["loss"]["terms"]) > 1:
        yield {**case, "segs": [{**seg, "loss": {**seg["loss"], "terms": seg["loss"]["terms"][:1]}}]}


# ------------------------------------------------------------------------------------------------
def run_impl(case):
    if case["kind"] == "pde":
        return _run_pde(case)
    runs = []
    for seg in case["segs"]:
        data, pdata, odata = sp.build_generators(seg["gens"])
        n = int(seg["n"])
        if case["kind"] == "single":
            batches, fps = sp.replay(data, pdata, odata, n)
            obs, _ = sp.run_segment(seg)
            runs.append({"A": obs, "batches": batches, "gens": fps})
            continue
        m = int(case["m"])
        obsA, outA = sp.run_segment(seg)
        rec = {"A": obsA}
        rec["batches"], rec["gens"] = sp.replay(data, pdata, odata, n + m)
        if outA is not None:
            segB = {**seg, "n": m}
            # the resumed run gets the returned parameters, optimizer state and data generator; the
            # parameter / observation generators are not returned by solve: the original ones are passed
            obsB, _ = sp.run_segment(segB, objs={"params": outA[0], "data": outA[3], "opt_state": outA[5]})
            rec["B"] = obsB
            rec["batchesB"], rec["gensB"] = sp.replay(outA[3], pdata, odata, m)
        runs.append(rec)
    return {"runs": runs}


def _concat(a, b):
    return {"iters": a["iters"] + b["iters"], "batches": a["batches"] + b["batches"], "params": b["params"],
            "loss_hist": a["loss_hist"] + b["loss_hist"], "term_hist": a["term_hist"] + b["term_hist"],
            "tracked": a["tracked"] + b["tracked"], "opt": b["opt"], "gen": b["gen"], "crit_hist": None,
            "best": None, "calls": []}


def _requests(case, obs):
    """[(label, request)]"""
    out = []
    for seg, rec in zip(case["segs"], obs["runs"]):
        if seg["params"]["eq"].get("zinf") == sp.INF:
            seg = {**seg, "params": _standin(seg["params"])}
            rec = {k: (_standin(v) if k in ("A", "B") else v) for k, v in rec.items()}
        n = int(seg["n"])
        out.append(("run", {"op": "c07", "prog": sp.lean_prog(seg, rec["batches"][:n], rec["gens"][:n + 1]),
                            "obs": rec["A"]}))
        if case["kind"] == "resume" and "B" in rec and "error" not in rec["A"]:
            m = int(case["m"])
            segB = {**seg, "n": m}
            out.append(("resumed-run", {"op": "c07", "prog": sp.lean_prog(
                segB, rec["batchesB"], rec["gensB"], theta0=rec["A"]["params"], opt0=rec["A"]["opt"]),
                "obs": rec["B"]}))
            if "error" not in rec["B"] and not seg["gens"]["param"] and not seg["gens"]["obs"]:
                out.append(("run+resumed-run=single-run", {"op": "c07", "prog": sp.lean_prog(
                    seg, rec["batches"], rec["gens"], n=n + m), "obs": _concat(rec["A"], rec["B"])}))
    return out


def lean_request(case, obs):
    if case["kind"] == "pde":
        return None
    return [r for _, r in _requests(case, obs)]


def judge(case, obs, answers):
    if case["kind"] == "pde":
        return _judge_pde(case, obs)
    labels = [l for l, _ in _requests(case, obs)]
    skipped = 0
    for lab, a in zip(labels, answers):
        if a.get("bits", 0) > BITS_LIMIT:
            skipped += 1
            continue
        if not a["holds"]:
            return {"status": "violation", "clause": a["clause"], "where": lab}
    for lab, a in zip(labels, answers):
        if a.get("bits", 0) > BITS_LIMIT:
            continue
        if not a["agree"]:
            return {"status": "disagree", "clause": "model-differs:" + ",".join(a["differs"]), "where": lab,
                    "model": a["model"]}
    obs["_skipped_inexact"] = skipped
    return {"status": "ok", "clause": None}


def nontrivial(case, obs):
    if case["kind"] == "pde":
        return "hist" in obs["pde"] and len(set(obs["pde"]["hist"])) >= 2
    for seg, rec in zip(case["segs"], obs["runs"]):
        a = rec["A"]
        if "error" in a or seg["n"] < 2:
            continue
        distinct_batches = len({json.dumps(b) for b in a["batches"]}) >= 2
        moved = a["params"] != sp.theta_json(seg["params"])
        if distinct_batches and moved and len(set(a["loss_hist"])) >= 2:
            return True
    return False


def tags(case, obs):
    if case["kind"] == "pde":
        return [f"real_loss+{case['gen']}_generator+{case['aux']}_generator" + ("+x32" if case.get("x32") else "")] + \
            (["ulp_rule"] if obs.get("_ulp") else [])
    seg = case["segs"][0]
    out = [f"kind={case['kind']}", f"opt={seg['opt']['kind']}",
           "python_loop(obs_batch_sharding)" if seg.get("sharding") else
           ("jit_wrapped" if seg.get("jit", True) else "plain_call"),
           "n=0" if seg["n"] == 0 else ("n<=5" if seg["n"] <= 5 else ("n<=16" if seg["n"] <= 16 else "n<=40")),
           "b_divides_nt" if seg["gens"]["data"]["nt"] % seg["gens"]["data"]["b"] == 0 else "b_not_dividing_nt"]
    if seg["gens"]["param"]:
        out.append("param_generator")
    if seg["gens"]["obs"]:
        out.append("obs_generator")
    if seg.get("val"):
        out.append("validation_module(no_stop)")
    if seg.get("verbose"):
        out.append("verbose=True")
    if seg["params"]["eq"].get("zinf") == sp.INF:
        out.append("infinite_unused_parameter")
    tr = seg.get("track")
    out.append("track=none" if tr is None else ("track=holes" if (tr["nn"] is None or tr["eq"] is None or
               any(v is None for g in ("nn", "eq") if tr[g] for v in tr[g].values())) else "track=all"))
    if any(len(m[1]) >= 2 for _, ms in seg["loss"]["terms"] for m in ms):
        out.append("bilinear_loss")
    if obs.get("_skipped_inexact"):
        out.append("skipped_inexact")
    for rec in obs["runs"]:
        if "error" in rec["A"]:
            out.append("rejected:" + rec["A"]["error"])
    return out


def widen(rng, bad_cases):
    out = []
    for c in bad_cases:
        if c["kind"] == "pde":
            continue
        for seg in c["segs"][:2]:
            for n in (1, 2, 3, 5):
                out.append({"kind": "single", "segs": [{**seg, "n": n}]})
    return out
