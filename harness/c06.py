"""
C06 -- derivative keys route each loss term's gradient to exactly the selected parameter groups.

Correspondence: real `jax.grad` / `jax.value_and_grad` of the real `loss.evaluate` of jinns (LossODE,
LossPDEStatio, LossPDENonStatio, SystemLossODE, SystemLossPDE built by their public constructors around
polynomial PINNs, harness/polynet.py) against JinnsModel/DerivKeys.lean, and `Holds.C06`
(JinnsModel/HoldsC06.lean) evaluated on what the implementation returned.

One case = one problem (network, equation, parameters, batch) + a set of derivative specifications.
All specifications of a case go through ONE jitted function whose argument is the `DerivativeKeys*`
object (a pytree of booleans: they are traced values used in `lax.cond`), so nothing is recompiled per
assignment; the loss object itself is built inside that function by the public constructor.  A few
specifications per case are also run the way a user does (loss built outside with python booleans,
eager `jax.grad`, and `jax.jit` closed over the loss).
"""
from __future__ import annotations

import itertools
from fractions import Fraction

PROP = "C06"
LEVEL_TEXT = (
    "Lean 4 theorems, for every family of loss terms with arbitrary linear differentials (the AD contract), every "
    "mask assignment, every parameter group g and every tangent direction v: the differential of the total loss in "
    "group g is the sum of the differentials of exactly the terms whose mask selects g, every unselected (term, "
    "group) pair contributes exactly 0 and every selected one the term's own differential (also in gradient form, "
    "entry by entry); values never depend on the masks; the three strings, the default (= 'nn_params') and mixed "
    "string/tree specifications resolve to their explicit boolean trees, unknown strings are rejected; "
    "stop_gradient is idempotent, commutes, and `_set_derivatives` is exactly stop_gradient on the unselected "
    "groups; Holds.C06 (the property as a predicate on observations) is proved true of every observation the "
    "model's `predict` produces, for every well-formed layout and every specification, accepted or rejected.  "
    "The model is tied to /repo on every run: real jax.grad of the real loss.evaluate (total and every "
    "returned term) for ODE, stationary, non-stationary and system losses on polynomial problems with exact float64 "
    "arithmetic; the per-(term, group) gradients measured under the all-true specification are the model's "
    "differential tables, they are compared with exact reference gradients, and Holds.C06 is evaluated on the "
    "implementation's own gradients for every assignment enumerated.")
LEVEL_NOTE = (
    "Trusted: Lean kernel + {propext, Classical.choice, Quot.sound}; JAX AD is a parameter of the model (a linear "
    "differential per term, stop_gradient = identity on values / zero on tangents), not verified; the tie between "
    "the hand-written model and the code is differential: it sees the enumerated assignments (all 2^(terms x "
    "positions) for the ODE loss in both tiers and for the stationary loss in the thorough tier, seeded random "
    "subsets plus all single-pair flips for the non-stationary and system losses) on polynomial networks; "
    "granularity inside nn_params is not supported by jinns and not modelled.")
TECHNIQUE = ("Lean 4 proof (linear differentials as tables, induction over term families and groups) + exact "
             "differential correspondence on jax.grad of the real losses")
THEOREMS = [
    "Jinns.DerivKeys.jvp_smul",
    "Jinns.DerivKeys.jvp_add",
    "Jinns.DerivKeys.setDerivatives_val",
    "Jinns.DerivKeys.totalVal_mask_independent",
    "Jinns.DerivKeys.totalVal_same_terms",
    "Jinns.DerivKeys.jvp_setDerivatives_supported",
    "Jinns.DerivKeys.jvp_setDerivatives_basis",
    "Jinns.DerivKeys.unselected_pair_zero",
    "Jinns.DerivKeys.selected_pair_full",
    "Jinns.DerivKeys.jvp_setDerivatives_eq_masked_tangent",
    "Jinns.DerivKeys.totalJvp_routes",
    "Jinns.DerivKeys.totalJvp_routes_supported",
    "Jinns.DerivKeys.totalJvp_zero_of_none_selects",
    "Jinns.DerivKeys.totalJvp_all_select",
    "Jinns.DerivKeys.gradient_entry",
    "Jinns.DerivKeys.gradient_setDerivatives",
    "Jinns.DerivKeys.gradient_total_entry",
    "Jinns.DerivKeys.gradient_total_eq_vector_sum",
    "Jinns.DerivKeys.stopGrad_idem",
    "Jinns.DerivKeys.stopGrad_comm",
    "Jinns.DerivKeys.setDerivatives_eq_stopAll",
    "Jinns.DerivKeys.setDerivD_allTrue",
    "Jinns.DerivKeys.maskOfString_both",
    "Jinns.DerivKeys.maskOfString_eq_params",
    "Jinns.DerivKeys.maskOfString_nn_params",
    "Jinns.DerivKeys.maskOfString_unknown",
    "Jinns.DerivKeys.maskOfString_isSome_iff",
    "Jinns.DerivKeys.resolve_default",
    "Jinns.DerivKeys.resolve_selects",
    "Jinns.DerivKeys.resolveAll_tree_roundtrip",
    "Jinns.DerivKeys.resolveAll_mixed",
    "Jinns.DerivKeys.resolveAll_rejects",
    "Jinns.DerivKeys.resolveAll_default",
    "Jinns.DerivKeys.liftMask_getD",
    "Jinns.DerivKeys.liftMask_dict_nn",
    "Jinns.DerivKeys.lifted_selects",
    "Jinns.DerivKeys.totalJvp_routes_by_specification",
    "Jinns.DerivKeys.holdsObs_of_model",
    "Jinns.DerivKeys.holdsC06_of_model",
]
LEAN_MODULES = ["JinnsProofs.C06"]
RULE = (
    "case = (loss kind, seeded polynomial problem, set of derivative specifications); loss terms x view positions "
    "(nn_params, each eq_params leaf): ODE 3x3 or 3x2, stationary 4x3, non-stationary 5x3, SystemLossODE 5x3 "
    "(ParamsDict dynamic term + initial condition / observations of 2 unknowns), SystemLossPDE 7x3 (dynamic term + "
    "normalisation / boundary / observations of 2 unknowns).  Boolean-tree assignments: ALL 2^(terms x positions) "
    "for the ODE loss in both tiers (2^9, 2^6); in the thorough tier also ALL for the stationary loss (2^12, 2^8), "
    "for one non-stationary problem (2^15) and one SystemLossODE problem (2^15) and their 2-position variants "
    "(2^10); a seeded random subset (quick 200-400, thorough 4000-5000) plus all-true, all-false, every single-pair "
    "flip of both and every single-term selection for the other problems (vector-valued equation parameters, "
    "SystemLossPDE with 2^21 assignments, and every PDE / system problem of the quick tier) -- EXHAUSTIVE is "
    "therefore false in both tiers.  Plus, per case: every from_str combination of {'nn_params','eq_params','both',"
    "omitted} per term (single losses; seeded combinations for the per-unknown keys of systems), seeded mixed "
    "string/tree/omitted specifications, the fully default construction (derivative_keys=None, params=...), unknown "
    "strings (rejection), and user-path runs (python booleans in a loss built outside; eager jax.grad, and jax.jit "
    "closed over the loss).  Observed per specification: booleans read back from the constructed object, value "
    "and gradient (jax.value_and_grad of evaluate for the total as jinns.solve does; for each returned term the "
    "pull-back of its unit cotangent = jax.grad of `lambda p: loss.evaluate(p, batch)[1][name]`, literally jax.grad "
    "on the user paths) w.r.t. every group, as exact rationals.  Set-up: per-(term, group) gradients under the "
    "all-true specification (systems: per-unknown terms isolated by indicator loss weights; the ParamsDict mask of "
    "a system's dynamic term has no public setter and is installed with eqx.tree_at, its default is observed from "
    "the constructor), compared with the exact gradient obtained from the implementation's own term VALUES by a "
    "7-node exact differentiation stencil (terms are polynomials of degree <= 6 in each parameter) and, for the "
    "ODE loss, with the gradient of the exact polynomial P.  non-trivial = every (term, group-of-its-view) all-true "
    "gradient is non-zero and the case contains specifications with different read-back masks; distinct = "
    "distinct case dicts"
        " Plus two probe flavours judged on the implementation alone (no model): singular (a non-finite derivative of an unselected pair must contribute exactly 0) and parameter-batch (every term's gradient under every specification against the all-selecting one).")
ASSUMPTIONS = [
    "JAX AD contract: the differential of each loss term is linear in the tangent; stop_gradient is the identity "
    "on values and zero on tangents (the model is parameterised by the per-term differential tables measured on "
    "the implementation under the all-true specification and validated against exact reference gradients)",
    "a boolean passed as a traced jit argument and a python boolean select the same lax.cond branch (both paths "
    "are run)",
    "float64 arithmetic is exact on the generated problems (small integer / dyadic data, polynomial networks); "
    "cross-checked by the two independent exact references",
    "no granularity inside nn_params (one boolean for the whole network), as documented by jinns",
]
EXHAUSTIVE = {"quick": False, "thorough": False}

TERMS = {
    "ode": ["dyn_loss", "initial_condition", "observations"],
    "statio": ["dyn_loss", "norm_loss", "boundary_loss", "observations"],
    "nonstatio": ["dyn_loss", "norm_loss", "boundary_loss", "observations", "initial_condition"],
}
# model terms of the system losses: the dynamic term (one ParamsDict mask) and the constraint terms per unknown
SYS_TERMS = {
    "sys_ode": [("dyn_loss", None), ("initial_condition", "u"), ("initial_condition", "v"),
                ("observations", "u"), ("observations", "v")],
    "sys_pde": [("dyn_loss", None), ("norm_loss", "u"), ("norm_loss", "v"), ("boundary_loss", "u"),
                ("boundary_loss", "v"), ("observations", "u"), ("observations", "v")],
}
SYS_RETURNED = {
    "sys_ode": ["dyn_loss", "initial_condition", "observations"],
    "sys_pde": ["dyn_loss", "norm_loss", "boundary_loss", "observations", "initial_condition"],
}
STRINGS = ["nn_params", "eq_params", "both"]
BAD_STRINGS = ["nn_param", "eq", "Both", "all", "", "nn_params ", "eq-params", "none", "NN_PARAMS", "true"]
CHUNK = 256


def n_terms(kind):
    return len(TERMS[kind]) if kind in TERMS else len(SYS_TERMS[kind])


def n_view(case):
    return 1 + len(case["eq"])


# ------------------------------------------------------------------------------------------------
# specifications
# ------------------------------------------------------------------------------------------------
def spec_tree(bits):
    return {"k": "t", "m": [bool(b) for b in bits]}


def specs_of_index(idx, T, V):
    """assignment number idx of the full enumeration: bit (k*V + p) = term k selects view position p"""
    return [spec_tree([(idx >> (k * V + p)) & 1 for p in range(V)]) for k in range(T)]


def assignments(case):
    """the list of specifications (one list of per-term specs each) of a case, with the path they are run on"""
    T, V = n_terms(case["kind"]), n_view(case)
    a = case["assign"]
    out = []
    if a["mode"] == "all":
        out = [(specs_of_index(i, T, V), "jit_arg") for i in range(1 << (T * V))]
    elif a["mode"] == "range":
        out = [(specs_of_index(i, T, V), "jit_arg") for i in range(a["lo"], a["hi"])]
    elif a["mode"] == "random":
        import random

        r = random.Random(a["seed"])
        full = (1 << (T * V)) - 1
        idxs = [0, full]
        for b in range(T * V):
            idxs += [1 << b, full ^ (1 << b)]
        for k in range(T):
            idxs.append(((1 << V) - 1) << (k * V))
        idxs += [r.randrange(full + 1) for _ in range(a["n"])]
        out = [(specs_of_index(i, T, V), "jit_arg") for i in idxs]
    elif a["mode"] == "list":
        out = []
    out += [(it["specs"], it.get("path", "jit_arg")) for it in case.get("extra", [])]
    return out


def extra_specs(rng, kind, V, tier, with_user_paths=True):
    """string / default / mixed / rejected specifications and user-path runs"""
    T = n_terms(kind)
    ex = []

    def rt():
        return spec_tree([rng.randrange(2) for _ in range(V)])

    if kind in TERMS:
        # every from_str combination: each term a string or omitted
        for combo in itertools.product(STRINGS + [None], repeat=T):
            if all(c is None for c in combo):
                continue
            ex.append({"specs": [{"k": "d"} if c is None else {"k": "s", "s": c} for c in combo]})
    else:
        for _ in range(24):
            ex.append({"specs": [{"k": "d"}] + [rng.choice([{"k": "d"}] + [{"k": "s", "s": s} for s in STRINGS])
                                                   for _ in range(T - 1)]})
    # fully default construction
    ex.append({"specs": [{"k": "d"}] * T})
    # mixed: strings, trees and omitted fields together
    for _ in range(16 if tier == "quick" else 48):
        sp = []
        for k in range(T):
            c = rng.randrange(3)
            sp.append({"k": "d"} if c == 0 else ({"k": "s", "s": rng.choice(STRINGS)} if c == 1 else rt()))
        if kind not in TERMS:
            sp[0] = rng.choice([{"k": "d"}, rt()])
        ex.append({"specs": sp})
    # rejected: an unknown string somewhere
    for _ in range(6):
        sp = [rng.choice([{"k": "d"}, {"k": "s", "s": rng.choice(STRINGS)}, rt()]) for _ in range(T)]
        pos = rng.randrange(1 if kind not in TERMS else 0, T)
        sp[pos] = {"k": "s", "s": rng.choice(BAD_STRINGS)}
        if kind not in TERMS:
            sp[0] = {"k": "d"}
        ex.append({"specs": sp})
    # the way a user runs it: python booleans, loss built outside
    if with_user_paths:
        if tier == "quick":
            paths = ["eager", "jit_closed", "jit_closed"] if kind == "ode" else ["jit_closed"]
        else:
            paths = ["eager", "jit_closed", "jit_closed", "jit_closed"]
        for path in paths:
            ex.append({"specs": [rt() for _ in range(T)], "path": path})
        if kind in TERMS:
            ex.append({"specs": [{"k": "s", "s": rng.choice(STRINGS)} for _ in range(T)], "path": "jit_closed"})
    return ex


# ------------------------------------------------------------------------------------------------
# case generation
# ------------------------------------------------------------------------------------------------
def _dy(rng, lo, hi, den=2, nonzero=False):
    while True:
        v = Fraction(rng.randint(lo * den, hi * den), den)
        if v != 0 or not nonzero:
            return str(v)


def _coefs(rng, monos, must):
    """integer coefficients for the monomials `monos` (exponent tuples, last variable = the equation parameter
    `a`); those in `must` are non-zero; the coefficients of the monomials containing `a` are >= 0 so that du/da > 0
    wherever the other variables enter with even powers or are >= 0 (keeps the all-true gradients non-zero)"""
    out = []
    for m in monos:
        if m[-1] > 0:
            c = rng.randint(1, 2) if m in must else rng.randint(0, 2)
        else:
            c = rng.randint(-2, 2)
            if m in must and c == 0:
                c = rng.choice([-2, -1, 1, 2])
        out.append([list(m), c])
    return out


def problem(rng, kind, eq):
    """seeded data of one problem; everything a small integer or dyadic (strings 'p/q')"""
    pb = {"kind": kind, "eq": eq}
    pb["eqv"] = {k: [_dy(rng, -2, 2, 2, nonzero=True) for _ in range(max(1, n))] for k, n in eq.items()}
    pb["w"] = [rng.choice(["1/2", "1", "2"]) for _ in range(5)]
    pos = lambda: rng.choice(["1/2", "1", "3/2", "2"])
    if kind in ("ode", "sys_ode"):
        monos = [(0, 0), (1, 0), (2, 0), (0, 1), (1, 1), (2, 1)]
        must = [(2, 0), (1, 1), (0, 1)]
        nets = ["u"] if kind == "ode" else ["u", "v"]
        pb["net"] = {u: _coefs(rng, monos, must) for u in nets}
        pb["t"] = [str(Fraction(rng.randint(1, 8), 4)) for _ in range(rng.choice([2, 4]))]
        pb["ic"] = {u: [rng.choice(["1/2", "1"]), _dy(rng, -2, 2, 2)] for u in nets}
        pb["obs"] = {u: [[pos(), _dy(rng, -3, 3, 2)] for _ in range(4)] for u in nets}
    else:
        nets = ["u"] if kind in ("statio", "nonstatio") else ["u", "v"]
        if kind == "nonstatio":
            monos = [(0, 0, 0), (1, 0, 0), (0, 1, 0), (1, 1, 0), (0, 2, 0), (0, 0, 1), (1, 0, 1), (0, 2, 1)]
            must = [(1, 1, 0), (0, 2, 0), (0, 2, 1), (1, 0, 1)]
        else:
            monos = [(0, 0), (1, 0), (2, 0), (0, 1), (2, 1)]
            must = [(2, 0), (2, 1), (0, 1)]
        pb["net"] = {u: _coefs(rng, monos, must) for u in nets}
        nt = 1 if kind == "nonstatio" else 0
        n = rng.choice([2, 4])
        xs = lambda: rng.choice(["-1", "-1/2", "1/2", "1", "3/2", "2"])
        pb["inside"] = [[pos() for _ in range(nt)] + [xs()] for _ in range(n)]
        pb["border"] = [[[pos(), "-1"], [pos(), "2"]] if nt else [["-1"], ["2"]]
                        for _ in range(2)]  # rows: border points; per row the two facets (domain [-1, 2])
        pb["bval"] = {u: _dy(rng, -1, 1, 2) for u in nets}
        pb["norm"] = [[rng.choice(["1/2", "1"])] for _ in range(2)]
        pb["L"] = rng.choice(["1/2", "1", "2"])
        pb["obs"] = {u: [[[pos() for _ in range(nt)] + [xs()], _dy(rng, -3, 3, 2)] for _ in range(4)]
                     for u in nets}
        pb["icv"] = [_dy(rng, -1, 1, 2), _dy(rng, -1, 1, 1)]
    return pb


def make_case(rng, kind, eq, assign, tier, user_paths=True):
    c = problem(rng, kind, eq)
    c["assign"] = assign
    c["extra"] = extra_specs(rng, kind, 1 + len(eq), tier, user_paths)
    return c


def gen_cases(rng, tier):
    cases = []
    if tier == "quick":
        cases.append(make_case(rng, "ode", {"a": 0, "b": 0}, {"mode": "all"}, tier))
        cases.append(make_case(rng, "ode", {"a": 0, "b": 2}, {"mode": "all"}, tier))
        cases.append(make_case(rng, "ode", {"a": 0}, {"mode": "all"}, tier))
        cases.append(make_case(rng, "statio", {"a": 0, "b": 0}, {"mode": "random", "n": 400, "seed": rng.randrange(1 << 30)}, tier))
        cases.append(make_case(rng, "nonstatio", {"a": 0, "b": 0}, {"mode": "random", "n": 400, "seed": rng.randrange(1 << 30)}, tier))
        cases.append(make_case(rng, "sys_ode", {"a": 0, "b": 0}, {"mode": "random", "n": 300, "seed": rng.randrange(1 << 30)}, tier))
        cases.append(make_case(rng, "sys_pde", {"a": 0, "b": 0}, {"mode": "random", "n": 200, "seed": rng.randrange(1 << 30)}, tier, user_paths=False))
    else:
        rnd = lambda n: {"mode": "random", "n": n, "seed": rng.randrange(1 << 30)}
        # the two 2^15 enumerations first (longest cases first in the worker pool)
        cases.append(make_case(rng, "sys_ode", {"a": 0, "b": 0}, {"mode": "all"}, tier))
        cases.append(make_case(rng, "nonstatio", {"a": 0, "b": 0}, {"mode": "all"}, tier))
        cases.append(make_case(rng, "sys_ode", {"a": 0, "b": 2}, rnd(4000), tier))
        cases.append(make_case(rng, "nonstatio", {"a": 0, "b": 2}, rnd(5000), tier))
        for eq in ({"a": 0, "b": 0}, {"a": 0}):
            cases.append(make_case(rng, "sys_pde", eq, rnd(4000), tier))
        for eq in ({"a": 0, "b": 0}, {"a": 0, "b": 2}):
            cases.append(make_case(rng, "statio", eq, {"mode": "all"}, tier))
        cases.append(make_case(rng, "statio", {"a": 0}, {"mode": "all"}, tier))
        cases.append(make_case(rng, "nonstatio", {"a": 0}, {"mode": "all"}, tier))
        cases.append(make_case(rng, "sys_ode", {"a": 0}, {"mode": "all"}, tier))
        for eq in ({"a": 0, "b": 0}, {"a": 0, "b": 2}, {"a": 2, "b": 0}, {"a": 0}):
            for _ in range(2):
                cases.append(make_case(rng, "ode", eq, {"mode": "all"}, tier))
    cases += _singular_cases(rng, tier)
    cases += _pbatch_cases(rng, tier)
    return cases


def shrink_candidates(case):
    if case.get("singular") or case.get("pbatch_probe"):
        return
    T, V = n_terms(case["kind"]), n_view(case)
    a = case["assign"]
    if case.get("extra"):
        # first try without the extra specifications, then each extra alone
        yield {**case, "extra": []}
        if a["mode"] != "list":
            yield {**case, "assign": {"mode": "list"}}
        if len(case["extra"]) > 1:
            h = len(case["extra"]) // 2
            yield {**case, "extra": case["extra"][:h]}
            yield {**case, "extra": case["extra"][h:]}
    if a["mode"] in ("all", "range"):
        lo, hi = (0, 1 << (T * V)) if a["mode"] == "all" else (a["lo"], a["hi"])
        if hi - lo > 1:
            mid = (lo + hi) // 2
            yield {**case, "assign": {"mode": "range", "lo": lo, "hi": mid}}
            yield {**case, "assign": {"mode": "range", "lo": mid, "hi": hi}}
    if a["mode"] == "random" and a["n"] > 0:
        yield {**case, "assign": {**a, "n": a["n"] // 2}}


def widen(rng, bad_cases):
    out = []
    bad_cases = [c for c in bad_cases if not c.get("singular") and not c.get("pbatch_probe")]
    for c in bad_cases[:2]:
        eq = c["eq"]
        for _ in range(2):
            mode = {"mode": "all"} if c["kind"] in ("ode", "statio") else {"mode": "random", "n": 3000,
                                                                           "seed": rng.randrange(1 << 30)}
            out.append(make_case(rng, c["kind"], eq, mode, "thorough"))
    return out


# ------------------------------------------------------------------------------------------------
# the problems on the real jinns objects
# ------------------------------------------------------------------------------------------------
# ------------------------------------------------------------------------------------------------
# singular flavour: an unselected (term, group) pair whose own derivative is NOT finite
# ------------------------------------------------------------------------------------------------
SING_SPECS = [
    # (label, dyn spec, ic spec); specs: string, or (nn, a, b) booleans; None = omitted (default)
    ("default", None, None),
    ("from_str", "nn_params", "both"),
    ("tree", (True, False, True), (True, True, True)),
    ("mixed", (False, False, True), "eq_params"),
]


def _singular_cases(rng, tier):
    out = []
    for kind in ("ode", "statio"):
        for rep in range(1 if tier == "quick" else 4):
            out.append({"kind": kind, "singular": True, "seed": rng.randrange(1 << 30),
                        "c": [str(rng.choice([-2, -1, 1, 2])) for _ in range(3)],
                        "b": str(rng.choice([1, 2, 3])), "pts": [str(rng.choice([1, 2, 3])) for _ in range(2)],
                        "path": ["eager", "jit"][rep % 2] if tier != "quick" else rng.choice(["eager", "jit"])})
    return out


def _run_singular(case):
    """LossODE / LossPDEStatio whose dynamic residual contains sqrt(a) at a = 0: the value is finite, the
    derivative of the dynamic term w.r.t. `a` is not.  Under every specification that does not select `a` for
    the dynamic term the gradient of the total (and of the dynamic term) w.r.t. `a` must be exactly 0 -- the
    contribution of an unselected pair is zero whatever its own derivative is -- and the gradients w.r.t. the
    selected groups must be those of the regular problem."""
    import jax
    import jax.numpy as jnp
    import numpy as np
    from harness import core
    from harness.polynet import P, make_pinn
    from jinns.parameters import Params

    kind = case["kind"]
    c = [float(Fraction(x)) for x in case["c"]]
    nv = 1
    poly = P(nv, {(0,): Fraction(case["c"][0]), (1,): Fraction(case["c"][1]), (2,): Fraction(case["c"][2])})
    eq_type = "ODE" if kind == "ode" else "statio_PDE"
    pinn = make_pinn([poly], eq_type)
    params = Params(nn_params=pinn.init_params(),
                    eq_params={"a": jnp.array(0.0), "b": jnp.array(float(Fraction(case["b"])))})
    pts = jnp.array([[float(Fraction(x))] for x in case["pts"]])
    if kind == "ode":
        from jinns.loss import ODE, LossODE, LossWeightsODE
        from jinns.data._Batchs import ODEBatch
        from jinns.parameters import DerivativeKeysODE as DK

        class Dyn(ODE):
            def equation(self, t, u, params):
                return u(t, params) * params.eq_params["b"] + jnp.sqrt(params.eq_params["a"])

        batch = ODEBatch(temporal_batch=pts[:, 0])

        def build(dk):
            return LossODE(u=pinn, dynamic_loss=Dyn(Tmax=1), derivative_keys=dk, initial_condition=(0.0, 1.0),
                           loss_weights=LossWeightsODE(dyn_loss=1.0, initial_condition=1.0), params=params)
        second = "initial_condition"
    else:
        from jinns.loss import PDEStatio, LossPDEStatio, LossWeightsPDEStatio
        from jinns.data._Batchs import PDEStatioBatch
        from jinns.parameters import DerivativeKeysPDEStatio as DK

        class Dyn(PDEStatio):
            def equation(self, x, u, params):
                return u(x, params) * params.eq_params["b"] + jnp.sqrt(params.eq_params["a"])

        batch = PDEStatioBatch(inside_batch=pts, border_batch=jnp.stack([pts[:1], pts[1:2]], axis=-1))

        def build(dk):
            return LossPDEStatio(u=pinn, dynamic_loss=Dyn(), derivative_keys=dk,
                                 omega_boundary_fun=lambda x: 1.0, omega_boundary_condition="dirichlet",
                                 loss_weights=LossWeightsPDEStatio(dyn_loss=1.0, boundary_loss=1.0), params=params)
        second = "boundary_loss"

    def tree(m):
        return Params(nn_params=bool(m[0]), eq_params={"a": bool(m[1]), "b": bool(m[2])})

    def mk(spec):
        return spec if (spec is None or isinstance(spec, str)) else tree(spec)

    def selects(spec, g):  # g: 0 nn, 1 a, 2 b
        if spec is None or spec == "nn_params":
            return g == 0
        if spec == "eq_params":
            return g != 0
        if spec == "both":
            return True
        return bool(spec[g])

    results = []
    for label, sd, s2 in SING_SPECS:
        kw = {}
        try:
            if sd is None and s2 is None:
                dk = None
            elif isinstance(sd, str) or isinstance(s2, str):
                dk = DK.from_str(params=params, dyn_loss=mk(sd) if sd is not None else "nn_params",
                                 **{second: mk(s2) if s2 is not None else "nn_params"})
            else:
                dk = DK(dyn_loss=mk(sd), params=params, **{second: mk(s2)})
            loss = build(dk)
            f_tot = lambda p: loss.evaluate(p, batch)[0]
            f_dyn = lambda p: loss.evaluate(p, batch)[1]["dyn_loss"]
            if case["path"] == "jit":
                f_tot, f_dyn = jax.jit(f_tot), jax.jit(f_dyn)
            v = f_tot(params)
            gt, gd = jax.grad(f_tot)(params), jax.grad(f_dyn)(params)
        except Exception as e:
            results.append({"label": label, "error": core.err_kind(e), "msg": str(e)[:200]})
            continue

        def pack(g):
            out = {}
            for name, x in (("nn", g.nn_params.coef), ("a", g.eq_params["a"]), ("b", g.eq_params["b"])):
                arr = np.asarray(x, dtype=float).reshape(-1)
                out[name] = [core.qstr(z) if np.isfinite(z) else repr(float(z)) for z in arr]
            return out

        results.append({"label": label, "value_finite": bool(np.isfinite(np.asarray(v))), "total": pack(gt),
                        "dyn": pack(gd), "dyn_selects": [selects(sd, g) for g in range(3)],
                        "second_selects": [selects(s2, g) for g in range(3)]})
    return {"singular": results}


def _judge_singular(case, obs):
    nontriv = False
    for r in obs["singular"]:
        if "error" in r:
            return {"status": "violation", "clause": "valid-specification-rejected", "where": r}
        if not r["value_finite"]:
            return {"status": "disagree", "clause": "singular-probe-value-not-finite"}
        for gi, g in enumerate(("nn", "a", "b")):
            if not r["dyn_selects"][gi]:
                # unselected (dynamic term, g): exactly zero, finite -- in the term's own gradient ...
                if any(x not in ("0",) for x in r["dyn"][g]):
                    return {"status": "violation", "clause": "unselected-pair-contributes-nonzero",
                            "where": {"spec": r["label"], "term": "dyn_loss", "group": g, "gradient": r["dyn"][g]}}
                nontriv = nontriv or g == "a"
        # ... and in the total: `a` only enters the dynamic term, so whenever the dynamic term does not select
        # it the total gradient w.r.t. `a` is the (zero) contribution of the other term
        if not r["dyn_selects"][1] and any(x != "0" for x in r["total"]["a"]):
            return {"status": "violation", "clause": "unselected-pair-contributes-nonzero",
                    "where": {"spec": r["label"], "term": "total", "group": "a", "gradient": r["total"]["a"]}}
    return {"status": "ok", "clause": None, "nontrivial": nontriv}



# ------------------------------------------------------------------------------------------------
# parameter-batch flavour: routing of every term under a batch of per-sample equation parameters
# ------------------------------------------------------------------------------------------------
PB_SPECS = [
    ("default", None),
    ("all_nn", {"dyn_loss": "nn_params", "initial_condition": "nn_params", "observations": "nn_params"}),
    ("ic_eq", {"dyn_loss": "both", "initial_condition": "eq_params", "observations": "nn_params"}),
    ("ic_tree", {"dyn_loss": (False, True, True), "initial_condition": (False, True, False),
                 "observations": (True, False, False)}),
    ("obs_eq", {"dyn_loss": "nn_params", "initial_condition": "both", "observations": "eq_params"}),
]


def _pbatch_cases(rng, tier):
    out = []
    for rep in range(1 if tier == "quick" else 6):
        out.append({"kind": "ode", "pbatch_probe": True, "c": [str(rng.choice([-2, -1, 1, 2])) for _ in range(3)],
                    "a": str(rng.choice([1, 2, 3])), "bs": [str(x) for x in rng.sample([-2, -1, 1, 2, 3], 2)],
                    "ts": [str(x) for x in rng.sample([1, 2, 3], 2)], "path": ["eager", "jit"][rep % 2]})
    return out


def _run_pbatch(case):
    """LossODE (dynamic + initial condition + observations) on a batch that carries a parameter batch for `b`,
    the network reading `a` and `b`: for every specification, the gradient of every returned term w.r.t. a group
    it does not select must be exactly 0, and w.r.t. a group it selects it must be the gradient of that term under
    the all-selecting specification (routing does not depend on the presence of a parameter batch)."""
    import jax
    import jax.numpy as jnp
    import numpy as np
    from harness import core
    from harness.polynet import P, make_pinn
    from jinns.parameters import Params, DerivativeKeysODE as DK
    from jinns.loss import ODE, LossODE, LossWeightsODE
    from jinns.data._Batchs import ODEBatch

    poly = P(3, {(0, 0, 0): Fraction(case["c"][0]), (1, 0, 0): Fraction(case["c"][1]), (0, 1, 0): 1,
                 (0, 0, 1): Fraction(case["c"][2]), (1, 0, 1): 1})
    itf = lambda inp, p: jnp.concatenate([inp, jnp.reshape(p.eq_params["a"], (1,)), jnp.reshape(p.eq_params["b"], (1,))])
    pinn = make_pinn([poly], "ODE", input_transform=itf)
    params = Params(nn_params=pinn.init_params(),
                    eq_params={"a": jnp.array(float(Fraction(case["a"]))), "b": jnp.array(1.0)})

    class Dyn(ODE):
        def equation(self, t, u, params):
            return u(t, params) * params.eq_params["a"] + params.eq_params["b"]

    ts = jnp.array([float(Fraction(x)) for x in case["ts"]])
    batch = ODEBatch(temporal_batch=ts,
                     param_batch_dict={"b": jnp.array([[float(Fraction(x))] for x in case["bs"]])},
                     obs_batch_dict={"pinn_in": ts, "val": jnp.array([[1.0], [-1.0]]), "eq_params": {}})
    terms = ["dyn_loss", "initial_condition", "observations"]

    def build(dk):
        return LossODE(u=pinn, dynamic_loss=Dyn(Tmax=1), derivative_keys=dk, initial_condition=(0.0, 1.0),
                       loss_weights=LossWeightsODE(dyn_loss=1.0, initial_condition=1.0, observations=1.0), params=params)

    def tree(m):
        return Params(nn_params=bool(m[0]), eq_params={"a": bool(m[1]), "b": bool(m[2])})

    def selects(spec, g):
        if spec is None or spec == "nn_params":
            return g == 0
        if spec == "eq_params":
            return g != 0
        if spec == "both":
            return True
        return bool(spec[g])

    def grads(loss):
        out = {}
        for nm in terms:
            f = lambda p, nm=nm: loss.evaluate(p, batch)[1][nm]
            if case["path"] == "jit":
                f = jax.jit(f)
            g = jax.grad(f)(params)
            out[nm] = {"nn": core.qlist(np.asarray(g.nn_params.coef).reshape(-1)),
                       "a": core.qlist(np.asarray(g.eq_params["a"]).reshape(-1)),
                       "b": core.qlist(np.asarray(g.eq_params["b"]).reshape(-1))}
        return out

    try:
        ref = grads(build(DK.from_str(params=params, dyn_loss="both", initial_condition="both", observations="both")))
    except Exception as e:
        return {"pbatch": [{"label": "all_true", "error": core.err_kind(e), "msg": str(e)[:200]}], "ref": None}
    results = []
    for label, spec in PB_SPECS:
        try:
            if spec is None:
                dk = None
            elif all(isinstance(v, str) for v in spec.values()):
                dk = DK.from_str(params=params, **spec)
            else:
                dk = DK(params=params, **{k: tree(v) for k, v in spec.items()})
            g = grads(build(dk))
        except Exception as e:
            results.append({"label": label, "error": core.err_kind(e), "msg": str(e)[:200]})
            continue
        results.append({"label": label, "grads": g,
                        "selects": {nm: [selects(None if spec is None else spec[nm], gi) for gi in range(3)] for nm in terms}})
    return {"pbatch": results, "ref": ref}


def _judge_pbatch(case, obs):
    if obs["ref"] is None:
        return {"status": "violation", "clause": "valid-specification-rejected", "where": obs["pbatch"][0]}
    for r in obs["pbatch"]:
        if "error" in r:
            return {"status": "violation", "clause": "valid-specification-rejected", "where": r}
        for nm, sel in r["selects"].items():
            for gi, g in enumerate(("nn", "a", "b")):
                got, full = r["grads"][nm][g], obs["ref"][nm][g]
                if not sel[gi] and any(x != "0" for x in got):
                    return {"status": "violation", "clause": "unselected-pair-contributes-nonzero",
                            "where": {"spec": r["label"], "term": nm, "group": g, "gradient": got, "flavour": "parameter batch"}}
                if sel[gi] and got != full:
                    return {"status": "violation", "clause": "selected-pair-gradient-differs-from-the-term-gradient",
                            "where": {"spec": r["label"], "term": nm, "group": g, "gradient": got, "all_true": full}}
    return {"status": "ok", "clause": None}



def _f(s):
    return float(Fraction(s))


class _Prob:
    """everything run_impl needs about one problem, built from the real jinns constructors"""


def _build(case):
    import jax
    import jax.numpy as jnp
    import equinox as eqx
    from jinns.parameters import Params, ParamsDict
    from harness.polynet import P, make_pinn

    kind, eq = case["kind"], case["eq"]
    keys = sorted(eq)
    single = kind in TERMS
    nets = sorted(case["net"])
    nvars = len(case["net"][nets[0]][0][0])
    pr = _Prob()
    pr.kind, pr.keys, pr.nets, pr.single = kind, keys, nets, single

    def eqval(p, k):
        return p.eq_params[k]

    def B(p):  # the way `b` enters (scalar, or a vector whose entries enter with different weights)
        if "b" not in eq:
            return 0.0
        b = p.eq_params["b"]
        return b if eq["b"] == 0 else b[0] + 2.0 * b[1]

    def A(p):
        a = p.eq_params["a"]
        return a if eq["a"] == 0 else a[0] - 2.0 * a[1]

    # networks: z = (inputs..., A), output + B * (last input)
    def itf(inp, p):
        return jnp.concatenate([inp, jnp.reshape(A(p), (1,))])

    def otf(inp, o, p):
        return o + B(p) * inp[-1]

    eq_type = {"ode": "ODE", "sys_ode": "ODE", "statio": "statio_PDE", "sys_pde": "statio_PDE",
               "nonstatio": "nonstatio_PDE"}[kind]
    pinns = {}
    for u in nets:
        poly = P(nvars, {tuple(e): c for e, c in case["net"][u]})
        pinns[u] = make_pinn([poly], eq_type, input_transform=itf, output_transform=otf)
    pr.pinns = pinns
    eqp = {k: (jnp.array(_f(case["eqv"][k][0])) if eq[k] == 0 else jnp.array([_f(x) for x in case["eqv"][k]]))
           for k in keys}
    if single:
        pr.params = Params(nn_params=pinns["u"].init_params(), eq_params=eqp)
    else:
        pr.params = ParamsDict(nn_params={u: pinns[u].init_params() for u in nets}, eq_params=eqp)
    w = [_f(x) for x in case["w"]]
    pr.w = w

    def tree(m, cls=Params):
        return cls(nn_params=bool(m[0]), eq_params={k: bool(m[1 + i]) for i, k in enumerate(keys)})

    pr.tree = tree

    # ---------------------------------------------------------------- ODE
    if kind in ("ode", "sys_ode"):
        from jinns.loss import ODE, LossODE, SystemLossODE, LossWeightsODE, LossWeightsODEDict
        from jinns.data._Batchs import ODEBatch
        from jinns.parameters import DerivativeKeysODE

        pr.dk_cls = DerivativeKeysODE

        if single:
            class Dyn(ODE):
                def equation(self, t, u, params):
                    du = jax.grad(lambda s: u(s, params)[0])(t)
                    return jnp.reshape(du - A(params) * u(t, params)[0] + B(params), (1,))

            dyn = Dyn(Tmax=1)
            ic = (_f(case["ic"]["u"][0]), _f(case["ic"]["u"][1]))
            obs = case["obs"]["u"]
            pr.batch = ODEBatch(
                temporal_batch=jnp.array([_f(x) for x in case["t"]]),
                obs_batch_dict={"pinn_in": jnp.array([_f(o[0]) for o in obs]),
                                "val": jnp.array([[_f(o[1])] for o in obs]), "eq_params": {}})

            def build(dk, params=None):
                return LossODE(u=pinns["u"], dynamic_loss=dyn, derivative_keys=dk, initial_condition=ic,
                               loss_weights=LossWeightsODE(dyn_loss=w[0], initial_condition=w[1], observations=w[2]),
                               params=params)

            pr.build = build
        else:
            class DynS(ODE):
                sign: float = 1.0

                def equation(self, t, u_dict, params_dict):
                    pu, pv = params_dict.extract_params("u"), params_dict.extract_params("v")
                    uu = lambda s: u_dict["u"](s, pu)[0]
                    vv = lambda s: u_dict["v"](s, pv)[0]
                    return jnp.reshape(jax.grad(uu)(t) + self.sign * jax.grad(vv)(t)
                                       - A(params_dict) * uu(t) * 1.0 + B(params_dict) - self.sign * vv(t), (1,))

            dyns = {"e1": DynS(Tmax=1, sign=1.0), "e2": DynS(Tmax=1, sign=-1.0)}
            ics = {u: (_f(case["ic"][u][0]), _f(case["ic"][u][1])) for u in nets}
            pr.batch = ODEBatch(
                temporal_batch=jnp.array([_f(x) for x in case["t"]]),
                obs_batch_dict={u: {"pinn_in": jnp.array([_f(o[0]) for o in case["obs"][u]]),
                                    "val": jnp.array([[_f(o[1])] for o in case["obs"][u]]), "eq_params": {}}
                                for u in nets})

            def build(dkd, params=None, weights=None):
                weights = weights or {"u": 1.0, "v": 1.0}
                return SystemLossODE(
                    u_dict=pinns, dynamic_loss_dict=dyns, derivative_keys_dict=dkd, initial_condition_dict=ics,
                    loss_weights=LossWeightsODEDict(dyn_loss=1.0, initial_condition=dict(weights),
                                                    observations=dict(weights)),
                    params_dict=pr.params if params is None else params)

            pr.build = build
    # ---------------------------------------------------------------- PDE
    else:
        from jinns.loss import (PDEStatio, PDENonStatio, LossPDEStatio, LossPDENonStatio, SystemLossPDE,
                                LossWeightsPDEStatio, LossWeightsPDENonStatio, LossWeightsPDEDict)
        from jinns.data._Batchs import PDEStatioBatch, PDENonStatioBatch
        from jinns.parameters import DerivativeKeysPDEStatio, DerivativeKeysPDENonStatio

        arr = lambda rows: jnp.array([[_f(x) for x in r] for r in rows])
        norm_samples = arr(case["norm"])
        L = _f(case["L"])

        def obsd(u):
            return {"pinn_in": arr([o[0] for o in case["obs"][u]]),
                    "val": jnp.array([[_f(o[1])] for o in case["obs"][u]]), "eq_params": {}}

        # border_batch[..., facet]: (rows, dim, facets)
        border = jnp.array([[[_f(case["border"][r][f][d]) for f in range(2)]
                             for d in range(len(case["border"][r][0]))] for r in range(len(case["border"]))])
        if kind == "nonstatio":
            pr.dk_cls = DerivativeKeysPDENonStatio

            class DynN(PDENonStatio):
                def equation(self, t, x, u, params):
                    ut = jax.grad(lambda s: u(s, x, params)[0])(t)[0]
                    ux = lambda y: jax.grad(lambda z: u(t, z, params)[0])(y)[0]
                    uxx = jax.grad(ux)(x)[0]
                    return jnp.reshape(ut - A(params) * uxx + B(params) + u(t, x, params)[0], (1,))

            dyn = DynN(Tmax=1)
            bv = _f(case["bval"]["u"])
            icv = [_f(x) for x in case["icv"]]
            pr.batch = PDENonStatioBatch(times_x_inside_batch=arr(case["inside"]), times_x_border_batch=border,
                                         obs_batch_dict=obsd("u"))
            bfun = lambda t, dx: jnp.array([bv]) + 0.0 * t
            icfun = lambda x: jnp.array([icv[0]]) + icv[1] * x

            def build(dk, params=None):
                return LossPDENonStatio(
                    u=pinns["u"], dynamic_loss=dyn, derivative_keys=dk,
                    loss_weights=LossWeightsPDENonStatio(dyn_loss=w[0], norm_loss=w[1], boundary_loss=w[2],
                                                         observations=w[3], initial_condition=w[4]),
                    omega_boundary_fun=bfun, omega_boundary_condition="dirichlet", norm_samples=norm_samples,
                    norm_int_length=L, initial_condition_fun=icfun, params=params)

            pr.build = build
        elif kind == "statio":
            pr.dk_cls = DerivativeKeysPDEStatio

            class DynP(PDEStatio):
                def equation(self, x, u, params):
                    ux = lambda y: jax.grad(lambda z: u(z, params)[0])(y)[0]
                    uxx = jax.grad(ux)(x)[0]
                    return jnp.reshape(uxx + A(params) * u(x, params)[0] - B(params), (1,))

            dyn = DynP(Tmax=1)
            bv = _f(case["bval"]["u"])
            pr.batch = PDEStatioBatch(inside_batch=arr(case["inside"]), border_batch=border, obs_batch_dict=obsd("u"))
            bfun = lambda dx: jnp.array([bv])

            def build(dk, params=None):
                return LossPDEStatio(
                    u=pinns["u"], dynamic_loss=dyn, derivative_keys=dk,
                    loss_weights=LossWeightsPDEStatio(dyn_loss=w[0], norm_loss=w[1], boundary_loss=w[2],
                                                      observations=w[3]),
                    omega_boundary_fun=bfun, omega_boundary_condition="dirichlet", norm_samples=norm_samples,
                    norm_int_length=L, params=params)

            pr.build = build
        else:  # sys_pde (stationary, two unknowns)
            pr.dk_cls = DerivativeKeysPDEStatio

            class DynSP(PDEStatio):
                sign: float = 1.0

                def equation(self, x, u_dict, params_dict):
                    pu, pv = params_dict.extract_params("u"), params_dict.extract_params("v")
                    uu = lambda z: u_dict["u"](z, pu)[0]
                    vv = lambda z: u_dict["v"](z, pv)[0]
                    uxx = jax.grad(lambda y: jax.grad(uu)(y)[0])(x)[0]
                    vx = jax.grad(vv)(x)[0]
                    return jnp.reshape(uxx + self.sign * vx + A(params_dict) * vv(x) - B(params_dict) + uu(x), (1,))

            dyns = {"e1": DynSP(Tmax=1, sign=1.0), "e2": DynSP(Tmax=1, sign=-1.0)}
            bvs = {u: _f(case["bval"][u]) for u in nets}
            bfuns = {u: (lambda dx, b=bvs[u]: jnp.array([b])) for u in nets}
            pr.batch = PDEStatioBatch(inside_batch=arr(case["inside"]), border_batch=border,
                                      obs_batch_dict={u: obsd(u) for u in nets})

            def build(dkd, params=None, weights=None):
                weights = weights or {"u": 1.0, "v": 1.0}
                return SystemLossPDE(
                    u_dict=pinns, dynamic_loss_dict=dyns, derivative_keys_dict=dkd,
                    omega_boundary_fun_dict=bfuns, omega_boundary_condition_dict={u: "dirichlet" for u in nets},
                    norm_samples_dict={u: norm_samples for u in nets}, norm_int_length_dict={u: L for u in nets},
                    loss_weights=LossWeightsPDEDict(dyn_loss=1.0, norm_loss=dict(weights),
                                                    boundary_loss=dict(weights), observations=dict(weights),
                                                    initial_condition=dict(weights)),
                    params_dict=pr.params if params is None else params)

            pr.build = build

    # ---------------------------------------------------------------- layout
    V = 1 + len(keys)
    if single:
        pr.terms = [(n, None) for n in TERMS[kind]]
        pr.returned = list(TERMS[kind])
        pr.gmaps = [list(range(V)) for _ in pr.terms]
    else:
        pr.terms = SYS_TERMS[kind]
        pr.returned = SYS_RETURNED[kind]
        nn = len(nets)
        pr.gmaps = []
        for name, u in pr.terms:
            if u is None:  # ParamsDict mask: one boolean for all the networks
                pr.gmaps.append([0] * nn + list(range(1, V)))
            else:  # Params(nn_params[u], eq_params)
                pr.gmaps.append([0 if x == u else -1 for x in nets] + list(range(1, V)))
    pr.members = [[k for k, (n, _) in enumerate(pr.terms) if n == r] for r in pr.returned]
    return pr


# ------------------------------------------------------------------------------------------------
# constructing the DerivativeKeys objects with the real constructors
# ------------------------------------------------------------------------------------------------
def _keys_object(pr, cls, fields, specs, params, unused):
    """one DerivativeKeys* object whose `fields` follow `specs`; the fields in `unused` (not read by the loss
    under test) are given an all-false tree so that reading them instead of the right one shows"""
    nfalse = pr.tree([False] * (1 + len(pr.keys)))
    kinds = {s["k"] for s in specs}
    if "s" in kinds:
        kw = {}
        for f, s in zip(fields, specs):
            if s["k"] == "s":
                kw[f] = s["s"]
            elif s["k"] == "t":
                kw[f] = pr.tree(s["m"])
        for f in unused:
            kw[f] = nfalse
        return cls.from_str(params, **kw)
    kw = {f: pr.tree(s["m"]) for f, s in zip(fields, specs) if s["k"] == "t"}
    for f in unused:
        kw[f] = nfalse
    if "d" in kinds:
        return cls(**kw, params=params)
    return cls(**kw)


def _construct(pr, specs):
    """the object(s) handed to the loss for `specs` (one per model term); raises what jinns raises"""
    from jinns.parameters import ParamsDict

    if pr.single:
        fields = [n for n, _ in pr.terms]
        if all(s["k"] == "d" for s in specs):
            return pr.build(None, pr.params).derivative_keys  # derivative_keys=None, params=...
        return _keys_object(pr, pr.dk_cls, fields, specs, pr.params, [])
    # system: per-unknown objects; the dynamic term's ParamsDict mask
    per_u = {}
    for u in pr.nets:
        idx = [k for k, (n, uu) in enumerate(pr.terms) if uu == u]
        fields = [pr.terms[k][0] for k in idx]
        all_fields = ["dyn_loss", "observations", "initial_condition"] if pr.kind == "sys_ode" else \
            ["dyn_loss", "observations", "boundary_loss", "norm_loss"]
        unused = [f for f in all_fields if f not in fields]
        sp = [specs[k] for k in idx]
        if all(s["k"] == "d" for s in sp):
            per_u[u] = None
        else:
            per_u[u] = _keys_object(pr, pr.dk_cls, fields, sp, pr.params.extract_params(u), unused)
    if all(v is None for v in per_u.values()):
        loss = pr.build(None)
    else:
        loss = pr.build(dict(per_u))
    dkd = {u: loss.derivative_keys_dict[u] for u in pr.nets}
    s0 = specs[0]
    if s0["k"] == "d":
        dyn_mask = loss.derivative_keys_dyn_loss.dyn_loss  # what the constructor chose
    elif s0["k"] == "t":
        dyn_mask = pr.tree(s0["m"], ParamsDict)  # no public way: installed with eqx.tree_at
        # when the mask is one of the three named ones, obtain it from the public `from_str` on the ParamsDict
        # (the ParamsDict branch of `_get_masked_parameters`): it must be the same boolean tree
        m = [bool(x) for x in s0["m"]]
        named = {"both": [True] * len(m), "nn_params": [True] + [False] * (len(m) - 1),
                 "eq_params": [False] + [True] * (len(m) - 1)}
        for name, mm in named.items():
            if mm == m:
                dyn_mask = pr.dk_cls.from_str(params=pr.params, dyn_loss=name).dyn_loss
    else:
        raise RuntimeError("the dynamic term of a system loss has no string specification")
    return (dkd, dyn_mask)


def _readback(pr, obj):
    import jax

    def bools(m):
        return [bool(m.nn_params)] + [bool(x) for x in jax.tree_util.tree_leaves(m.eq_params)]

    if pr.single:
        return [bools(getattr(obj, n)) for n, _ in pr.terms]
    dkd, dyn_mask = obj
    return [bools(dyn_mask) if u is None else bools(getattr(dkd[u], n)) for n, u in pr.terms]


# ------------------------------------------------------------------------------------------------
# run_impl
# ------------------------------------------------------------------------------------------------
STENCIL = [(-3, Fraction(-1, 60)), (-2, Fraction(3, 20)), (-1, Fraction(-3, 4)), (1, Fraction(3, 4)),
           (2, Fraction(-3, 20)), (3, Fraction(1, 60))]


def run_impl(case):
    import jax
    import jax.numpy as jnp
    import numpy as np
    import equinox as eqx
    from harness import core

    if case.get("singular"):
        return _run_singular(case)
    if case.get("pbatch_probe"):
        return _run_pbatch(case)
    pr = _build(case)
    params, batch = pr.params, pr.batch
    leaves, treedef = jax.tree_util.tree_flatten(params)
    paths = [jax.tree_util.keystr(p) for p, _ in jax.tree_util.tree_flatten_with_path(params)[0]]
    dims = [int(np.size(x)) for x in leaves]
    returned = pr.returned

    def install(obj, weights=None):
        """the loss object for the constructed derivative keys, by the public constructor (the ParamsDict mask
        of a system's dynamic term has no public setter: it is installed with eqx.tree_at)"""
        if pr.single:
            return pr.build(obj)
        dkd, dyn_mask = obj
        loss = pr.build(dict(dkd), weights=weights)
        return eqx.tree_at(lambda l: l.derivative_keys_dyn_loss.dyn_loss, loss, dyn_mask)

    def everything(loss, p):
        """user form: value_and_grad of the total (what jinns.solve calls), jax.grad of every returned term"""
        (tot, terms), gtot = jax.value_and_grad(loss.evaluate, has_aux=True)(p, batch)
        gts = [jax.grad(lambda q, n=n: loss.evaluate(q, batch)[1][n])(p) for n in returned]
        return tot, [terms[n] for n in returned], gtot, gts

    def everything_vjp(loss, p):
        """the same quantities with one trace of `evaluate` for all the terms: grad f = (vjp f)(1), so the
        gradient of returned term r is the pull-back of the r-th unit cotangent"""
        (tot, terms), gtot = jax.value_and_grad(loss.evaluate, has_aux=True)(p, batch)

        def tv(q):
            d = loss.evaluate(q, batch)[1]
            return jnp.stack([d[n] for n in returned])

        vals, pull = jax.vjp(tv, p)
        eye = jnp.eye(len(returned), dtype=vals.dtype)
        gts = [pull(eye[r])[0] for r in range(len(returned))]
        return tot, [vals[r] for r in range(len(returned))], gtot, gts

    n_compiled = []
    if pr.single:
        # the DerivativeKeys object is the argument; the loss is built inside by the public constructor
        f_arg = jax.jit(lambda obj, p: everything_vjp(install(obj), p))
        run_arg = lambda obj: f_arg(obj, params)
        n_compiled.append(f_arg)

        def runner(weights):
            return run_arg
    else:
        # (building a system loss under jit trips equinox's init check on traced leaves, so:) the loss is built
        # outside by the public constructor and handed to ONE jitted function with its booleans and arrays as
        # traced leaves, everything else (callables, floats, slices) being identical for all specifications
        dynamic = lambda x: isinstance(x, bool) or eqx.is_array(x)

        def runner(weights):
            st0 = []
            fj = jax.jit(lambda dyn, p: everything_vjp(eqx.combine(dyn, st0[0]), p))
            n_compiled.append(fj)

            def run(obj):
                dyn, st = eqx.partition(install(obj, weights), dynamic)
                if not st0:
                    st0.append(st)
                elif not eqx.tree_equal(st, st0[0]):
                    raise RuntimeError("harness: static part of the loss depends on the specification")
                return fj(dyn, params)

            return run

        run_arg = runner(None)

    def flat(g):
        return [core.qlist(np.asarray(x).reshape(-1)) for x in jax.tree_util.tree_leaves(g)]

    def observe(out):
        tot, tv, gtot, gts = jax.device_get(out)
        return {"total_val": core.qstr(tot), "term_vals": [core.qstr(x) for x in tv],
                "total_grad": flat(gtot), "term_grads": [flat(g) for g in gts]}

    # ---- set-up: all-true specification; per model term values / gradients
    T, V = len(pr.terms), 1 + len(pr.keys)
    all_true = [spec_tree([1] * V)] * T
    obj_true = _construct(pr, all_true)
    base = observe(run_arg(obj_true))
    if pr.single:
        base_vals = base["term_vals"]
        base_grads = base["term_grads"]
        def vals_single(p):
            d = install(obj_true).evaluate(p, batch)[1]
            return jnp.stack([d[n] for n in returned])

        vals_fn = jax.jit(vals_single)
        consistent = True
    else:
        # per-unknown terms isolated by indicator loss weights (public constructor), all-true specification
        ind = {u: {x: (1.0 if x == u else 0.0) for x in pr.nets} for u in pr.nets}
        per_u = {u: observe(runner(ind[u])(obj_true)) for u in pr.nets}
        base_vals, base_grads = [], []
        for n, u in pr.terms:
            src = base if u is None else per_u[u]
            r = returned.index(n)
            base_vals.append(src["term_vals"][r])
            base_grads.append(src["term_grads"][r])
        # the weighted composition the isolation relies on: returned term = sum of its members
        consistent = True
        for r, mem in enumerate(pr.members):
            if not mem:
                continue
            if sum(Fraction(base_vals[k]) for k in mem) != Fraction(base["term_vals"][r]):
                consistent = False
            for g in range(len(dims)):
                s = [sum(Fraction(base_grads[k][g][j]) for k in mem) for j in range(dims[g])]
                if s != [Fraction(x) for x in base["term_grads"][r][g]]:
                    consistent = False

        losses = {None: install(obj_true)}
        for u in pr.nets:
            losses[u] = install(obj_true, ind[u])

        def vals_sys(p):
            ev = {u: l.evaluate(p, batch)[1] for u, l in losses.items()}
            return jnp.stack([ev[u][n] for n, u in pr.terms])

        vals_fn = jax.jit(vals_sys)

    # ---- exact reference gradients from the implementation's own term values (7-node stencil, exact for
    #      polynomials of degree <= 6 in each coordinate)
    ref = [[[None] * dims[g] for g in range(len(dims))] for _ in range(T)]
    for g, leaf in enumerate(leaves):
        a = np.asarray(leaf, dtype=float)
        h = 1.0 if g < (1 if pr.single else len(pr.nets)) else 0.5
        for j in range(dims[g]):
            acc = [Fraction(0)] * T
            for s, wgt in STENCIL:
                b = a.copy().reshape(-1)
                b[j] += s * h
                lv = list(leaves)
                lv[g] = jnp.asarray(b.reshape(a.shape))
                v = np.asarray(vals_fn(jax.tree_util.tree_unflatten(treedef, lv)))
                for k in range(T):
                    acc[k] += wgt * Fraction(float(v[k]))
            for k in range(T):
                ref[k][g][j] = core.qstr(acc[k] / Fraction(h))
    ref_poly = _poly_reference(case, pr, leaves, dims) if case["kind"] == "ode" else None

    # ---- the specifications
    obs = []
    for specs, path in assignments(case):
        rec = {"specs": specs, "path": path}
        try:  # whatever jinns raises for this specification (construction or evaluation) is an observation
            obj = _construct(pr, specs)
            masks = _readback(pr, obj)
            if path == "jit_arg":
                out = run_arg(obj)
            else:
                loss = install(obj)  # python booleans inside
                if path == "eager":
                    out = everything(loss, params)
                else:
                    out = jax.jit(lambda p: everything(loss, p))(params)
            rec.update(observe(out))
            rec["masks"] = masks
            rec["error"] = None
        except Exception as e:
            rec = {"specs": specs, "path": path, "error": core.err_kind(e), "message": str(e)[:300]}
        obs.append(rec)
    return {
        "groups": paths, "dims": dims, "gmaps": pr.gmaps, "n_view": [V] * T, "returned": pr.members,
        "terms": [f"{n}" if u is None else f"{n}[{u}]" for n, u in pr.terms],
        "base_vals": base_vals, "base_total": base["total_val"], "base_grads": base_grads,
        "ref_stencil": ref, "ref_poly": ref_poly, "isolation_consistent": consistent,
        "jit_cache": int(n_compiled[0]._cache_size()), "obs": obs,
    }


def _poly_reference(case, pr, leaves, dims):
    """exact gradients of the three ODE terms from the exact polynomial `P` in the parameter variables
    (network coefficients in the order of the coefficient matrix, then the eq_params leaves)"""
    import numpy as np
    from harness import core
    from harness.polynet import P

    eq, keys = case["eq"], pr.keys
    net = pr.pinns["u"]
    exps = list(net.static.exps)
    K = len(exps)
    nv = sum(dims)
    off = [0]
    for d in dims:
        off.append(off[-1] + d)
    var = lambda i: P.var(nv, i)
    C = [var(i) for i in range(K)]
    gi = {k: 1 + i for i, k in enumerate(keys)}

    def lin(k, wts):
        if k not in eq:
            return P.const(nv, 0)
        o = off[gi[k]]
        return var(o) if eq[k] == 0 else var(o) * wts[0] + var(o + 1) * wts[1]

    Ap, Bp = lin("a", (1, -2)), lin("b", (1, 2))

    def powP(p, n):
        r = P.const(nv, 1)
        for _ in range(n):
            r = r * p
        return r

    def u_at(t):
        t = Fraction(t)
        return sum((C[i] * (t ** e[0]) * powP(Ap, e[1]) for i, e in enumerate(exps)), P.const(nv, 0)) + Bp * t

    def du_at(t):
        t = Fraction(t)
        s = P.const(nv, 0)
        for i, e in enumerate(exps):
            if e[0] > 0:
                s = s + C[i] * (e[0] * t ** (e[0] - 1)) * powP(Ap, e[1])
        return s + Bp

    w = [Fraction(x) for x in case["w"]]
    ts = [Fraction(x) for x in case["t"]]
    dyn = P.const(nv, 0)
    for t in ts:
        r = du_at(t) - Ap * u_at(t) + Bp
        dyn = dyn + r * r
    dyn = dyn * (w[0] / len(ts))
    t0, u0 = (Fraction(x) for x in case["ic"]["u"])
    ic = (u_at(t0) - u0) * (u_at(t0) - u0) * w[1]
    ob = P.const(nv, 0)
    for s, y in case["obs"]["u"]:
        d = u_at(Fraction(s)) - Fraction(y)
        ob = ob + d * d
    ob = ob * (w[2] / len(case["obs"]["u"]))
    point = []
    for leaf in leaves:
        point += [Fraction(float(x)) for x in np.asarray(leaf, dtype=float).reshape(-1)]
    out = []
    for term in (dyn, ic, ob):
        out.append([[core.qstr(term.d(off[g] + j)(point)) for j in range(dims[g])] for g in range(len(dims))])
    return {"grads": out, "vals": [core.qstr(term(point)) for term in (dyn, ic, ob)]}


# ------------------------------------------------------------------------------------------------
# model side
# ------------------------------------------------------------------------------------------------
def _setup(obs):
    ref = obs["ref_poly"]["grads"] if obs.get("ref_poly") else obs["ref_stencil"]
    return {"op": "c06", "gmaps": obs["gmaps"], "n_view": obs["n_view"], "dims": obs["dims"],
            "base_vals": obs["base_vals"], "base_total": obs["base_total"], "base_grads": obs["base_grads"],
            "returned": obs["returned"], "ref_grads": ref}


def _lean_obs(o):
    if o["error"] is not None:
        return {"specs": o["specs"], "error": o["error"]}
    return {"specs": o["specs"], "error": None, "masks": o["masks"], "term_vals": o["term_vals"],
            "total_val": o["total_val"], "term_grads": o["term_grads"], "total_grad": o["total_grad"]}


def lean_request(case, obs):
    if case.get("singular") or case.get("pbatch_probe"):
        return None
    st = _setup(obs)
    items = [_lean_obs(o) for o in obs["obs"]]
    reqs = []
    for i in range(0, max(1, len(items)), CHUNK):
        reqs.append({**st, "obs": items[i:i + CHUNK]})
    return reqs


def judge(case, obs, answers):
    if case.get("singular"):
        return _judge_singular(case, obs)
    if case.get("pbatch_probe"):
        return _judge_pbatch(case, obs)
    # harness-level sanity of the set-up (two independent exact references, isolation of per-unknown terms)
    if obs.get("ref_poly") and obs["ref_poly"]["grads"] != obs["ref_stencil"]:
        return {"status": "disagree", "clause": "exact-references-differ (float inexactness or degree > 6?)"}
    if obs.get("ref_poly") and obs["ref_poly"]["vals"] != obs["base_vals"]:
        return {"status": "disagree", "clause": "term-values-differ-from-exact-polynomial (C03/C05 territory)"}
    if not obs["isolation_consistent"]:
        return {"status": "disagree", "clause": "returned-term-is-not-the-sum-of-its-per-unknown-terms (C13 territory)"}
    for ci, a in enumerate(answers):
        if not a["holds"]:
            i = a["bad_obs"]
            where = None
            if i is not None:
                o = obs["obs"][ci * CHUNK + i]
                where = {"specs": o["specs"], "path": o["path"], "error": o["error"]}
            return {"status": "violation", "clause": a["clause"], "where": where,
                    "terms": obs["terms"], "groups": obs["groups"]}
    for ci, a in enumerate(answers):
        if not a["agree"]:
            i = a["disagree_obs"]
            o = obs["obs"][ci * CHUNK + i]
            return {"status": "disagree", "clause": "model-prediction-differs",
                    "where": {"specs": o["specs"], "path": o["path"]}, "model": a["model"]}
    return {"status": "ok", "clause": None}


def nontrivial(case, obs):
    if case.get("singular"):
        return all("error" not in r for r in obs["singular"])
    if case.get("pbatch_probe"):
        return obs["ref"] is not None and all(any(x != "0" for x in obs["ref"][nm][g])
                                              for nm in ("dyn_loss", "initial_condition") for g in ("nn", "a"))
    # every (term, group of its view) all-true gradient is non-zero ...
    for k, gm in enumerate(obs["gmaps"]):
        for g, pos in enumerate(gm):
            if pos >= 0 and all(Fraction(x) == 0 for x in obs["base_grads"][k][g]):
                return False
    # ... and some pair is both selected and not selected within the case
    seen = set()
    for o in obs["obs"]:
        if o["error"] is None:
            seen.add(tuple(tuple(m) for m in o["masks"]))
    return len(seen) >= 2


def tags(case, obs):
    if case.get("pbatch_probe"):
        return [f"kind={case['kind']}", "flavour=parameter_batch(routing of every term under per-sample parameters)",
                "path=" + case["path"]]
    if case.get("singular"):
        return [f"kind={case['kind']}", "flavour=singular(non-finite derivative of an unselected pair)",
                "path=" + case["path"]]
    out = [f"kind={case['kind']}", f"groups={len(obs['dims'])}", f"terms={len(obs['terms'])}",
           f"assign={case['assign']['mode']}"]
    if any(v > 0 for v in case["eq"].values()):
        out.append("vector_eq_param")
    out.append(f"jit_compilations_for_all_specifications={obs['jit_cache']}")
    for o in obs["obs"]:
        out.append("specifications")
        ks = {s["k"] for s in o["specs"]}
        if o["error"] is not None:
            out.append("rejected:" + o["error"])
        elif "s" in ks and "t" in ks:
            out.append("ctor=from_str_mixed")
        elif "s" in ks:
            out.append("ctor=from_str")
        elif ks == {"d"}:
            out.append("ctor=default_all")
        elif "d" in ks:
            out.append("ctor=partial_default")
        if o["path"] != "jit_arg":
            out.append("path=" + o["path"])
    out.append("exact_reference=polynomial_P+stencil" if obs.get("ref_poly") else "exact_reference=stencil")
    return out
