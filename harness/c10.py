"""
C10 — network wrappers (PINN / SPINN / HYPERPINN) honour their calling and output conventions.
Correspondence: real `create_PINN` / `PINN`, `create_SPINN` / `SPINN`, `create_HYPERPINN` / `HYPERPINN`
around `eqx.nn.Linear` layers whose weights are overwritten with small integers and relu / square /
identity activations (every float64 operation exact), against JinnsModel/Wrappers.lean which receives
the weights as data and computes the forward pass in exact rationals.  Compared by equality.
"""
from __future__ import annotations

import copy
from fractions import Fraction

PROP = "C10"
LEVEL_TEXT = ("Lean 4 theorems, for every network, transform pair, slice, parameter value and input: eval_nn is "
              "ensureTrailingAxis(outSlice(outT(inputs, squeeze(net(inT(inputs, p))), p))) and never returns a bare "
              "scalar; scalar and length-one time agree; bare network parameters give the result of the full object "
              "whenever the transforms factor through nn_params (and SPINN always); shared wrappers are outSlice_k of "
              "the common wrapper; the SPINN einsum equals the tensor grid Sum_r Prod_k f_k(x_k)[m*R+r] for every d, R, "
              "number of outputs and batch size, output m reading only the m-th block of R features; the hyper-network "
              "output is split at the cumulative leaf sizes and hyperToPinn of the concatenated flattened leaves returns "
              "the leaves (round trip, for every list of leaf shapes), so the inner network is evaluated with the weights "
              "in parameter-leaf order.  The model is tied to /repo on every run by exact differential execution of the "
              "real wrappers (weights cross the protocol as data) and Holds.C10 is evaluated on the implementation's own "
              "return values.")
LEVEL_NOTE = ("Trusted: Lean kernel + {propext, Classical.choice, Quot.sound}; the hand-written wrapper model's tie to "
              "the code is differential (sees the generated architectures: 1-3 linear layers, widths <= 3, relu / square "
              "/ identity; the transform family identity / affine with constant, eq_params or input-coordinate "
              "coefficients; d <= 3, R <= 4, outputs <= 3, batch <= 4); jax.vmap, einsum, jnp.split, reshape, "
              "numpy broadcasting and equinox partition/combine are modelled (lists, folds, take/drop), not verified; "
              "smooth activations are not exact and are not exercised (the wrappers treat the activation as opaque).")
TECHNIQUE = ("Lean 4 proof (equational reasoning on the wrapper pipeline, induction over leaf lists / operands / "
             "embedding index) + exact differential correspondence with integer-weight networks")
THEOREMS = [
    "Jinns.Wrappers.evalNN_composition",
    "Jinns.Wrappers.evalNN_pure",
    "Jinns.Wrappers.evalNN_has_component_axis",
    "Jinns.Wrappers.ensureTrailingAxis_of_scalar",
    "Jinns.Wrappers.evalNN_one_output",
    "Jinns.Wrappers.pinnCall_scalar_time_eq_length_one",
    "Jinns.Wrappers.pinnCall_ode_inputs",
    "Jinns.Wrappers.pinnCall_statio_inputs",
    "Jinns.Wrappers.pinnCall_nonstatio_inputs",
    "Jinns.Wrappers.evalNN_bare_eq_full",
    "Jinns.Wrappers.family_factors_through_nn",
    "Jinns.Wrappers.pinnCall_family_bare_eq_full",
    "Jinns.Wrappers.bare_rejected_when_eq_params_needed",
    "Jinns.Wrappers.bare_rejected_when_output_needs_eq",
    "Jinns.Wrappers.shared_is_slice_of_common",
    "Jinns.Wrappers.pySlice_length",
    "Jinns.Wrappers.pyIndex_legal",
    "Jinns.Wrappers.pyIndex_neg_one",
    "Jinns.Wrappers.applySlice_legal_nonempty",
    "Jinns.Wrappers.evalNN_legal_selection_nonempty",
    "Jinns.Wrappers.einsumEntry_eq_sum_prod",
    "Jinns.Wrappers.spinnEntry_formula",
    "Jinns.Wrappers.spinnEntry_eq_gridFormula",
    "Jinns.Wrappers.spinnEntry_reads_only_block",
    "Jinns.Wrappers.spinnEval_shape",
    "Jinns.Wrappers.spinnEval_length",
    "Jinns.Wrappers.spinnCall_bare_eq_full",
    "Jinns.Wrappers.cumsum_split_points",
    "Jinns.Wrappers.jnpSplit_at_cumsum",
    "Jinns.Wrappers.hyperToPinn_roundtrip",
    "Jinns.Wrappers.hyperToPinn_eq_splitInLeafOrder",
    "Jinns.Wrappers.toMatrix_flatten",
    "Jinns.Wrappers.build_leavesOf",
    "Jinns.Wrappers.hyperEvalNN_uses_leaf_order_weights",
    "Jinns.Wrappers.hyperInput_list_order",
    "Jinns.Wrappers.hyper_bare_rejected",
    "Jinns.Wrappers.refHyper_eq_model",
    "Jinns.Wrappers.holdsC10_model_pinn",
    "Jinns.Wrappers.holdsC10_model_hyper",
    "Jinns.Wrappers.holdsC10_model_spinn",
]
LEAN_MODULES = ["JinnsProofs.C10"]
RULE = ("cases = one wrapper configuration (kind pinn / hyper / spinn; constructor create_* or the class itself; "
        "eq_type; architecture and integer weights; transform descriptions; shared slices; slice_solution; eq_params) "
        "with 2-6 calls (scalar and length-one time, bare and full parameters, arity / eq_type rejections); "
        "non-trivial = at least one call returned a value and the configuration exercises something beyond a bare "
        "linear map (an activation, a non-identity transform, a slice, d >= 2 with R >= 2 for SPINN, any HYPERPINN); "
        "distinct = distinct case dicts")
ASSUMPTIONS = [
    "float64 arithmetic of the implementation is exact on the generated inputs (integer weights, dyadic inputs and "
    "parameters): checked per case by the driver's magnitude guard (exact_ok); cases failing it are skipped and counted",
    "jax.vmap over the batch = map over samples; jnp.einsum('az,bz,..->ab..') = sum over z of the product of the operands",
    "jnp.split(v, idx) = consecutive slices v[0:i1], v[i1:i2], ..., v[iL:]; reshape is row-major",
    "jax.tree_util.tree_leaves of an _MLP's parameters lists, layer by layer, weight (out, in) then bias (out,) of "
    "every eqx.nn.Linear (rule `leafShapes`, validated on every HYPERPINN case against the real pytrees)",
    "out-of-range static indices (clamped by JAX) and scalars fed to a Linear layer are outside the model and never generated",
]
EXHAUSTIVE = {"quick": False, "thorough": False}

ACTS = ["relu", "square", "id"]


# ------------------------------------------------------------------------------------------------
# generators
# ------------------------------------------------------------------------------------------------
def _q(fr):
    fr = Fraction(fr)
    return str(fr.numerator) if fr.denominator == 1 else f"{fr.numerator}/{fr.denominator}"


def _dy(rng, lo, hi, den):
    return _q(Fraction(rng.randint(lo * den, hi * den), den))


def _dy_nz(rng, lo, hi, den):
    while True:
        v = Fraction(rng.randint(lo * den, hi * den), den)
        if v != 0:
            return _q(v)


def _lin(rng, nin, nout, wmax=2):
    return {"W": [[rng.randint(-wmax, wmax) for _ in range(nin)] for _ in range(nout)],
            "b": [rng.randint(-wmax, wmax) for _ in range(nout)]}


def _arch(rng, nin, nout, nlin, allow_square=True, wmax=2, lead_act=False, final_act=None):
    """list of layers (with weights): nlin linear layers, hidden widths 1..3, activations in between"""
    widths = [nin] + [rng.randint(1, 3) for _ in range(nlin - 1)] + [nout]
    layers, used_sq = [], False
    if lead_act:
        layers.append({"act": rng.choice(["relu", "id"])})
    for i in range(nlin):
        layers.append(_lin(rng, widths[i], widths[i + 1], wmax))
        last = i == nlin - 1
        if not last or (final_act if final_act is not None else rng.random() < 0.3):
            a = rng.choice(ACTS if (allow_square and not used_sq) else ["relu", "id"])
            used_sq = used_sq or a == "square"
            if not last and rng.random() < 0.15:
                continue  # two linear layers in a row
            layers.append({"act": a})
    return layers


def _spec_of(layers):
    return [{"act": l["act"]} if "act" in l else {"lin": [len(l["W"][0]), len(l["W"])]} for l in layers]


def _val(rng, n=None, den=2, lo=-2, hi=2, nz=False):
    f = _dy_nz if nz else _dy
    if n is None:
        return f(rng, lo, hi, den)
    return [f(rng, lo, hi, den) for _ in range(n)]


def _gen_transforms(rng, nin_call, nout, p_eq=0.5):
    """returns in_t, out_t, eq_params (list of [name, val]), net input width"""
    eq = []
    width = nin_call
    r = rng.random()
    if r < 0.35:
        in_t = "id"
    elif r < 0.55:
        in_t = {"a": {"const": _dy_nz(rng, -2, 2, 2)}, "b": {"const": _dy(rng, -1, 1, 2)}}
    else:
        shape_a = rng.choice([None, nin_call] + ([rng.randint(2, 3)] if nin_call == 1 else []))
        eq.append(["alpha", _val(rng, shape_a, nz=True)])
        if shape_a is not None:
            width = max(width, shape_a)
        if rng.random() < 0.5:
            eq.append(["beta", _val(rng, rng.choice([None, width]))])
            b = {"eq": "beta"}
        else:
            b = {"const": _dy(rng, -1, 1, 2)}
        in_t = {"a": {"eq": "alpha"}, "b": b}
    r = rng.random()

    def out_coef(name):
        k = rng.random()
        if k < 0.3:
            return {"const": _dy_nz(rng, -2, 2, 2)}
        if k < 0.5:
            return {"inp": rng.randrange(nin_call)}
        shp = rng.choice([None, None, nout if nout > 1 else 2, 1])
        if rng.random() < 0.04:
            shp = nout + 2  # broadcasting error (or broadcast up when nout == 1)
        eq.append([name, _val(rng, shp, nz=True)])
        return {"eq": name}

    if r < 0.3:
        out_t = "id"
    else:
        out_t = {"a": out_coef("gamma"), "b": out_coef("delta")}
        if rng.random() < 0.04:
            out_t["b"] = {"eq": "missing"}
    # unrelated parameters, in an order that is not alphabetical
    if rng.random() < 0.5:
        eq.insert(0, ["zeta", _val(rng, rng.choice([None, 2]))])
    return in_t, out_t, eq, width


def _gen_index(rng, nout):
    """an integer index of an existing component, negative (from the end) half of the time"""
    i = rng.randrange(nout)
    return i - nout if rng.random() < 0.5 else i


def _gen_range(rng, nout):
    """a slice a:b with Python semantics: bounds absent, non-negative or negative; mostly non-empty"""
    for _ in range(20):
        a = rng.choice([None, None] + list(range(-nout, nout + 1)))
        b = rng.choice([None, None] + list(range(-nout, nout + 2)))
        lo = 0 if a is None else (max(a + nout, 0) if a < 0 else min(a, nout))
        hi = nout if b is None else (max(b + nout, 0) if b < 0 else min(b, nout))
        if lo < hi or rng.random() < 0.05:
            return {"range": [a, b]}
    return {"range": [None, None]}


def _gen_slice(rng, nout):
    return {"index": _gen_index(rng, nout)} if rng.random() < 0.5 else _gen_range(rng, nout)


def _gen_shared(rng, nout):
    if rng.random() < 0.5:
        return None
    r = rng.random()
    if r < 0.25 and nout >= 2:
        # the idiom of the notebooks: leading components, then the last one
        return [{"range": [None, nout - 1]}, {"index": -1}]
    return [_gen_slice(rng, nout) for _ in range(rng.randint(1, 3))]


def _gen_calls(rng, eq_type, dim_x, rejections=True):
    calls = []
    if eq_type == "ODE":
        for _ in range(rng.randint(1, 2)):
            t = _dy(rng, -2, 2, 4)
            calls += [{"args": [t], "bare": False}, {"args": [[t]], "bare": False},
                      {"args": [t], "bare": True}, {"args": [[t]], "bare": True}]
    elif eq_type == "statio_PDE":
        for _ in range(rng.randint(1, 2)):
            x = _val(rng, dim_x, den=4)
            calls += [{"args": [x], "bare": False}, {"args": [x], "bare": True}]
    else:
        for _ in range(rng.randint(1, 2)):
            t, x = _val(rng, 1, den=4), _val(rng, dim_x, den=4)
            calls += [{"args": [t, x], "bare": False}, {"args": [t, x], "bare": True}]
        if rejections and rng.random() < 0.25:
            calls.append({"args": [_dy(rng, -2, 2, 4), _val(rng, dim_x, den=4)], "bare": False})  # 0-d time
    if rejections and rng.random() < 0.15:
        # wrong number of positional arguments
        if eq_type == "nonstatio_PDE":
            calls.append({"args": [_val(rng, dim_x + 1, den=4)], "bare": False})
        else:
            calls.append({"args": [_val(rng, 1, den=4), _val(rng, max(dim_x, 1), den=4)], "bare": False})
    return calls


def gen_pinn(rng, eq_type=None, force=None):
    eq_type = eq_type or rng.choice(["ODE", "statio_PDE", "nonstatio_PDE"])
    dim_x = 0 if eq_type == "ODE" else rng.randint(1, 2)
    nin_call = {"ODE": 1, "statio_PDE": dim_x, "nonstatio_PDE": dim_x + 1}[eq_type]
    nout = rng.choice([1, 1, 2, 3])
    in_t, out_t, eq, width = _gen_transforms(rng, nin_call, nout)
    layers = _arch(rng, width, nout, rng.randint(1, 3), lead_act=rng.random() < 0.1)
    shared = _gen_shared(rng, nout) if (nout > 1 or rng.random() < 0.1) else None
    ss = rng.choice([None, None, {"index": _gen_index(rng, nout)}, _gen_range(rng, nout)])
    via = "create" if rng.random() < 0.7 else "direct"
    if via == "direct" and (ss is None or "index" in ss):
        ss = {"range": [0, nout]}
    c = {"kind": "pinn", "via": via, "eq_type": eq_type, "dim_x": dim_x, "layers": layers, "in_t": in_t,
         "out_t": out_t, "shared": shared, "slice_solution": ss, "eq_params": eq,
         "calls": _gen_calls(rng, eq_type, dim_x), "seed": rng.randrange(1 << 30)}
    return c


def gen_pinn_reject(rng):
    c = gen_pinn(rng)
    r = rng.random()
    if r < 0.3:
        c["eq_type"] = "foo"
    elif r < 0.5:
        c["via"], c["eq_type"], c["dim_x"] = "create", "ODE", rng.randint(1, 2)
    elif r < 0.7:
        c["via"], c["dim_x"] = "create", (0 if c["eq_type"] != "ODE" else 1)
    elif r < 0.85:
        c["via"], c["eq_type"] = "direct", "foo"
        if c["slice_solution"] is None or "index" in c["slice_solution"]:
            c["slice_solution"] = {"range": [0, 1]}
    else:
        # a one-output network created with shared slices: the squeezed scalar cannot be sliced
        c = gen_pinn(rng)
        nin = len(c["layers"][0]["W"][0]) if "W" in c["layers"][0] else len(c["layers"][1]["W"][0])
        c["layers"] = _arch(rng, nin, 1, 1, final_act=False)
        c["out_t"] = "id"
        c["shared"] = [{"range": [0, 1]}, {"index": 0}]
        if rng.random() < 0.5:
            # ... unless the output transform broadcasts the 0-d output against a length-one parameter
            c["eq_params"] = [e for e in c["eq_params"] if e[0] != "gamma"] + [["gamma", [_dy_nz(rng, -2, 2, 2)]]]
            c["out_t"] = {"a": {"eq": "gamma"}, "b": {"const": _dy(rng, -1, 1, 2)}}
    return c


HYPER_SHAPES = [None, 1, 2]


def gen_hyper(rng, force_default_list=False):
    eq_type = rng.choice(["ODE", "statio_PDE", "nonstatio_PDE"])
    dim_x = 0 if eq_type == "ODE" else rng.randint(1, 2)
    nin_call = {"ODE": 1, "statio_PDE": dim_x, "nonstatio_PDE": dim_x + 1}[eq_type]
    nout = rng.choice([1, 2, 2, 3])
    in_t, out_t, eq, width = _gen_transforms(rng, nin_call, nout)
    if width > 2:  # keep the number of inner parameters small
        in_t, width = "id", nin_call
        eq = [e for e in eq if e[0] not in ("alpha", "beta")]
    nlin = rng.randint(1, 3)
    via = "create" if rng.random() < 0.75 else "direct"
    default_list = force_default_list or (via == "create" and rng.random() < 0.25)
    inner = _arch(rng, width, nout, nlin, wmax=1, final_act=rng.random() < 0.3,
                  lead_act=default_list and rng.random() < 0.25)
    # widths <= 2 in the hidden layers
    inner_spec = _spec_of(inner)
    shapes = []
    for s in inner_spec:
        if "lin" in s:
            shapes += [[s["lin"][1], s["lin"][0]], [s["lin"][1]]]
    nparams = sum((a[0] * a[1] if len(a) == 2 else a[0]) for a in shapes)
    # designated hyper-parameters
    nh = rng.randint(1, 3)
    names = rng.sample(["nu", "mu", "kappa", "D"], nh)
    hp_shapes = [rng.choice(HYPER_SHAPES) for _ in names]
    hsize = sum(1 if s is None else s for s in hp_shapes)
    hp = [[n, _val(rng, s)] for n, s in zip(names, hp_shapes)]
    eq = eq + hp
    rng.shuffle(eq)
    # hyper network
    if default_list:
        hyper_spec_user = None
        base = copy.deepcopy(inner_spec)
    else:
        hl = rng.randint(1, 2)
        # activations at either end of the hyper list are kept by create_HYPERPINN (only the first / last
        # Linear's input / output sizes are rewritten)
        base = _spec_of(_arch(rng, rng.randint(1, 4), rng.randint(1, 5), hl, allow_square=False,
                              final_act=rng.random() < 0.3, lead_act=rng.random() < 0.2))
        hyper_spec_user = copy.deepcopy(base)
    # the architecture after create_HYPERPINN's rewriting (generator-side knowledge, validated by the model)
    lin_idx = [i for i, s in enumerate(base) if "lin" in s]
    arch = copy.deepcopy(base)
    arch[lin_idx[-1]]["lin"][1] = nparams
    arch[lin_idx[0]]["lin"][0] = hsize
    if via == "direct":
        hyper_spec_user = copy.deepcopy(arch)
    hyper_layers = []
    for s in arch:
        hyper_layers.append({"act": s["act"]} if "act" in s else _lin(rng, s["lin"][0], s["lin"][1], wmax=1))
    shared = _gen_shared(rng, nout) if nout > 1 else None
    ss = rng.choice([None, {"index": _gen_index(rng, nout)}, _gen_range(rng, nout)]) if via == "create" \
        else {"range": [0, nout]}
    calls = [c for c in _gen_calls(rng, eq_type, dim_x, rejections=False)]
    if rng.random() < 0.6:
        calls = [c for c in calls if not c["bare"]] + [c for c in calls if c["bare"]][:1]
    return {"kind": "hyper", "via": via, "eq_type": eq_type, "dim_x": dim_x, "inner_spec": inner_spec,
            "hyper_spec": hyper_spec_user, "hyper_layers": hyper_layers, "hyperparams": names, "hyper_size": hsize,
            "in_t": in_t, "out_t": out_t, "shared": shared, "slice_solution": ss, "eq_params": eq, "calls": calls,
            "seed": rng.randrange(1 << 30)}


def gen_hyper_reject(rng):
    c = gen_hyper(rng)
    c["via"] = "create"
    if c["slice_solution"] is not None and "range" in c["slice_solution"]:
        c["slice_solution"] = None
    r = rng.random()
    if r < 0.4:
        c["eq_type"] = "foo"
    elif r < 0.75:
        c["dim_x"] = 1 if c["eq_type"] == "ODE" else 0
    else:
        c["eq_type"], c["dim_x"] = "ODE", rng.randint(1, 3)
    return c


def gen_spinn(rng, combo=None):
    if combo is None:
        d, r, m, n = rng.randint(1, 3), rng.randint(1, 4), rng.randint(1, 3), rng.randint(1, 4)
        nlin, final_act = rng.randint(1, 2), rng.random() < 0.25
    else:
        d, r, m, n, nlin, final_act = combo
    eq_type = rng.choice(["statio_PDE", "nonstatio_PDE"]) if d >= 2 else "statio_PDE"
    proto = _arch(rng, 1, r * m, nlin, wmax=1, final_act=final_act)
    spec = _spec_of(proto)

    def fill():
        return [{"act": s["act"]} if "act" in s else _lin(rng, s["lin"][0], s["lin"][1], wmax=1) for s in spec]

    nets = [fill() for _ in range(d)]
    calls = []
    for _ in range(1 if n > 2 else 2):
        pts = [[_dy(rng, -2, 2, 2) for _ in range(d)] for _ in range(n)]
        if eq_type == "statio_PDE":
            t, x = None, pts
        else:
            t, x = [p[:1] for p in pts], [p[1:] for p in pts]
        calls += [{"t": t, "x": x, "bare": False}, {"t": t, "x": x, "bare": True}]
    return {"kind": "spinn", "eq_type": eq_type, "d": d, "r": r, "m": m, "spec": spec, "nets": nets,
            "unused_layers": fill(), "calls": calls, "seed": rng.randrange(1 << 30)}


def gen_spinn_reject(rng):
    c = gen_spinn(rng, (rng.randint(1, 2), rng.randint(1, 3), rng.randint(1, 2), 2, rng.randint(1, 2), False))
    r = rng.random()
    lin_idx = [i for i, s in enumerate(c["spec"]) if "lin" in s]
    if r < 0.2:
        c["eq_type"] = "foo"
    elif r < 0.4:
        c["spec"][lin_idx[0]]["lin"][0] = 2          # input dim must be 1
    elif r < 0.6:
        c["spec"][lin_idx[-1]]["lin"][1] += rng.choice([1, -1]) if c["r"] * c["m"] > 1 else 1   # output dim != r*m
    elif r < 0.7:
        c["d"] = 25
    elif r < 0.8:
        c["spec"] = [{"act": "id"}] + c["spec"]        # a leading activation: the declared input is read one entry later
        c["nets"] = [[{"act": "id"}] + n for n in c["nets"]]
        c["unused_layers"] = [{"act": "id"}] + c["unused_layers"]
    elif r < 0.9:
        c["eq_type"] = "ODE"                           # accepted by create_SPINN, rejected by the call
        c["calls"] = [{"t": None, "x": cc["x"], "bare": cc["bare"]} for cc in c["calls"][:1]]
    else:
        # wrong number of positional arguments for the eq_type
        if c["eq_type"] == "statio_PDE":
            c["calls"] = [{"t": [p[:1] for p in cc["x"]], "x": cc["x"], "bare": False} for cc in c["calls"][:1]]
        else:
            c["calls"] = [{"t": None, "x": cc["x"], "bare": False} for cc in c["calls"][:1]]
    return c


QUICK_SPINN = [
    # d, r, m, n, nlin, final_act
    (1, 1, 1, 1, 1, False), (1, 3, 2, 3, 2, False), (2, 2, 1, 2, 1, False), (2, 3, 2, 3, 2, False),
    (2, 4, 3, 2, 2, True), (2, 2, 3, 4, 1, False), (3, 2, 2, 2, 2, False), (3, 3, 1, 3, 1, False),
    (3, 4, 3, 2, 2, False), (3, 1, 2, 4, 1, True),
]


def gen_cases(rng, tier):
    cases = []
    if tier == "quick":
        n_pinn, n_hyper, n_rej = 120, 66, 48
        for combo in QUICK_SPINN:
            for _ in range(3):
                cases.append(gen_spinn(rng, combo))
    else:
        n_pinn, n_hyper, n_rej = 2700, 1500, 900
        for d in (1, 2, 3):
            for r in (1, 2, 3, 4):
                for m in (1, 2, 3):
                    for n in (1, 2, 3, 4):
                        for _ in range(2):
                            cases.append(gen_spinn(rng, (d, r, m, n, rng.randint(1, 2), rng.random() < 0.25)))
        for _ in range(120):
            cases.append(gen_spinn(rng))
    for i in range(n_pinn):
        cases.append(gen_pinn(rng, ["ODE", "statio_PDE", "nonstatio_PDE"][i % 3]))
    for i in range(n_hyper):
        cases.append(gen_hyper(rng, force_default_list=(i % 6 == 0)))
    for i in range(n_rej):
        cases.append([gen_pinn_reject, gen_hyper_reject, gen_spinn_reject][i % 3](rng))
    return cases


def shrink_candidates(case):
    calls = case.get("calls", [])
    if len(calls) > 1:
        for i in range(len(calls)):
            c = copy.deepcopy(case)
            del c["calls"][i]
            yield c
    if case["kind"] in ("pinn", "hyper"):
        for k in ("in_t", "out_t"):
            if case[k] != "id" and not (k == "in_t" and _in_width_changes(case)):
                c = copy.deepcopy(case)
                c[k] = "id"
                yield c
        if case.get("shared"):
            if len(case["shared"]) > 1:
                for i in range(len(case["shared"])):
                    c = copy.deepcopy(case)
                    del c["shared"][i]
                    yield c
            c = copy.deepcopy(case)
            c["shared"] = None
            yield c


def _in_width_changes(case):
    for k, v in case["eq_params"]:
        if k in ("alpha", "beta") and isinstance(v, list) and len(v) > 1:
            nin = {"ODE": 1, "statio_PDE": case["dim_x"], "nonstatio_PDE": case["dim_x"] + 1}.get(case["eq_type"], 1)
            if len(v) != nin:
                return True
    return False


def widen(rng, bad_cases):
    out = []
    kinds = {c["kind"] for c in bad_cases}
    for _ in range(120):
        if "pinn" in kinds:
            out.append(gen_pinn(rng))
        if "hyper" in kinds:
            out.append(gen_hyper(rng))
        if "spinn" in kinds:
            out.append(gen_spinn(rng))
    return out


# ------------------------------------------------------------------------------------------------
# implementation side
# ------------------------------------------------------------------------------------------------
def _f(q):
    return float(Fraction(q))


def _arr(v):
    import jax.numpy as jnp

    if isinstance(v, list):
        return jnp.asarray([(_arr(x) if isinstance(x, list) else _f(x)) for x in v], dtype=jnp.float64)
    return jnp.asarray(_f(v), dtype=jnp.float64)


def _act_fn(name):
    import jax

    if name == "relu":
        return jax.nn.relu
    if name == "square":
        return lambda x: x * x
    return lambda x: x


def _eqx_list(spec):
    import equinox as eqx

    return tuple((eqx.nn.Linear, s["lin"][0], s["lin"][1]) if "lin" in s else (_act_fn(s["act"]),) for s in spec)


def _mk_coef(c):
    if "const" in c:
        v = _f(c["const"])
        return lambda i, p: v
    if "eq" in c:
        k = c["eq"]
        return lambda i, p: p.eq_params[k]
    j = c["inp"]
    return lambda i, p: i[j]


def _mk_in(d):
    if d == "id":
        return None
    a, b = _mk_coef(d["a"]), _mk_coef(d["b"])
    return lambda inputs, p: inputs * a(inputs, p) + b(inputs, p)


def _mk_out(d):
    if d == "id":
        return None
    a, b = _mk_coef(d["a"]), _mk_coef(d["b"])
    return lambda inputs, o, p: o * a(inputs, p) + b(inputs, p)


def _mk_slice(s):
    if s is None:
        return None
    if "index" in s:
        return s["index"]
    return slice(s["range"][0], s["range"][1])  # bounds may be None or negative


def _set_weights(tree, get_layers, layers):
    """overwrite weight / bias of the linear layers, by name"""
    import equinox as eqx
    import jax.numpy as jnp

    for li, l in enumerate(layers):
        if "W" in l:
            tree = eqx.tree_at(lambda p, li=li: get_layers(p)[li].weight, tree, jnp.asarray(l["W"], dtype=jnp.float64))
            tree = eqx.tree_at(lambda p, li=li: get_layers(p)[li].bias, tree, jnp.asarray(l["b"], dtype=jnp.float64))
    return tree


def _obs_of(f):
    import numpy as np
    from harness import core

    try:
        r = f()
    except Exception as e:  # reported as an observation: the model predicts rejections too
        return {"error": core.err_kind(e)}
    a = np.asarray(r, dtype=np.float64)
    if not np.all(np.isfinite(a)):
        return {"error": "nonfinite"}
    return {"out": [core.qstr(x) for x in a.reshape(-1)], "shape": [int(s) for s in a.shape]}


def _ss_obs(u):
    s = u.slice_solution
    if isinstance(s, slice) and s.step is None:
        return [None if s.start is None else int(s.start), None if s.stop is None else int(s.stop)]
    return None


def _run_wrapper_calls(case, wrappers, common, p):
    from jinns.parameters._params import Params

    eq = {k: _arr(v) for k, v in case["eq_params"]}
    full = Params(nn_params=p, eq_params=eq)
    out = []
    for c in case["calls"]:
        args = [_arr(a) for a in c["args"]]
        par = p if c["bare"] else full
        rec = {"outs": [_obs_of(lambda u=u: u(*args, par)) for u in wrappers],
               "common": _obs_of(lambda: common(*args, par)) if common is not None else None}
        out.append(rec)
    return out


def _run_pinn(case):
    import jax
    import equinox as eqx  # noqa: F401
    from harness import core
    from jinns.utils._pinn import create_PINN, PINN, _MLP

    key = jax.random.PRNGKey(case["seed"])
    spec = _spec_of(case["layers"])
    eqx_list = _eqx_list(spec)
    in_t, out_t = _mk_in(case["in_t"]), _mk_out(case["out_t"])
    shared = None if case["shared"] is None else tuple(_mk_slice(s) for s in case["shared"])
    common = None
    try:
        if case["via"] == "create":
            kw = dict(input_transform=in_t, output_transform=out_t, slice_solution=_mk_slice(case["slice_solution"]))
            us = create_PINN(key, eqx_list, case["eq_type"], case["dim_x"], shared_pinn_outputs=shared, **kw)
            if shared is not None:
                common = create_PINN(key, eqx_list, case["eq_type"], case["dim_x"], **kw)
            else:
                us = [us]
        else:
            mlp = _MLP(key=key, eqx_list=eqx_list)
            kw = dict(mlp=mlp, slice_solution=_mk_slice(case["slice_solution"]), eq_type=case["eq_type"],
                      input_transform=in_t or (lambda i, p: i), output_transform=out_t or (lambda i, o, p: o))
            us = [PINN(output_slice=s, **kw) for s in (shared if shared is not None else (None,))]
            if shared is not None:
                common = PINN(output_slice=None, **kw)
    except Exception as e:
        return {"create_error": core.err_kind(e), "obs_slice_solution": None, "calls": []}
    p = _set_weights(us[0].init_params(), lambda q: q.layers, case["layers"])
    return {"create_error": None, "obs_slice_solution": _ss_obs(us[0]),
            "n_wrappers": len(us), "calls": _run_wrapper_calls(case, us, common, p)}


def _run_hyper(case):
    import warnings

    import jax
    from harness import core
    from jinns.utils._hyperpinn import create_HYPERPINN, HYPERPINN
    from jinns.utils._pinn import _MLP

    key = jax.random.PRNGKey(case["seed"])
    eqx_list = _eqx_list(case["inner_spec"])
    eqx_list_hyper = None if case["hyper_spec"] is None else _eqx_list(case["hyper_spec"])
    in_t, out_t = _mk_in(case["in_t"]), _mk_out(case["out_t"])
    shared = None if case["shared"] is None else tuple(_mk_slice(s) for s in case["shared"])
    common = None
    try:
        with warnings.catch_warnings():
            warnings.simplefilter("ignore")
            if case["via"] == "create":
                kw = dict(hyperparams=list(case["hyperparams"]), hypernet_input_size=case["hyper_size"],
                          dim_x=case["dim_x"], input_transform=in_t, output_transform=out_t,
                          slice_solution=_mk_slice(case["slice_solution"]), eqx_list_hyper=eqx_list_hyper)
                us = create_HYPERPINN(key, eqx_list, case["eq_type"], shared_pinn_outputs=shared, **kw)
                if shared is not None:
                    common = create_HYPERPINN(key, eqx_list, case["eq_type"], **kw)
                else:
                    us = [us]
            else:
                k1, k2 = jax.random.split(key)
                kw = dict(mlp=_MLP(key=k1, eqx_list=eqx_list), hyper_mlp=_MLP(key=k2, eqx_list=eqx_list_hyper),
                          slice_solution=_mk_slice(case["slice_solution"]), eq_type=case["eq_type"],
                          input_transform=in_t or (lambda i, p: i), output_transform=out_t or (lambda i, o, p: o),
                          hyperparams=list(case["hyperparams"]), hypernet_input_size=case["hyper_size"])
                us = [HYPERPINN(output_slice=s, **kw) for s in (shared if shared is not None else (None,))]
                if shared is not None:
                    common = HYPERPINN(output_slice=None, **kw)
    except Exception as e:
        return {"create_error": core.err_kind(e), "calls": []}
    h = us[0]
    leaves = jax.tree_util.tree_leaves
    obs = {"create_error": None, "obs_slice_solution": _ss_obs(h),
           "obs_inner_shapes": [[int(s) for s in l.shape] for l in leaves(h.params)],
           "obs_cumsum": [int(v) for v in h.pinn_params_cumsum], "obs_sum": int(h.pinn_params_sum),
           "obs_hyper_shapes": [[int(s) for s in l.shape] for l in leaves(h.init_params())],
           "n_wrappers": len(us)}
    p = _set_weights(h.init_params(), lambda q: q.layers, case["hyper_layers"])
    with warnings.catch_warnings():
        warnings.simplefilter("ignore")
        obs["calls"] = _run_wrapper_calls(case, us, common, p)
    return obs


def _run_spinn(case):
    import jax
    from harness import core
    from jinns.parameters._params import Params
    from jinns.utils._spinn import create_SPINN

    key = jax.random.PRNGKey(case["seed"])
    try:
        s = create_SPINN(key, case["d"], case["r"], _eqx_list(case["spec"]), case["eq_type"], case["m"])
    except Exception as e:
        return {"create_error": core.err_kind(e), "calls": []}
    p = s.init_params()
    for k, net in enumerate(case["nets"]):
        p = _set_weights(p, lambda q, k=k: q.separated_mlp[k], net)
    # the `layers` attribute left over by `_SPINN.__post_init__` plays no role in the evaluation
    p = _set_weights(p, lambda q: q.layers, case["unused_layers"])
    full = Params(nn_params=p, eq_params={})
    calls = []
    for c in case["calls"]:
        par = p if c["bare"] else full
        x = _arr(c["x"])
        if c["t"] is None:
            calls.append({"obs": _obs_of(lambda: s(x, par))})
        else:
            t = _arr(c["t"])
            calls.append({"obs": _obs_of(lambda: s(t, x, par))})
    return {"create_error": None, "calls": calls}


def run_impl(case):
    return {"pinn": _run_pinn, "hyper": _run_hyper, "spinn": _run_spinn}[case["kind"]](case)


# ------------------------------------------------------------------------------------------------
# model side / verdict
# ------------------------------------------------------------------------------------------------
def lean_request(case, obs):
    req = {"op": "c10", **{k: v for k, v in case.items() if k not in ("seed", "calls", "unused_layers")}}
    req["create_error"] = obs["create_error"]
    if case["kind"] == "spinn":
        req["calls"] = [{**c, "obs": o["obs"]} for c, o in zip(case["calls"], obs["calls"])] if obs["calls"] else []
        return req
    req["obs_slice_solution"] = obs.get("obs_slice_solution")
    for k in ("obs_inner_shapes", "obs_cumsum", "obs_sum", "obs_hyper_shapes"):
        if k in obs:
            req[k] = obs[k]
        elif case["kind"] == "hyper":
            req[k] = [] if k != "obs_sum" else 0
    req["calls"] = [{**c, "outs": o["outs"], "common": o["common"]} for c, o in zip(case["calls"], obs["calls"])] \
        if obs["calls"] else []
    return req


def judge(case, obs, a):
    if not a["exact_ok"]:
        obs["_inexact"] = True   # seen by `tags` / `nontrivial` (called after `judge`)
        return {"status": "ok", "clause": None, "skipped": "inexact"}
    if not a["holds"]:
        return {"status": "violation", "clause": a["clause"], "model_outs": a.get("model_outs")}
    if not a["agree"]:
        return {"status": "disagree", "clause": "model-differs:" + a.get("diff", ""),
                "model_outs": a.get("model_outs"), "model_create_error": a.get("model_create_error")}
    return {"status": "ok", "clause": None}


def _values(obs):
    out = []
    for c in obs.get("calls", []):
        out += c.get("outs", []) + ([c["obs"]] if "obs" in c else [])
    return out


def nontrivial(case, obs):
    if obs.get("_inexact"):
        return False
    if not any("out" in o for o in _values(obs)):
        return False
    if case["kind"] == "hyper":
        return True
    if case["kind"] == "spinn":
        return case["d"] >= 2 and case["r"] >= 2
    return (any("act" in l for l in case["layers"]) or case["in_t"] != "id" or case["out_t"] != "id"
            or case["shared"] is not None)


def _tkind(d):
    if d == "id":
        return "id"
    ks = sorted({next(iter(d[k])) for k in ("a", "b")})
    return "affine(" + "+".join(ks) + ")"


def tags(case, obs):
    out = [f"kind={case['kind']}", f"eq_type={case['eq_type']}"]
    if obs.get("_inexact"):
        out.append("skipped_inexact(magnitude guard)")
    if obs.get("create_error"):
        out.append(f"create_error={obs['create_error']}")
    for o in _values(obs):
        if "error" in o:
            out.append(f"call_error={o['error']}")
    out.append("calls_with_value=%d" % min(1, sum(1 for o in _values(obs) if "out" in o)))
    if case["kind"] in ("pinn", "hyper"):
        out += [f"via={case['via']}", f"in_t={_tkind(case['in_t'])}", f"out_t={_tkind(case['out_t'])}",
                "shared" if case["shared"] is not None else "single"]
        if any(c["bare"] for c in case["calls"]):
            out.append("bare_call")
        if any(not isinstance(c["args"][0], list) for c in case["calls"] if c["args"]):
            out.append("scalar_time")
    if case["kind"] == "hyper":
        out += [f"hyperparams={len(case['hyperparams'])}",
                f"inner_linear_layers={sum(1 for s in case['inner_spec'] if 'lin' in s)}",
                "hyper_list=default" if case["hyper_spec"] is None else "hyper_list=given"]
        hl = case["hyper_spec"] if case["hyper_spec"] is not None else case["inner_spec"]
        if case["via"] == "create" and hl and ("act" in hl[0] or "act" in hl[-1]):
            out.append("hyper_list_with_activation_at_an_end(via=create)")
    if case["kind"] == "spinn":
        out += [f"d={case['d']}", f"r={case['r']}", f"m={case['m']}"]
        if case["calls"]:
            out.append(f"batch={len(case['calls'][0]['x'])}")
    return out
