"""
C18 — on non-finite parameters training stops and returns the last finite ones.
Correspondence: the real `jinns.solve` on exact programs (harness/solveprog.py) with a fault
injected at every position k in 0..8 by each route the property names:
  loss      : the loss value (and hence its gradient) is NaN on the batch containing a marked point
  loss-const: only a parameter-free part of the loss is NaN there (NaN history entry, finite
              parameters: training must *not* stop)
  grad-nn   : the gradient of one network leaf entry is NaN on the marked batch (custom_vjp)
  grad-eq   : the gradient of one equation parameter is NaN on the marked batch
  opt       : a user optax.GradientTransformation with a step counter emits a NaN update at step k
  init      : a NaN already in the initial parameters
against `JinnsModel/SolveLoop.lean` at the exact family (values = rationals + NaN).
"""
from __future__ import annotations

import copy

from harness import solveprog as sp

PROP = "C18"
LEVEL_TEXT = ("Lean 4 theorems, for every program (update, batch source, NaN predicate, tracking, validation module), "
              "every n and every fault position k < n: if the update of iteration k is the first to produce NaN "
              "parameters then exactly k+1 iterations run, the returned parameters are those held just before that "
              "update (the initial ones for k = 0) and are NaN-free, history slots 0..k are the reference loop's and "
              "slots > k keep their initial content; NaN in the initial parameters => no iteration.  Tied to /repo on "
              "every run by exact differential execution of the real compiled jinns.solve with faults injected at every "
              "k in 0..8 through the loss value, a network-leaf gradient, an equation-parameter gradient and an "
              "optimizer update.")
LEVEL_NOTE = ("Trusted: Lean kernel + {propext, Classical.choice, Quot.sound}; the loop model's tie to the code is "
              "differential; NaN is an abstract predicate in the theorems and an absorbing value (IEEE: x+NaN = x*NaN "
              "= NaN, also 0*NaN) in the executable instance; the returned optimizer state after a fault is not "
              "constrained by the property and not compared.")
TECHNIQUE = "Lean 4 proof (while-loop exit lemma + last-finite invariant) + exact differential correspondence with injected faults"
THEOREMS = [
    "Jinns.Solve.solve_eq_iter",
    "Jinns.Solve.iter_init_lastGood",
    "Jinns.Solve.nan_stops_training",
    "Jinns.Solve.nan_history_entries",
    "Jinns.Solve.nan_initial_params",
    "Jinns.Solve.nan_stops_training_no_validation",
    "Jinns.SolveFamily.holdsC18_model",
    "Jinns.SolveFamily.holdsC18_model_no_validation",
]
LEAN_MODULES = ["JinnsProofs.C18", "JinnsProofs.C18Holds"]
RULE = ("case = one static configuration x (fault route, fault position k in 0..8) variations; the fault position "
        "actually reached is recomputed by the model from the replayed batch stream (a marked point may recur in a "
        "later epoch); non-trivial = a fault occurred at some k >= 1 and the returned parameters differ from the initial "
        "ones (so 'last finite' differs from 'initial'); the faults are also combined with a validation module "
        "(scripted, recording the parameters it is called with; real ValidationLoss with a still-decreasing loss; "
        "periods 1..3, k on and off the schedule; no stop request before the fault): Holds.C19 is then evaluated too "
        "(invocations with the post-update -- NaN -- parameters, criterion history, best parameters)"
        " Plus: faults injected into runs of real losses whose data generator refines itself inside the loop (RAR); Holds.C18 is evaluated in Lean against the fault-free run of the same program supplied as the reference trace (op c18ref).")
ASSUMPTIONS = [
    "IEEE NaN propagation through the polynomial loss, its AD and the optax update (validated by every run)",
    "the marked point is recognised by exact equality of grid points (dyadic grids)",
]
EXHAUSTIVE = {"quick": True, "thorough": True}
ROUTES = ["loss", "loss-const", "grad-nn", "grad-eq", "opt"]
KMAX = 8


def _base(rng, n, opt_kind=None):
    shape = rng.choice(sp.PSHAPES)
    b = rng.choice([1, 2])
    nt = b * rng.choice([9, 10]) + (rng.choice([0, 1]) if b == 2 else 0)   # an epoch has >= 9 requests
    gens = {"data": {"nt": nt, "b": b, "seed": rng.randrange(1 << 30), "half": True}, "param": None, "obs": None}
    if rng.random() < 0.3:
        gens["param"] = {"n": rng.choice([4, 6, 8]), "seed": rng.randrange(1 << 30), "keys": ["nu"]}
    opt = sp.random_opt(rng, opt_kind)
    seg = {"n": n, "shape": shape, "gens": gens, "opt": opt, "track": sp.random_track(rng, shape), "jit": True,
           "val": None, "params": sp.random_params(rng, shape)}
    nflat = sum(sp.leaf_sizes(seg["params"]))
    loss = sp.random_loss(rng, nflat, gens, nterms=2)
    # every parameter enters the loss, so that every gradient component is live
    for i in range(nflat):
        loss["terms"][i % 2][1].append([str(rng.choice([-1, 1])), [i], rng.choice([0, 1])])
    seg["loss"] = loss
    return seg


def _with_route(rng, base, route):
    seg = copy.deepcopy(base)
    seg["route"] = route
    nflat = sum(sp.leaf_sizes(seg["params"]))
    zf = sp.n_features(seg["gens"]) - 1
    sizes = sp.leaf_sizes(seg["params"])
    n_nn = len(seg["shape"]["nn"])
    if route == "loss":
        seg["loss"]["terms"][rng.randrange(2)][1].append(["1", [rng.randrange(nflat)], zf])
    elif route == "loss-const":
        seg["loss"]["terms"][rng.randrange(2)][1].append(["1", [], zf])
    elif route == "grad-nn":
        seg["loss"]["grad_fault"] = [rng.randrange(sum(sizes[:n_nn]))]
    elif route == "grad-eq":
        seg["loss"]["grad_fault"] = [rng.randrange(sum(sizes[:n_nn]), nflat)]
    elif route == "opt":
        seg["opt"] = {**seg["opt"], "nan_at": [0, [rng.randrange(len(sizes))]]}
    return seg


def script_outcomes(script):
    """'i' improve (criterion - 1), 's' same, 'w' worse (+1); upper case = requests a stop"""
    out, crit = [], 8
    for ch in script:
        low = ch.lower()
        crit += {"i": -1, "s": 0, "w": 1}[low]
        out.append([str(crit), low == "i", ch.isupper()])
    return out


def fault_val_groups(rng, tier):
    """NaN faults combined with a validation module (shared by C18 and C19): every fault route, fault
    positions k = 0..8 on and off the validation schedule (periods 1..3), with (a) a scripted module that
    records the parameters it is called with and never requests a stop, (b) the real ValidationLoss on a
    validation loss that keeps decreasing (so that the failing call would flag an improvement if it were
    given finite parameters), patience 3.  Each group = one static configuration x the positions k."""
    groups = []
    routes = ["loss", "grad-nn", "grad-eq", "opt"]
    nbase = 1 if tier == "quick" else 3
    for bi in range(nbase):
        base = _base(rng, 10, opt_kind=["sgd", "momentum", "schedule"][bi % 3])
        base["track"] = sp.full_track(base["shape"])
        nflat = sum(sp.leaf_sizes(base["params"]))
        for vi, vk in enumerate(("scripted", "vloss")):
            for c in (1, 2, 3):
                for ri, route in enumerate(routes):
                    if tier == "quick" and (ri + c + vi) % 2:      # quick: two routes per (module, period)
                        continue
                    b2 = copy.deepcopy(base)
                    if vk == "vloss":
                        # every parameter decreases at every step, so does the validation loss sum(p)
                        b2["loss"] = {"terms": [["dyn_loss", [["1", [i], 0] for i in range(nflat)]],
                                                ["initial_condition", [["1", [0], 0]]]], "mark": None, "grad_fault": []}
                    seg = _with_route(rng, b2, route)
                    if vk == "scripted":
                        L = seg["n"] // c + 2
                        pat = rng.choice(["i" * L, "".join(rng.choice("isw") for _ in range(L))])
                        seg["val"] = {"kind": "scripted", "call_every": c, "script": script_outcomes(pat)}
                    else:
                        vb = rng.choice([1, 2])
                        seg["val"] = {"kind": "vloss", "call_every": c, "patience": 3, "early": bool((bi + c) % 2),
                                      "vkind": "decreasing",
                                      "loss": {"terms": [["dyn_loss", [["1", [i], 0] for i in range(nflat)]]],
                                               "mark": None, "grad_fault": []},
                                      "gens": {"data": {"nt": 2 * vb + 1, "b": vb, "seed": rng.randrange(1 << 30),
                                                        "half": True}, "param": None, "obs": None}}
                    groups.append([{**seg, "k": k} for k in range(KMAX + 1)])
    return groups


# ------------------------------------------------------------------------------------------------
# residual-adaptive generators: a fault while the data generator refines itself inside the loop
# ------------------------------------------------------------------------------------------------
def _rar_cases(rng, tier):
    """real LossODE / LossPDEStatio / LossPDENonStatio + RAR-configured generator (harness/rarlib.py), SGD(1/2),
    a NaN update of every leaf at iteration k; the reference is the fault-free run of the same program"""
    from harness import c16

    out = []
    statics = [("ode", 0, c16._ODE[0], None), ("ode", 0, c16._ODE[3], None), ("statio", 2, None, c16._STATIO[0][1]),
               ("statio", 1, None, c16._STATIO[5][1]), ("nonstatio", 2, c16._NONSTATIO[0][1], c16._NONSTATIO[0][2])]
    if tier == "quick":
        statics = [statics[0], rng.choice(statics[2:4]), statics[4]]
    for kind, dim, T, X in statics:
        for (start, every) in (((0, 1), (2, 2)) if tier == "quick" else ((0, 1), (1, 2), (2, 2), (3, 1))):
            base = c16._with_schedule(c16._base(rng, kind, dim, T, X, "solve"), start, every, extra=3)
            n = base["n_iter"]
            ks = sorted({0, start, min(start + every, n - 1), n - 1}) if tier == "quick" else list(range(n))
            out.append({"rar": True, "segs": [{**base, "k": k} for k in ks]})
    return out


def _run_rar(seg):
    import jax
    import jax.numpy as jnp
    import numpy as np
    import optax
    import jinns
    from harness import rarlib
    from jinns.parameters import Params

    n, k = int(seg["n_iter"]), int(seg["k"])

    def leaves(p):
        return [[sp.vstr(x) for x in np.asarray(l, dtype=float).reshape(-1)] for l in jax.tree_util.tree_leaves(p)]

    def one(fault_at):
        S = rarlib.build(seg)
        params = S["params"]
        base = optax.sgd(0.5)
        ticks = []

        def init(p):
            return (base.init(p), jnp.zeros((), dtype=jnp.int32))

        def update(grads, state, params=None):
            st, c = state
            jax.debug.callback(lambda a: ticks.append(int(a)), c, ordered=True)
            upd, st = base.update(grads, st, params)
            if fault_at is not None:
                upd = jax.tree_util.tree_map(lambda u: jnp.where(c == fault_at, jnp.nan, u), upd)
            return upd, (st, c + 1)

        opt = optax.GradientTransformation(init, update)
        tracked = jax.tree_util.tree_map(lambda _: True, params)
        out = jinns.solve(n_iter=n, init_params=params, data=S["gen"], loss=S["loss"], optimizer=opt,
                          tracked_params=tracked, verbose=False)
        jax.block_until_ready(jax.tree_util.tree_leaves(out[0]))
        jax.effects_barrier()
        p_out, loss_hist, term_hist, _, _, _, stored = out[:7]
        names = sorted(term_hist)
        return {"iters": len(ticks), "params": leaves(p_out), "init": leaves(params),
                "loss_hist": [sp.vstr(x) for x in np.asarray(loss_hist, dtype=float)],
                "term_hist": [[sp.vstr(np.asarray(term_hist[nm], dtype=float)[i]) for nm in names] for i in range(n)],
                "tracked": [[[sp.vstr(x) for x in np.asarray(l, dtype=float)[i].reshape(-1)]
                             for l in jax.tree_util.tree_leaves(stored)] for i in range(n)],
                "n_terms": len(names)}

    try:
        A = one(None)
        B = one(k)
    except Exception as e:  # a rejection by jinns is an observation
        from harness import core
        return {"A": {"error": core.err_kind(e)}, "ref": None}
    nanp = [[sp.NAN for _ in l] for l in A["init"]]
    thetas = [A["init"]] + [A["tracked"][j] for j in range(k)] + [nanp] * (n - k)
    ref = {"n": n, "thetas": thetas, "losses": A["loss_hist"], "terms": A["term_hist"],
           "tracked": [A["tracked"][j] for j in range(k)] + [nanp] * (n - k),
           "zero_tracked": [["0" for _ in l] for l in A["init"]], "n_terms": A["n_terms"]}
    obs = {"iters": B["iters"], "batches": [], "params": B["params"], "loss_hist": B["loss_hist"],
           "term_hist": B["term_hist"], "tracked": B["tracked"], "opt": {"count": None, "trace": None}, "gen": [],
           "crit_hist": None, "best": None, "calls": []}
    return {"A": obs, "ref": ref, "ref_iters": A["iters"]}



def gen_cases(rng, tier):
    cases = []
    nbases = 8 if tier == "quick" else 30
    for bi in range(nbases):
        n = rng.choice([10, 12]) if bi % 3 else 9          # n = 9: a fault at k = 8 hits the last iteration
        base = _base(rng, n, opt_kind=["sgd", "momentum", "schedule", "momentum+schedule"][bi % 4])
        for route in ROUTES:
            seg = _with_route(rng, base, route)
            cases.append({"segs": [{**seg, "k": k} for k in range(KMAX + 1)]})
        # NaN already in the initial parameters (one leaf entry), and a fault-free control run
        init = copy.deepcopy(base)
        init["route"] = "init"
        g, kk = rng.choice(sp.leaf_paths(init["params"]))
        v = init["params"][g][kk]
        if isinstance(v, list):
            v[rng.randrange(len(v))] = sp.NAN
        else:
            init["params"][g][kk] = sp.NAN
        ctrl = copy.deepcopy(base)
        ctrl["route"] = "none"
        cases.append({"segs": [{**init, "k": None}, {**ctrl, "k": None}]})
        if bi == 1:       # the Python-loop path of solve (obs_batch_sharding), with an observation generator
            sh = copy.deepcopy(base)
            b = sh["gens"]["data"]["b"]
            sh["gens"]["obs"] = {"n": 5, "seed": rng.randrange(1 << 30), "vals": [rng.randint(-3, 3) for _ in range(5)],
                                 "sharding_device": True}
            sh["sharding"], sh["jit"] = True, False
            nz_old, nz = sp.n_features(base["gens"]), sp.n_features(sh["gens"])
            for route in ("loss", "grad-eq", "opt"):
                seg = _with_route(rng, sh, route)
                cases.append({"segs": [{**seg, "k": k} for k in ((0, 2, 5) if tier == "quick" else range(KMAX + 1))]})
        if bi % 3 == 0:   # the same through a plain (not jit-wrapped) call of solve
            seg = _with_route(rng, base, rng.choice(["loss", "grad-nn", "opt"]))
            cases.append({"segs": [{**seg, "k": k, "jit": False} for k in (0, 3)]})
    for g in fault_val_groups(rng, tier):
        cases.append({"segs": g})
    cases += _rar_cases(rng, tier)
    # the (slow, eager) Python-loop cases go first so that they overlap with the bulk of the work
    def _slow(c):
        return bool((c.get("seg") or c["segs"][0]).get("sharding"))
    return [c for c in cases if _slow(c)] + [c for c in cases if not _slow(c)]


def shrink_candidates(case):
    if case.get("rar") and len(case["segs"]) == 1:
        return
    if len(case["segs"]) > 1:
        for s in case["segs"]:
            yield {"segs": [s]}
        return
    seg = case["segs"][0]
    if seg["opt"]["momentum"] is not None or seg["opt"]["bounds"]:
        yield {"segs": [{**seg, "opt": {**seg["opt"], "momentum": None, "bounds": []}}]}
    if seg["gens"]["param"]:
        g = copy.deepcopy(seg["gens"])
        g["param"] = None
        loss = copy.deepcopy(seg["loss"])
        nz_old, nz = sp.n_features(seg["gens"]), sp.n_features(g)
        for _, monos in loss["terms"]:
            for mo in monos:
                mo[2] = nz - 1 if mo[2] == nz_old - 1 else min(mo[2], nz - 2)
        yield {"segs": [{**seg, "gens": g, "loss": loss}]}
    if seg["k"] is not None and seg["n"] > seg["k"] + 2:
        yield {"segs": [{**seg, "n": seg["k"] + 2}]}


def _resolved(seg, batches):
    """the segment with its fault position turned into data (marked point / optimizer step)"""
    s = copy.deepcopy(seg)
    k = s.get("k")
    if k is None:
        return s
    if s["route"] == "opt":
        s["opt"]["nan_at"] = [int(k), s["opt"]["nan_at"][1]]
    elif k < len(batches):
        s["loss"]["mark"] = sp.first_point(batches[k])
    return s


def run_impl(case):
    if case.get("rar"):
        return {"runs": [_run_rar(seg) for seg in case["segs"]]}
    runs = []
    for seg in case["segs"]:
        data, pdata, odata = sp.build_generators(seg["gens"])
        batches, fps = sp.replay(data, pdata, odata, int(seg["n"]))
        rs = _resolved(seg, batches)
        obs, _ = sp.run_segment(rs)
        rec = {"A": obs, "batches": batches, "gens": fps, "mark": rs["loss"].get("mark")}
        if seg.get("val") and seg["val"]["kind"] == "vloss":
            vd, vp, vo = sp.build_generators(seg["val"]["gens"])
            rec["vbatches"], _ = sp.replay(vd, vp, vo, int(seg["n"]))
        runs.append(rec)
    return {"runs": runs}


def lean_request(case, obs):
    if case.get("rar"):
        return [{"op": "c18ref", "ref": rec["ref"], "obs": rec["A"]} if rec["ref"] is not None else
                {"op": "c18ref", "ref": {"n": 1, "thetas": [], "losses": [], "terms": [], "tracked": [],
                                          "zero_tracked": [], "n_terms": 0}, "obs": rec["A"]}
                for rec in obs["runs"]]
    reqs = []
    for seg, rec in zip(case["segs"], obs["runs"]):
        rs = _resolved(seg, rec["batches"])
        reqs.append({"op": "c18", "prog": sp.lean_prog(rs, rec["batches"], rec["gens"], vbatches=rec.get("vbatches")),
                     "obs": rec["A"]})
    return reqs


def judge(case, obs, answers):
    obs["_fault_at"] = [a.get("fault_at") for a in answers]
    obs["_initial_nan"] = [a.get("initial_nan") for a in answers]
    for i, a in enumerate(answers):
        if not a["holds"]:
            return {"status": "violation", "clause": a["clause"], "segment": i, "fault_at": a.get("fault_at")}
    for i, a in enumerate(answers):
        if not a["agree"]:
            return {"status": "disagree", "clause": "model-differs:" + ",".join(a["differs"]), "segment": i,
                    "model": a["model"]}
    return {"status": "ok", "clause": None}


def nontrivial(case, obs):
    if case.get("rar"):
        return any(rec["ref"] is not None and seg["k"] >= 1 for seg, rec in zip(case["segs"], obs["runs"]))
    for seg, rec, k in zip(case["segs"], obs["runs"], obs.get("_fault_at", [])):
        if k is not None and k >= 1 and "error" not in rec["A"] and rec["A"]["params"] != sp.theta_json(seg["params"]):
            return True
    return False


def tags(case, obs):
    seg = case["segs"][0]
    if case.get("rar"):
        return [f"rar_generator:{seg['kind']}", "route=opt", f"rar_schedule=({seg['start']},{seg['every']})"] + \
               [f"fault_at={k}" for k in obs.get("_fault_at", [])]
    out = [f"route={seg['route']}", f"opt={seg['opt']['kind']}",
           "python_loop(obs_batch_sharding)" if seg.get("sharding") else
           ("jit_wrapped" if seg.get("jit", True) else "plain_call")]
    if seg.get("val"):
        c = seg["val"]["call_every"]
        out.append(f"validation={seg['val']['kind']}/period={c}")
        for k in obs.get("_fault_at", []):
            if k is not None:
                out.append("fault_on_validation_schedule" if k % c == 0 else "fault_off_validation_schedule")
    for k, ini in zip(obs.get("_fault_at", []), obs.get("_initial_nan", [])):
        out.append("initial_nan" if ini else ("no_fault" if k is None else f"fault_at={k}"))
    return out


def widen(rng, bad_cases):
    out = []
    bad_cases = [c for c in bad_cases if not c.get("rar")]
    for c in bad_cases:
        for seg in c["segs"][:3]:
            for k in range(0, 5):
                if seg.get("k") is not None:
                    out.append({"segs": [{**seg, "k": k}]})
    return out
