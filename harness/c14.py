"""
C14 — space-time batches are exact cartesian products (or exact pairings).
Correspondence: real `make_cartesian_product` and real `CubicMeshPDENonStatio.get_batch`
(both product modes, dims 1-2, with/without border) against JinnsModel/Cartesian.lean.
The factors are read off the generator's post-state (stores sliced at their cursors).
"""
from __future__ import annotations

import itertools
import math

from harness import core

PROP = "C14"
LEVEL_TEXT = ("Lean 4 theorems, for all batch sizes, contents, column counts, both product modes and every history of "
              "get_batch: the code-shaped repeat/tile/concatenate equals ts.flatMap (fun t => xs.map (t ++ .)); it has "
              "|ts|*|xs| rows; row k is (ts[k / |xs|], xs[k % |xs|]); pair (i, j) sits at row i*|xs|+j and (i, j) -> "
              "i*|xs|+j is a bijection onto the rows (each pair exactly once, time-major; no repeated row when the "
              "factors have distinct rows); column 0 is time; facet f of the border batch is the same product with "
              "border[..., f]; pairing mode row i = (t_i, x_i); the factors are the batches the three C09 cursors "
              "serve, for every history.  Tied to /repo on every run by exact differential execution of "
              "make_cartesian_product and CubicMeshPDENonStatio.get_batch; Holds.C14 (the row formula, per facet) is "
              "evaluated on the implementation's own batches."
              "  Holds.C14 itself is proved of every batch record of every get_batch history of the model, both product modes (holdsC14_model, holdsC14_runNS).")
LEVEL_NOTE = ("Trusted: Lean kernel + {propext, Classical.choice, Quot.sound}; the hand-written model's tie to the code is "
              "differential (sizes 1..6, dims 1-2); jnp.repeat / jnp.tile / jnp.concatenate are modelled as list "
              "functions, dynamic_slice as C09's clamped slice; the factors are read off the generator's post-state "
              "(store sliced at cursor).  In 1-D the border batch is always a product (the code ignores the pairing "
              "option there); Holds.C14 accepts exactly that.")
TECHNIQUE = "Lean 4 proof (structural induction on the factors, div/mod index bijection) + exact differential correspondence"
THEOREMS = [
    "Jinns.Cartesian.cartesian_eq_flatMap",
    "Jinns.Cartesian.cartesian_length",
    "Jinns.Cartesian.cartesian_row",
    "Jinns.Cartesian.cartesian_pair",
    "Jinns.Cartesian.pair_index_exactly_once",
    "Jinns.Cartesian.cartesian_nodup",
    "Jinns.Cartesian.cartesian_col_pair",
    "Jinns.Cartesian.map_cartesian",
    "Jinns.Cartesian.border_facet_product",
    "Jinns.Cartesian.border_facet_paired",
    "Jinns.Cartesian.paired_col_row",
    "Jinns.Cartesian.pairingGuard_ok_iff",
    "Jinns.Cartesian.paired_total",
    "Jinns.Cartesian.getBatch_history",
    "Jinns.Cartesian.getBatch_interior_product",
    "Jinns.Cartesian.getBatch_interior_paired",
    "Jinns.Cartesian.getBatch_border_facets",
    "Jinns.Cartesian.border_1d_fixed",
    "Jinns.Cartesian.productRows_cartesian",
    "Jinns.Cartesian.pairedRows_paired",
    "Jinns.Cartesian.holdsC14_combine",
    "Jinns.Cartesian.holdsC14_model",
    "Jinns.Cartesian.holdsC14_runNS",
]
LEAN_MODULES = ["JinnsProofs.C14", "JinnsProofs.C04C14Holds"]
RULE = ("cases = one call of make_cartesian_product on integer arrays (rank 2 or 3), or a CubicMeshPDENonStatio "
        "(dim, product mode, border or not, n/nt/nb, batch sizes, number of get_batch calls) whose post-state and batch "
        "are recorded after every call, or a constructor call that must be rejected; non-trivial = both factors have "
        ">= 2 rows (product) / >= 2 rows (pairing) with pairwise distinct rows, and for generator cases at least one "
        "cursor reshuffles after the first call; distinct = distinct case dicts")
ASSUMPTIONS = [
    "the factors of a batch are the generator's stores sliced at its cursors after the call (jax.lax.dynamic_slice "
    "with clamped start) - checked against C09's slice by the model (factors_agree)",
    "jnp.repeat / jnp.tile / jnp.concatenate follow their documented semantics (compared exactly on every case)",
]
EXHAUSTIVE = {"quick": False, "thorough": True}


def _qs(x):
    """exact rational of a finite float; non-finite floats cross the protocol as "nan" / "inf" / "-inf"
    (a non-finite coordinate is an observation - a point outside every domain - not a harness failure)"""
    x = float(x)
    if math.isnan(x):
        return "nan"
    if math.isinf(x):
        return "inf" if x > 0 else "-inf"
    return core.qstr(x)


def _ql(a):
    import numpy as np

    a = np.asarray(a)
    if a.ndim == 0:
        return _qs(a.item())
    return [_ql(x) for x in a]



def _gen_case(rng, dim, cart, border, bt, b, bb, epochs):
    nt = bt * rng.choice([1, 2]) + rng.choice([0, 0, 1])
    n = b * rng.choice([1, 2]) + rng.choice([0, 0, 1])
    nbf = (bb or 1) * rng.choice([1, 2]) + rng.choice([0, 1])
    q = max(-(-nt // bt), -(-n // b))
    return {"kind": "batch", "dim": dim, "cart": cart, "nt": nt, "n": n, "nb": 4 * nbf if dim == 2 else 2,
            "bt": bt, "b": b, "bb": bb if border else None, "requests": epochs * q + 1,
            "seed": rng.randrange(1 << 30)}


def gen_cases(rng, tier):
    cases = []
    smax = 4 if tier == "quick" else 6
    # --- direct calls of make_cartesian_product
    nprod = 30 if tier == "quick" else 120
    sizes = list(itertools.product(range(1, smax + 1), repeat=2))
    rng.shuffle(sizes)
    for (n1, n2) in (sizes * 8)[:nprod]:
        rank = rng.choice([2, 2, 3])
        cases.append({"kind": "prod", "rank": rank, "n1": n1, "n2": n2, "d1": rng.randint(1, 2),
                      "d2": rng.randint(1, 3), "F": rng.choice([2, 4]), "seed": rng.randrange(1 << 30)})
    cases.append({"kind": "prod", "rank": 2, "n1": 0, "n2": 3, "d1": 1, "d2": 2, "F": 2, "seed": 1})
    # --- generator histories
    if tier == "quick":
        for dim in (1, 2):
            for cart in (True, False):
                for border in (True, False):
                    for _ in range(5):
                        bt, b = rng.randint(1, smax), rng.randint(1, smax)
                        if not cart:
                            b = bt
                        bb = bt if not cart else rng.randint(1, 3)
                        cases.append(_gen_case(rng, dim, cart, border, bt, b, bb, 2))
    else:
        for dim in (1, 2):
            for border in (True, False):
                for bt, b in itertools.product(range(1, smax + 1), repeat=2):
                    cases.append(_gen_case(rng, dim, True, border, bt, b, rng.randint(1, 4), 3))
                for bt in range(1, smax + 1):
                    for _ in range(2):
                        cases.append(_gen_case(rng, dim, False, border, bt, bt, bt, 3))
    # --- the product mode with EQUAL batch sizes (where a pairing would also be well-formed): time = border, time =
    # interior, all three equal -- in every run, both dimensions
    for dim in (1, 2):
        for (bt, b, bb) in [(2, 3, 2), (3, 3, 2), (2, 2, 2)] + ([] if tier == "quick" else [(3, 2, 3), (4, 4, 4), (1, 1, 1)]):
            cases.append(_gen_case(rng, dim, True, True, bt, b, bb, 2))
    # --- malformed stream: pairing requested with unequal batch sizes (must be rejected), and near misses
    for dim in (1, 2):
        for (bt, b, bb) in [(2, 3, 2), (3, 2, None), (2, 2, 1), (2, 2, 3), (2, 2, 2), (1, 2, 1), (3, 3, None)]:
            cases.append({"kind": "guard", "dim": dim, "cart": False, "bt": bt, "b": b, "bb": bb,
                          "seed": rng.randrange(1 << 30)})
        cases.append({"kind": "guard", "dim": dim, "cart": True, "bt": 2, "b": 3, "bb": 1, "seed": 7})
    return cases


def shrink_candidates(case):
    if case["kind"] == "prod":
        for k in ("n1", "n2", "d1", "d2"):
            if case[k] > 1:
                yield {**case, k: case[k] - 1}
        return
    if case["kind"] != "batch":
        return
    if case["requests"] > 1:
        yield {**case, "requests": case["requests"] // 2}
        yield {**case, "requests": case["requests"] - 1}
    for k, dep in (("bt", "nt"), ("b", "n")):
        if case[k] > 1 and case["cart"]:
            yield {**case, k: case[k] - 1}
    for k, bk in (("nt", "bt"), ("n", "b")):
        if case[k] > case[bk]:
            yield {**case, k: case[k] - 1}
    if case["bb"] is not None:
        yield {**case, "bb": None}


def _make_nonstatio(case):
    import jax
    from jinns.data._DataGenerators import CubicMeshPDENonStatio

    dim = case["dim"]
    mins = (-1.0, 0.5)[:dim]
    maxs = (1.0, 2.0)[:dim]
    return CubicMeshPDENonStatio(
        key=jax.random.PRNGKey(case["seed"]), n=case.get("n", 4), nb=case.get("nb", 16 if dim == 2 else 2),
        nt=case.get("nt", 4), omega_batch_size=case["b"], omega_border_batch_size=case["bb"],
        temporal_batch_size=case["bt"], dim=dim, min_pts=mins, max_pts=maxs, tmin=-0.5, tmax=1.5,
        cartesian_product=case["cart"])


def _slice(a, idx, b):
    start = max(0, min(int(idx), a.shape[0] - b))
    return a[start:start + b]


def run_impl(case):
    import jax.numpy as jnp
    import numpy as np
    from jinns.data._DataGenerators import make_cartesian_product

    if case["kind"] == "prod":
        rs = np.random.RandomState(case["seed"] % (2**31))
        n1, n2, d1, d2, F = case["n1"], case["n2"], case["d1"], case["d2"], case["F"]
        if case["rank"] == 2:
            s1, s2 = (n1, d1), (n2, d2)
        else:
            s1, s2 = (n1, d1, F), (n2, d2, F)
        # pairwise distinct integer entries, so that every row identifies its origin
        tot = int(np.prod(s1) + np.prod(s2))
        vals = rs.permutation(4 * tot + 8)[:tot].astype(float) - tot
        b1 = vals[: int(np.prod(s1))].reshape(s1)
        b2 = vals[int(np.prod(s1)):].reshape(s2)
        try:
            out = np.asarray(make_cartesian_product(jnp.asarray(b1), jnp.asarray(b2)))
        except Exception as e:  # noqa: BLE001
            return {"error": core.err_kind(e)}
        return {"b1": _ql(b1) if b1.size else [], "b2": _ql(b2) if b2.size else [],
                "out": _ql(out) if out.size else [], "shape": list(out.shape)}

    if case["kind"] == "guard":
        try:
            g = _make_nonstatio(case)
            g, bt = g.get_batch()
        except Exception as e:  # noqa: BLE001
            return {"error": core.err_kind(e)}
        return {"error": None}

    try:
        g = _make_nonstatio(case)
    except Exception as e:  # noqa: BLE001
        return {"error": core.err_kind(e)}
    dim, bt, b = case["dim"], case["bt"], case["b"]
    steps, resets = [], 0
    prev = None
    for r in range(case["requests"]):
        g, batch = g.get_batch()
        times, omega = np.asarray(g.times), np.asarray(g.omega)
        tidx, oidx = int(g.curr_time_idx), int(g.curr_omega_idx)
        st = {"times": _ql(times), "tidx": tidx, "bt": bt, "omega": _ql(omega), "oidx": oidx, "b": b,
              "ts": _ql(_slice(times, tidx, bt)), "xs": _ql(_slice(omega, oidx, b)),
              "tx": _ql(np.asarray(batch.times_x_inside_batch)),
              "tx_shape": list(batch.times_x_inside_batch.shape)}
        if g.omega_border is None:
            st.update({"border": None, "bidx": 0, "bb": 0, "dx": None})
        elif dim == 1:
            bd = np.asarray(g.omega_border)[None, None]
            st.update({"border": _ql(bd), "bidx": 0, "bb": 1, "dx": _ql(bd)})
        else:
            bd = np.asarray(g.omega_border)
            bidx, bb = int(g.curr_omega_border_idx), int(g.omega_border_batch_size)
            st.update({"border": _ql(bd), "bidx": bidx, "bb": bb, "dx": _ql(_slice(bd, bidx, bb))})
        tdx = batch.times_x_border_batch
        st["tdx"] = None if tdx is None else _ql(np.asarray(tdx))
        st["tdx_shape"] = None if tdx is None else list(tdx.shape)
        cur = (tidx, oidx)
        if r > 0 and (tidx == 0 or oidx == 0):
            resets += 1
        prev = cur
        steps.append(st)
    distinct = len({tuple(x) for x in steps[0]["omega"]}) == len(steps[0]["omega"]) and \
        len(set(steps[0]["times"])) == len(steps[0]["times"])
    return {"steps": steps, "resets": resets, "distinct": distinct}


def _rank_ok(x, d):
    """x is a nested list of exactly d levels (what the model driver's parser expects)"""
    if d == 0:
        return not isinstance(x, list)
    return isinstance(x, list) and all(_rank_ok(y, d - 1) for y in x)


def _well_ranked(case, obs):
    if case["kind"] == "prod":
        return _rank_ok(obs["out"], case["rank"]) or obs["out"] == []
    want = {"times": 1, "omega": 2, "border": 3, "ts": 1, "xs": 2, "dx": 3, "tx": 2, "tdx": 3}
    return all(s.get(k) is None or _rank_ok(s[k], d) for s in obs["steps"] for k, d in want.items())


def lean_request(case, obs):
    if case["kind"] == "guard":
        return {"op": "c14_guard", "cart": case["cart"], "dim": case["dim"], "bt": case["bt"], "b": case["b"],
                "bb": case["bb"]}
    if "error" in obs:
        return None
    if not _well_ranked(case, obs):
        obs["bad_rank"] = True
        return None
    if case["kind"] == "prod":
        return {"op": "c14_prod", "rank": case["rank"], "b1": obs["b1"], "b2": obs["b2"], "out": obs["out"]}
    keys = ("times", "tidx", "bt", "omega", "oidx", "b", "border", "bidx", "bb", "ts", "xs", "dx", "tx", "tdx")
    return {"op": "c14_batch", "cart": case["cart"], "dim": case["dim"],
            "steps": [{k: s[k] for k in keys} for s in obs["steps"]]}


def judge(case, obs, a):
    if case["kind"] == "guard":
        if obs["error"] != a["error"]:
            return {"status": "disagree", "clause": "constructor-rejection-differs", "impl": obs["error"],
                    "model": a["error"]}
        return {"status": "ok", "clause": None}
    if a is None and obs.get("bad_rank"):
        return {"status": "violation", "clause": "array-rank-differs-from-the-declared-shape"}
    if a is None:  # the implementation raised on a well-formed case
        return {"status": "violation", "clause": "well-formed-request-raised:" + str(obs.get("error"))}
    if a.get("nonfinite") or not a["holds"]:
        return {"status": "violation", "clause": a["clause"], "step": a.get("step")}
    if case["kind"] == "prod":
        if case["rank"] == 2:
            want = [case["n1"] * case["n2"], case["d1"] + case["d2"]]
        else:
            want = [case["n1"] * case["n2"], case["d1"] + case["d2"], case["F"]]
        if obs["shape"] != want:
            return {"status": "violation", "clause": "product-shape"}
        if not a["agree"]:
            return {"status": "disagree", "clause": "model-product-differs"}
        return {"status": "ok", "clause": None}
    dim = case["dim"]
    rows = case["bt"] * case["b"] if case["cart"] else case["b"]
    for s in obs["steps"]:
        if s["tx_shape"] != [rows, 1 + dim]:
            return {"status": "violation", "clause": "interior-shape-is-not-rows-x-(1+dim)"}
        if (s["tdx"] is None) != (case["bb"] is None):
            return {"status": "violation",
                    "clause": "border-batch-presence-differs-from-the-generator's-border-setting"}
    if not a["factors_agree"]:
        return {"status": "disagree", "clause": "factor-slices-differ-from-C09-slice"}
    if not a["agree"]:
        return {"status": "disagree", "clause": "model-batch-differs"}
    return {"status": "ok", "clause": None}


def nontrivial(case, obs):
    if case["kind"] == "prod":
        return "error" not in obs and case["n1"] >= 2 and case["n2"] >= 2
    if case["kind"] != "batch" or "error" in obs:
        return False
    return bool(obs["distinct"] and case["b"] >= 2 and case["bt"] >= 2 and obs["resets"] >= 1)


def tags(case, obs):
    out = [f"kind={case['kind']}"]
    if case["kind"] == "prod":
        out.append(f"rank={case['rank']}")
    elif case["kind"] == "batch":
        out += [f"dim={case['dim']}", "product" if case["cart"] else "pairing",
                "border" if case["bb"] is not None else "no_border"]
    if obs.get("error"):
        out.append("rejected=" + obs["error"])
    return out


def widen(rng, bad_cases):
    out = []
    for c in bad_cases:
        if c["kind"] == "prod":
            for n1, n2 in itertools.product(range(1, 5), repeat=2):
                out.append({**c, "n1": n1, "n2": n2})
        elif c["kind"] == "batch":
            for bt, b in itertools.product(range(1, 5), repeat=2):
                if c["cart"] or bt == b:
                    out.append(_gen_case(rng, c["dim"], c["cart"], c["bb"] is not None, bt, b,
                                         bt if not c["cart"] else 2, 2))
    return out
