"""
C02 — built-in dynamic losses equal the residual of their documented equation.

Correspondence: the real `BurgerEquation`, `FisherKPP`, `OU_FPENonStatioLoss2D`, `GeneralizedLotkaVolterra`,
`MassConservation2DStatio`, `NavierStokes2DStatio` `.evaluate(...)` on real jinns `PINN`s around integer
polynomial networks (JAX AD exact), against JinnsModel/Equations.lean (code-shaped model, evaluated on
`polyOps`) and `Holds.C02` (the documented expression, evaluated exactly by Lean on the same polynomials).
The cases whose residual must vanish are built from Lean's DOCUMENTED expression itself (the generator asks the
driver for the documented value at two parameter values and solves the affine dependence), never from a
Python re-implementation of the equations.
"""
from __future__ import annotations

import itertools

import copy
from fractions import Fraction

PROP = "C02"
LEVEL_TEXT = ("Lean 4 theorems, for every field algebra with derivations (the AD contract) and every point of it "
              "(a Q-algebra homomorphism; proved for the executable polynomial instance): each built-in residual, "
              "transcribed term by term from equation(), equals its documented expression (Laplacian = trace of the "
              "Hessian = sum of second partials in every dimension; the four explicit second-order Fokker-Planck "
              "terms = the double sum; the explicit Navier-Stokes components = (u.grad)u + grad p / rho - nu Lap u; "
              "the GLV enumerate loop = the documented sums with the self-interaction at index 0); Tmax multiplies "
              "exactly the non-time terms; the residual is affine in every parameter with the stated slope; it "
              "vanishes iff the equation holds (GLV under the guard u_main(t) != 0); evaluate = equation after an "
              "identity heterogeneity step, for both eq_params layouts.  Tied to /repo on every run by exact "
              "differential execution of the six real evaluate() on polynomial PINNs, and Holds.C02 (observed = "
              "documented expression, zero exactly where the equation holds) is evaluated on the implementation's "
              "own outputs.")
LEVEL_NOTE = ("Trusted: Lean kernel + {propext, Classical.choice, Quot.sound}; JAX AD through its contract "
              "(grad/hessian/jacrev entries are partial derivatives, d log = reciprocal); the hand-written model's tie "
              "to the code is differential (polynomial fields of degree <= 3, dyadic parameters and points); the OU "
              "corollaries assume the laws of differentiation (LawfulDeriv: Leibniz, d x_j/d x_i = delta_ij, commuting "
              "partials), inhabited by Mathlib's MvPolynomial but not provable for the list representation of the "
              "executable instance; the GLV docstring formula is garbled, the documented form is the log form fixed "
              "in DESIGN.md section 5 (C02) from the notebook's reference solver; floating point is not modelled "
              "(inputs make every float64 operation exact, except the one GLV quotient u'/u at points where u is not "
              "a power of two, which reverse-mode AD accumulates monomial by monomial: rounding rule |obs - doc| <= 2^-49 (sum_m |u'_m(t)| / |u(t)| + |doc|), i.e. 16 roundings per term measured on the terms and not on the possibly cancelling result; counted in tags).")
TECHNIQUE = ("Lean 4 proof (field algebra with derivations, point evaluations, list-sum inductions) + exact differential "
             "correspondence on polynomial PINNs")
THEOREMS = [
    "Jinns.Equations.polyEvalHom",
    "Jinns.Equations.polyOps_dX_comm",
    "Jinns.Equations.lapRev_eq_laplacian",
    "Jinns.Equations.divRev_eq_divergence",
    "Jinns.Equations.vecLap_nth",
    "Jinns.Equations.advRev_nth",
    "Jinns.Equations.burgers_eq_doc",
    "Jinns.Equations.burgers_value",
    "Jinns.Equations.burgers_tmax",
    "Jinns.Equations.burgers_affine_nu",
    "Jinns.Equations.burgers_vanishes_iff",
    "Jinns.Equations.fisherKPP_value",
    "Jinns.Equations.fisherKPP_eq_doc",
    "Jinns.Equations.fisherKPP_tmax",
    "Jinns.Equations.fisherKPP_affine",
    "Jinns.Equations.fisherKPP_vanishes_iff",
    "Jinns.Equations.fpe2D_routing",
    "Jinns.Equations.fpe2D_value",
    "Jinns.Equations.fpe2D_eq_doc_of_symm",
    "Jinns.Equations.fpe2D_eq_doc_of_comm",
    "Jinns.Equations.fpe2D_tmax",
    "Jinns.Equations.ouFPE_eq_doc",
    "Jinns.Equations.ouFPE_tmax",
    "Jinns.Equations.ou_second_order",
    "Jinns.Equations.ouFPE_expanded",
    "Jinns.Equations.ouFPE_vanishes_iff",
    "Jinns.Equations.glv_eq_doc",
    "Jinns.Equations.glv_none_iff",
    "Jinns.Equations.glv_value",
    "Jinns.Equations.glv_tmax",
    "Jinns.Equations.glv_affine_r_c",
    "Jinns.Equations.dotFrom_set",
    "Jinns.Equations.glv_vanishes_iff",
    "Jinns.Equations.massConservation_eq_doc",
    "Jinns.Equations.massConservation_value",
    "Jinns.Equations.massConservation_vanishes_iff",
    "Jinns.Equations.navierStokes_nth",
    "Jinns.Equations.navierStokes_value",
    "Jinns.Equations.navierStokes_eq_doc",
    "Jinns.Equations.navierStokes_affine_nu",
    "Jinns.Equations.navierStokes_role_rho",
    "Jinns.Equations.navierStokes_vanishes_iff",
    "Jinns.Equations.evalHetero_none",
    "Jinns.Equations.evalHetero_no_function",
    "Jinns.Equations.evalHetero_function",
    "Jinns.Equations.getVec_extract_nested",
    "Jinns.Equations.extractParams_flat",
    "Jinns.Equations.evaluate_burgers",
    "Jinns.Equations.evaluate_fisherKPP",
    "Jinns.Equations.evaluate_ouFPE",
    "Jinns.Equations.evaluate_glv",
    "Jinns.Equations.evaluate_massConservation",
    "Jinns.Equations.evaluate_navierStokes",
    "Jinns.Equations.evaluate_navierStokes_per_network",
    "Jinns.Equations.evaluate_navierStokes_flat",
    "Jinns.Equations.evaluate_dispatch",
    "Jinns.Equations.evaluate_statio_ignores_Tmax",
    "Jinns.Equations.mvLawful",
    "Jinns.Equations.mvEvalHom",
    "Jinns.Holds.model_holds_burgers",
    "Jinns.Holds.model_holds_fisherKPP",
    "Jinns.Holds.model_holds_ouFPE",
    "Jinns.Holds.model_holds_fpe",
    "Jinns.Holds.model_holds_glv",
    "Jinns.Holds.model_holds_massConservation",
    "Jinns.Holds.model_holds_navierStokes",
]
LEAN_MODULES = ["JinnsProofs.C02"]
RULE = ("cases = (built-in, Tmax, equation parameters by role, eq_params layout, network keys, polynomial network(s), "
        "point); observable = the array returned by the real evaluate(); non-trivial = a finite residual was returned "
        "and at least one network of the case is a non-constant polynomial (degree >= 1), so that derivative terms enter "
        "the residual; distinct = distinct case dicts; flavours: random fields; a parameter solved so that the "
        "documented residual vanishes at the point (solved from Lean's documented expression) and the same "
        "perturbed; fields solving the equation identically (constants / logistic equilibrium / heat polynomials / "
        "GLV equilibrium / stream-function fields / Poiseuille and stagnation-point flows) and the same perturbed; "
        "the inherited Fokker-Planck equation() with non-symmetric polynomial drift and diffusion; one guard case "
        "(GLV with u_main(t) = 0); every eq_params layout extract_params accepts is an ordinary case (a rejection "
        "of one is the Holds clause valid-layout-rejected)"
        " Plus: every built-in with a SPINN branch evaluated on separable networks (one point per axis, and more), grid index by grid index against the documented expression of the pointwise twin; a heterogeneous parameter (function reading its own base value) evaluated twice on the same Params object.")
ASSUMPTIONS = [
    "JAX AD contract: grad/hessian/jacrev of a polynomial network return its exact partial derivatives; "
    "grad(log(u)) = u'/u",
    "float64 arithmetic is exact on the generated inputs (integer polynomials of degree <= 3, dyadic parameters / "
    "points); the GLV quotient u'/u is exact when u_main(t) is a power of two, else the rounding rule of LEVEL_NOTE",
    "the documented GLV equation is the log form fixed in DESIGN.md section 5 (C02)",
]
EXHAUSTIVE = {"quick": False, "thorough": False}

TMAX = ["1", "2", "1/2", "8"]
REL_TOL = "1/562949953421312"  # 2^-49 = 16 roundings of 2^-53 per term


# --------------------------------------------------------------------------------------------
# helpers (pure python)
# --------------------------------------------------------------------------------------------
def _q(x):
    f = Fraction(x)
    return str(f.numerator) if f.denominator == 1 else f"{f.numerator}/{f.denominator}"


def _P(nvars, js):
    from harness.polynet import P

    return P(nvars, {tuple(e): Fraction(c) for c, e in js})


def _pj(p):
    return p.to_json()


def _dy(rng, lo, hi, k=2):
    d = 2 ** k
    return Fraction(rng.randint(lo * d, hi * d), d)


def _is_pow2(f):
    f = abs(Fraction(f))
    if f == 0:
        return False
    n, d = f.numerator, f.denominator
    return (n & (n - 1)) == 0 and (d & (d - 1)) == 0


def _nice(f, maxden=256, maxabs=64):
    f = Fraction(f)
    d = f.denominator
    return (d & (d - 1)) == 0 and d <= maxden and abs(f) <= maxabs


def _rand_poly(rng, nvars, maxdeg=3, nterms=5, cmax=3):
    from harness.polynet import random_poly, P

    p = random_poly(rng, nvars, maxdeg, nterms, cmax)
    if p.is_zero():
        p = P.var(nvars, rng.randrange(nvars))
    return p


def _nvars(case):
    k = case["kind"]
    if k == "glv":
        return 1
    if k in ("mass", "ns"):
        return 2
    return 1 + len(case["x"])


def _point(case):
    """the evaluation point in the variable order of the case's polynomials"""
    pt = []
    if case.get("t") is not None:
        pt.append(Fraction(case["t"]))
    if case.get("x") is not None:
        pt += [Fraction(v) for v in case["x"]]
    return pt


# --------------------------------------------------------------------------------------------
# the request to the Lean driver
# --------------------------------------------------------------------------------------------
def _lean_poly(case, js):
    """polynomials cross the protocol in the variable order (t, x_0, x_1, ...)"""
    if case["kind"] in ("mass", "ns"):
        return [[c, [0] + list(e)] for c, e in js]
    return [[c, list(e)] for c, e in js]


def _eq_params_tree(case):
    """eq_params exactly as handed to the implementation: list of [key, {leaf}|{sub}]"""
    out = []
    for k, v in case["eq_params"]:
        if isinstance(v, dict):
            out.append([k, {"sub": [[kk, vv if isinstance(vv, list) else [vv]] for kk, vv in v["sub"]]}])
        else:
            out.append([k, {"leaf": v if isinstance(v, list) else [v]}])
    return out


def _rel_tol(case):
    if case["kind"] != "glv":
        return "0"
    um = _P(1, dict(case["nets"])[case["keys"]["main"]][0])(_point(case))
    return "0" if (um == 0 or _is_pow2(um)) else REL_TOL


def _request(case, observed):
    nets = case["nets"]
    if case["kind"] in ("burgers", "fisher", "ou", "fpe"):
        jn = {"single": [_lean_poly(case, p) for p in nets[0][1]]}
    else:
        jn = {"dict": [[name, [_lean_poly(case, p) for p in ps]] for name, ps in nets]}
    req = {"op": "c02", "kind": case["kind"], "Tmax": case["Tmax"], "sem": case["sem"], "keys": case["keys"],
           "eq_params": _eq_params_tree(case), "nets": jn, "t": case.get("t"), "x": case.get("x"),
           "observed": observed, "relTol": _rel_tol(case)}
    if case["kind"] == "fpe":
        req["drift"] = case["drift"]
        req["diff"] = case["diff"]
    return req


def _spinn_points(case):
    from harness import c11

    return c11._grid_points(case["spinn"]["X"])


def _at_point(case, pt):
    c = dict(case)
    if case["spinn"]["time"]:
        c["t"], c["x"] = _q(pt[0]), [_q(v) for v in pt[1:]]
    else:
        c["t"], c["x"] = None, [_q(v) for v in pt]
    return c


def lean_request(case, obs):
    if case.get("spinn") and "grid" in obs:
        return [_request(_at_point(case, pt), vals) for pt, vals in zip(_spinn_points(case), obs["grid"])]
    if case.get("spinn"):
        case = _at_point(case, _spinn_points(case)[0])
    if case.get("hetero"):
        case = _hetero_resolved(case)
    req = _request(case, obs.get("value"))
    if "error" in obs:
        req["rejected"] = True  # a rejection is an observation: Holds decides whether the layout was valid
    return req


# --------------------------------------------------------------------------------------------
# running the real implementation
# --------------------------------------------------------------------------------------------
def _arr(v):
    import jax.numpy as jnp

    if isinstance(v, list):
        return jnp.asarray([float(Fraction(a)) for a in v], dtype=jnp.float64)
    return jnp.asarray(float(Fraction(v)), dtype=jnp.float64)


def run_impl(case):
    import jax
    import jax.numpy as jnp
    import numpy as np
    from harness import core
    from harness.polynet import make_pinn
    from jinns.loss import (BurgerEquation, FisherKPP, OU_FPENonStatioLoss2D, GeneralizedLotkaVolterra,
                            MassConservation2DStatio, NavierStokes2DStatio)
    from jinns.parameters import Params, ParamsDict

    kind = case["kind"]
    if case.get("spinn"):
        return _run_spinn(case)
    nv = _nvars(case)
    Tmax = float(Fraction(case["Tmax"]))
    eq_type = {"glv": "ODE", "mass": "statio_PDE", "ns": "statio_PDE"}.get(kind, "nonstatio_PDE")
    pinns = {name: make_pinn([_P(nv, p) for p in ps], eq_type) for name, ps in case["nets"]}
    eqp = {}
    for k, v in case["eq_params"]:
        eqp[k] = {kk: _arr(vv) for kk, vv in v["sub"]} if isinstance(v, dict) else _arr(v)
    t = None if case.get("t") is None else jnp.asarray([float(Fraction(case["t"]))], dtype=jnp.float64)
    if t is not None and case.get("t_scalar"):
        t = t[0]
    x = None if case.get("x") is None else jnp.asarray([float(Fraction(v)) for v in case["x"]], dtype=jnp.float64)
    try:
        if kind in ("burgers", "fisher", "ou", "fpe"):
            u = pinns[case["nets"][0][0]]
            params = Params(nn_params=u.init_params(), eq_params=eqp)
            het = None
            if case.get("hetero"):
                hk, cx, ct = case["hetero"]["key"], float(Fraction(case["hetero"]["cx"])), float(Fraction(case["hetero"]["ct"]))
                het = {k: None for k in eqp}
                het[hk] = lambda t_, x_, u_, p_: p_.eq_params[hk] * (1.0 + cx * x_[0] + ct * t_[0])
            if kind == "fpe":
                loss = _user_fpe(case, Tmax)
            else:
                loss = {"burgers": BurgerEquation, "fisher": FisherKPP, "ou": OU_FPENonStatioLoss2D}[kind](
                    Tmax=Tmax, **({"eq_params_heterogeneity": het} if het else {}))
            f = lambda t, x, p: loss.evaluate(t, x, u, p)
            res = (jax.jit(f) if case.get("jit") else f)(t, x, params)
            if het:
                # second evaluation with the SAME Params object, and the parameters it holds afterwards
                res2 = np.asarray(f(t, x, params))
                if not (np.array_equal(np.asarray(res), res2)
                        and float(params.eq_params[hk]) == float(Fraction(dict(case["eq_params"])[hk]))):
                    return {"value": [core.qstr(v) for v in res2.reshape(-1)], "shape": list(res2.shape),
                            "second_call_differs": True,
                            "first": [core.qstr(v) for v in np.asarray(res).reshape(-1)]}
        else:
            params = ParamsDict(nn_params={k: v.init_params() for k, v in pinns.items()}, eq_params=eqp)
            if kind == "glv":
                loss = GeneralizedLotkaVolterra(key_main=case["keys"]["main"], keys_other=list(case["keys"]["others"]),
                                                Tmax=Tmax)
                f = lambda a, p: loss.evaluate(a, pinns, p)
                res = (jax.jit(f) if case.get("jit") else f)(t, params)
            else:
                if kind == "mass":
                    loss = MassConservation2DStatio(nn_key=case["keys"]["nn_key"], Tmax=Tmax)
                else:
                    loss = NavierStokes2DStatio(u_key=case["keys"]["u_key"], p_key=case["keys"]["p_key"], Tmax=Tmax)
                f = lambda a, p: loss.evaluate(a, pinns, p)
                res = (jax.jit(f) if case.get("jit") else f)(x, params)
    except Exception as e:  # a rejection is an observation
        return {"error": core.err_kind(e), "message": str(e)[:200]}
    res = np.asarray(res)
    if not np.all(np.isfinite(res)):
        return {"nonfinite": True, "shape": list(res.shape)}
    return {"value": [core.qstr(v) for v in res.reshape(-1)], "shape": list(res.shape)}


def _run_spinn(case):
    import jax
    import jax.numpy as jnp
    import numpy as np
    from harness import core, c11
    from jinns.loss import (BurgerEquation, FisherKPP, OU_FPENonStatioLoss2D, MassConservation2DStatio,
                            NavierStokes2DStatio)
    from jinns.parameters import Params, ParamsDict

    kind, sp = case["kind"], case["spinn"]
    Tmax = float(Fraction(case["Tmax"]))
    D, R, deg, time = sp["D"], sp["R"], sp["deg"], sp["time"]
    eqp = {}
    for k, v in case["eq_params"]:
        eqp[k] = {kk: _arr(vv) for kk, vv in v["sub"]} if isinstance(v, dict) else _arr(v)
    X = jnp.asarray([[float(Fraction(v)) for v in row] for row in sp["X"]], dtype=jnp.float64)
    nets, nnp = {}, {}
    for name, ps in case["nets"]:
        net, tmpl, _, _ = c11._nets(time, D, R, len(ps), deg)
        nets[name] = net
        nnp[name] = c11._set(tmpl, jnp.asarray(sp["coef"][name], dtype=jnp.float64))
    try:
        if time:
            name = case["nets"][0][0]
            params = Params(nn_params=nnp[name], eq_params=eqp)
            loss = {"burgers": BurgerEquation, "fisher": FisherKPP, "ou": OU_FPENonStatioLoss2D}[kind](Tmax=Tmax)
            res = loss.evaluate(X[:, 0:1], X[:, 1:], nets[name], params)
        else:
            params = ParamsDict(nn_params=nnp, eq_params=eqp)
            if kind == "mass":
                loss = MassConservation2DStatio(nn_key=case["keys"]["nn_key"], Tmax=Tmax)
            else:
                loss = NavierStokes2DStatio(u_key=case["keys"]["u_key"], p_key=case["keys"]["p_key"], Tmax=Tmax)
            res = loss.evaluate(X, nets, params)
    except Exception as e:  # a rejection is an observation
        return {"error": core.err_kind(e), "message": str(e)[:200]}
    res = np.asarray(res)
    if not np.all(np.isfinite(res)):
        return {"nonfinite": True, "shape": list(res.shape)}
    B = X.shape[0]
    if res.shape[:D] != (B,) * D:
        return {"error": "grid_shape", "message": f"residual grid of shape {res.shape} for a batch of {B} points in {D} axes"}
    return {"grid": [[core.qstr(v) for v in np.asarray(r).reshape(-1)] for r in res.reshape(B ** D, -1)],
            "shape": list(res.shape)}


def _user_fpe(case, Tmax):
    """a user subclass of the real `FPENonStatioLoss2D` (its `equation` is inherited) whose drift vector and
    diffusion matrix are polynomial fields of (t, x): exercises the off-diagonal second-order terms, which
    the diagonal OU diffusion leaves identically zero"""
    import jax.numpy as jnp
    from harness.polynet import make_polynet
    from jinns.loss._DynamicLoss import FPENonStatioLoss2D

    dnet = make_polynet([_P(3, p) for p in case["drift"]])
    Dnet = make_polynet([_P(3, p) for row in case["diff"] for p in row])

    class UserFPE(FPENonStatioLoss2D):
        def drift(self, t, x, eq_params):
            return dnet(jnp.concatenate([t, x]))

        def diffusion(self, t, x, eq_params, i=None, j=None):
            return Dnet(jnp.concatenate([t, x])).reshape(2, 2)

    return UserFPE(Tmax=Tmax)


# --------------------------------------------------------------------------------------------
# judging
# --------------------------------------------------------------------------------------------
def judge(case, obs, a):
    if isinstance(a, list):  # separable network: one answer per grid index
        if len(a) != len(obs["grid"]):
            return {"status": "violation", "clause": f"{case['kind']}:spinn-grid-size", "n": len(obs["grid"])}
        worst = {"status": "ok", "clause": None}
        for idx, (ans, vals, pt) in enumerate(zip(a, obs["grid"], _spinn_points(case))):
            v = judge({**_at_point(case, pt), "spinn": None}, {"value": vals}, ans)
            if v["status"] == "violation":
                return {**v, "clause": (v["clause"] or "") + "@spinn-grid", "grid_index": idx, "point": [_q(x) for x in pt]}
            if v["status"] == "disagree" and worst["status"] == "ok":
                worst = {**v, "grid_index": idx}
        return worst
    merr = a.get("model_error")
    if obs.get("second_call_differs") and a.get("holds") is False:
        return {"status": "violation", "clause": f"{case['kind']}:residual-of-a-second-evaluation-differs-from-the-documented-expression",
                "first": obs.get("first"), "second": obs.get("value"), "documented": a.get("doc")}
    if "error" in obs:
        if not a["holds"]:  # Holds.C02: the documented expression is defined here, the layout is valid
            return {"status": "violation", "clause": a["clause"], "error": obs["error"], "message": obs.get("message")}
        if merr is not None and not merr.startswith("guard"):
            return {"status": "ok", "clause": None, "rejected": obs["error"]}
        return {"status": "disagree", "clause": "implementation-rejects-but-model-returns", "error": obs["error"]}
    if obs.get("nonfinite"):
        if merr is not None and merr.startswith("guard"):
            return {"status": "ok", "clause": None, "guard": True}
        return {"status": "violation", "clause": f"{case['kind']}:non-finite-residual-where-the-documented-expression-is-defined"}
    if not a["holds"]:
        return {"status": "violation", "clause": a["clause"], "documented": a.get("doc"), "observed": obs["value"]}
    if merr is not None:
        return {"status": "disagree", "clause": "model-rejects-but-implementation-returns", "model_error": merr}
    mv = [Fraction(v) for v in a["model"]]
    ov = [Fraction(v) for v in obs["value"]]
    tol = Fraction(_rel_tol(case))
    if len(mv) != len(ov):
        return {"status": "disagree", "clause": "model-shape-differs", "model": a["model"]}
    scale = Fraction(a["scale"]) if a.get("scale") is not None else Fraction(0)
    for m, o in zip(mv, ov):
        if abs(m - o) > tol * (scale + abs(m)):
            return {"status": "disagree", "clause": "model-value-differs", "model": a["model"], "observed": obs["value"]}
    return {"status": "ok", "clause": None}


def nontrivial(case, obs):
    if "value" not in obs and "grid" not in obs:
        return False
    for _, ps in case["nets"]:
        for p in ps:
            if any(sum(e) >= 1 for _, e in p):
                return True
    return False


def tags(case, obs):
    out = [f"kind={case['kind']}", f"Tmax={case['Tmax']}", f"flavour={case.get('flavour', 'random')}"]
    if case.get("layout"):
        out.append(f"{case['kind']}:layout={case['layout']}")
    if case.get("jit"):
        out.append("jit")
    if case.get("spinn"):
        out.append(f"spinn:B={len(case['spinn']['X'])},D={case['spinn']['D']}")
    if "error" in obs:
        out.append("rejected:" + obs["error"])
    elif "grid" in obs:
        pass
    elif obs.get("nonfinite"):
        out.append("guard:nonfinite")
    else:
        if all(Fraction(v) == 0 for v in obs["value"]):
            out.append(f"{case['kind']}:residual=0")
        if _rel_tol(case) != "0":
            out.append("ulp_rule")
        elif case["kind"] == "glv":
            out.append("glv:u_main_power_of_two")
    if case["kind"] == "fisher":
        out.append(f"fisher:d={len(case['x']) if case.get('x') is not None else case['spinn']['D'] - 1}")
    if case["kind"] == "glv":
        out.append(f"glv:others={len(case['keys']['others'])}")
    return out


# --------------------------------------------------------------------------------------------
# generators
# --------------------------------------------------------------------------------------------
def _pt(rng, n):
    if rng.random() < 0.4:
        return [_q(rng.randint(-3, 3)) for _ in range(n)]
    return [_q(_dy(rng, -3, 3, 2)) for _ in range(n)]


def _base(kind, rng):
    return {"kind": kind, "Tmax": rng.choice(TMAX), "keys": {}, "flavour": "random"}


def _gen_burgers(rng):
    c = _base("burgers", rng)
    nu = _dy(rng, 0, 3, 3) if rng.random() < 0.8 else _dy(rng, -2, 0, 2)
    c["sem"] = {"nu": _q(nu)}
    c["eq_params"] = [["nu", _q(nu)]]
    if rng.random() < 0.3:  # unrelated extra key must not matter
        c["eq_params"].insert(0, ["rho", _q(_dy(rng, 1, 5, 1))])
    c["nets"] = [["u", [_pj(_rand_poly(rng, 2, 3, 6))]]]
    c["t"] = _pt(rng, 1)[0]
    c["x"] = _pt(rng, 1)
    c["free"] = [{"sem": "nu", "eq": ["nu"]}]
    return c


def _gen_fisher(rng, d=None):
    c = _base("fisher", rng)
    d = d or rng.choice([1, 2, 2, 3])
    D, r, g = _dy(rng, 0, 3, 2), _dy(rng, -3, 3, 2), _dy(rng, -2, 2, 2)
    c["sem"] = {"D": _q(D), "r": _q(r), "g": _q(g)}
    order = ["D", "r", "g"]
    rng.shuffle(order)
    c["eq_params"] = [[k, c["sem"][k]] for k in order]
    c["nets"] = [["u", [_pj(_rand_poly(rng, 1 + d, 3, 6))]]]
    c["t"] = _pt(rng, 1)[0]
    c["x"] = _pt(rng, d)
    k = rng.choice(["D", "r", "g"])
    c["free"] = [{"sem": k, "eq": [k]}]
    return c


def _gen_ou(rng):
    c = _base("ou", rng)
    al = [_dy(rng, -2, 3, 1) for _ in range(2)]
    mu = [_dy(rng, -3, 3, 1) for _ in range(2)]
    sg = [_dy(rng, -2, 3, 1) for _ in range(2)]
    if sg[0] == sg[1]:
        sg[1] += 1  # the two diffusion coefficients must differ, else a transposed index is invisible
    if al[0] == al[1]:
        al[1] += Fraction(1, 2)
    c["sem"] = {"alpha": [_q(v) for v in al], "mu": [_q(v) for v in mu], "sigma": [_q(v) for v in sg]}
    order = ["sigma", "alpha", "mu"]
    rng.shuffle(order)
    c["eq_params"] = [[k, c["sem"][k]] for k in order]
    c["nets"] = [["u", [_pj(_rand_poly(rng, 3, 3, 7))]]]
    c["t"] = _pt(rng, 1)[0]
    c["x"] = _pt(rng, 2)
    k, i = rng.choice(["mu", "alpha"]), rng.randrange(2)
    c["free"] = [{"sem": k, "idx": i, "eq": [k]}]
    return c


def _gen_fpe(rng):
    c = _base("fpe", rng)
    c["sem"] = {}
    c["eq_params"] = [["unused", _q(_dy(rng, -2, 2, 1))]]
    const = rng.random() < 0.5  # constant (non-symmetric) diffusion matrix, or polynomial entries
    c["drift"] = [_pj(_rand_poly(rng, 3, 2, 3)) for _ in range(2)]
    c["diff"] = [[_pj(_rand_poly(rng, 3, 0 if const else 2, 1 if const else 3)) for _ in range(2)] for _ in range(2)]
    c["nets"] = [["u", [_pj(_rand_poly(rng, 3, 3, 7))]]]
    c["t"] = _pt(rng, 1)[0]
    c["x"] = _pt(rng, 2)
    c["free"] = [{"net": "u", "comp": 0, "mono": [1, 0, 0]}]
    return c


GLV_KEYS = [["0", "1", "2", "3"], ["a", "b", "c", "d"], ["prey", "pred", "x", "N3"]]


def _gen_glv(rng, n_other=None, pow2=None):
    c = _base("glv", rng)
    names = list(rng.choice(GLV_KEYS))
    n_other = rng.choice([0, 1, 2, 2, 3]) if n_other is None else n_other
    rng.shuffle(names)
    main, others = names[0], names[1:1 + n_other]
    extra = names[1 + n_other:][: rng.choice([0, 1])]  # a network that is not part of this equation
    t = Fraction(_pt(rng, 1)[0])
    pow2 = (rng.random() < 0.7) if pow2 is None else pow2
    from harness.polynet import P

    nets = {}
    for nm in [main] + others + extra:
        p = _rand_poly(rng, 1, 3, 3)
        if nm == main:
            # shift the constant so that u_main(t) is +-2^k (exact quotient) or a non power of two
            for _ in range(20):
                target = Fraction(rng.choice([1, 2, 4, 8, Fraction(1, 2)]) * rng.choice([1, 1, 1, -1])) if pow2 \
                    else Fraction(rng.choice([3, 5, 6, 7, -3, Fraction(3, 2)]))
                p2 = p + (target - p([t]))
                if all(_nice(v, 16) for v in p2.c.values()) and any(e[0] >= 1 for e in p2.c):
                    p = p2
                    break
            else:
                p = P.var(1, 0) * 0 + P.var(1, 0) + (Fraction(2) - t)
        nets[nm] = p
    order = list(nets)
    rng.shuffle(order)
    c["nets"] = [[nm, [_pj(nets[nm])]] for nm in order]
    c["keys"] = {"main": main, "others": others}
    c["t"] = _q(t)
    c["x"] = None
    c["t_scalar"] = rng.random() < 0.3

    def pars():
        return {"carrying_capacity": _q(_dy(rng, -2, 2, 2)), "growth_rate": _q(_dy(rng, -3, 3, 2)),
                "interactions": [_q(_dy(rng, -2, 2, 2)) for _ in range(1 + n_other)]}

    mainp = pars()
    c["sem"] = mainp
    c["layout"] = rng.choice(["nested", "flat"])
    if c["layout"] == "flat":
        ks = list(mainp)
        rng.shuffle(ks)
        c["eq_params"] = [[k, mainp[k]] for k in ks]
    else:
        # every population has its own, different, parameters: only those of key_main may be read
        ep = []
        for nm in order:
            pp = mainp if nm == main else pars()
            ep.append([nm, {"sub": [[k, pp[k]] for k in pp]}])
        c["eq_params"] = ep
    k = rng.choice(["growth_rate", "carrying_capacity"])
    c["free"] = [{"sem": k, "eq": [main, k] if c["layout"] == "nested" else [k]}]
    return c


STATIO_KEYS = [("u", "p"), ("vel", "pres"), ("p", "u"), ("0", "1")]


def _statio_params(rng, c, ukey, pkey, layouts):
    nu, rho = _dy(rng, 0, 3, 2), Fraction(rng.choice([1, 2, 4, Fraction(1, 2), Fraction(1, 4), 8]))
    if nu == rho:
        nu += Fraction(1, 4)  # nu <-> rho must show
    c["sem"] = {"nu": _q(nu), "rho": _q(rho)}
    c["layout"] = rng.choice(layouts)
    flat = [["rho", _q(rho)], ["nu", _q(nu)]]
    rng.shuffle(flat)
    decoy = lambda: {"sub": [["rho", _q(rho * 2)], ["nu", _q(nu + 1)]]}
    if c["layout"] == "flat":
        c["eq_params"] = flat
    else:
        # per-network layout: the VELOCITY network's sub-dictionary holds rho and nu; the pressure network's
        # sub-dictionary (and, for "nested_top_decoy", top-level entries) hold other values that must not be read
        real = [["rho", _q(rho)], ["nu", _q(nu)]]
        rng.shuffle(real)
        ep = [[ukey, {"sub": real}], [pkey, decoy()]]
        rng.shuffle(ep)
        if c["layout"] == "nested_top_decoy":
            ep += [["rho", _q(rho * 4)], ["nu", _q(nu + 2)]]
        c["eq_params"] = ep


def _gen_mass(rng):
    c = _base("mass", rng)
    ukey, pkey = rng.choice(STATIO_KEYS)
    _statio_params(rng, c, ukey, pkey, ["flat", "nested", "nested_top_decoy"])
    c["sem"] = {}
    c["keys"] = {"nn_key": ukey}
    nets = [[ukey, [_pj(_rand_poly(rng, 2, 3, 5)), _pj(_rand_poly(rng, 2, 3, 5))]],
            [pkey, [_pj(_rand_poly(rng, 2, 2, 3))]]]
    rng.shuffle(nets)
    c["nets"] = nets
    c["t"] = None
    c["x"] = _pt(rng, 2)
    c["free"] = [{"net": ukey, "comp": 0, "mono": [1, 0]}]
    return c


def _gen_ns(rng, layout=None):
    c = _base("ns", rng)
    ukey, pkey = rng.choice(STATIO_KEYS)
    _statio_params(rng, c, ukey, pkey, [layout] if layout else ["flat", "nested", "nested", "nested_top_decoy"])
    c["keys"] = {"u_key": ukey, "p_key": pkey}
    nets = [[ukey, [_pj(_rand_poly(rng, 2, 3, 5)), _pj(_rand_poly(rng, 2, 3, 5))]],
            [pkey, [_pj(_rand_poly(rng, 2, 3, 5))]]]
    rng.shuffle(nets)
    c["nets"] = nets
    c["t"] = None
    c["x"] = _pt(rng, 2)
    c["free"] = [{"net": pkey, "comp": 0, "mono": [1, 0]}, {"net": pkey, "comp": 0, "mono": [0, 1]}]
    return c


GEN = {"burgers": _gen_burgers, "fisher": _gen_fisher, "ou": _gen_ou, "fpe": _gen_fpe, "glv": _gen_glv,
       "mass": _gen_mass, "ns": _gen_ns}

def _gen_hetero(rng, kind=None):
    """one scalar parameter of a non-stationary built-in declared heterogeneous: its function returns
    (its own base value read from params.eq_params) * (1 + c * x_0 + c' * t), so the documented expression is the
    one with that parameter's point-wise value; the same Params object is evaluated twice, eagerly (an
    evaluation that writes the point-wise value back into the caller's parameters shows at the second call)"""
    kind = kind or rng.choice(["burgers", "fisher"])
    c = GEN[kind](rng)
    c["flavour"] = "heterogeneous"
    c.pop("free", None)
    key = {"burgers": "nu", "fisher": rng.choice(["D", "r", "g"])}[kind]
    c["hetero"] = {"key": key, "cx": _q(rng.choice([1, 2, -1, Fraction(1, 2)])), "ct": _q(rng.choice([0, 1, -2]))}
    c["eq_params"] = [kv for kv in c["eq_params"] if kv[0] in c["sem"]]
    return c


def _hetero_factor(case):
    pt = _point(case)
    h = case["hetero"]
    return 1 + Fraction(h["cx"]) * pt[1] + Fraction(h["ct"]) * pt[0]


def _hetero_resolved(case, ncalls=1):
    """the case the documented expression is evaluated on: the heterogeneous parameter at its point-wise value"""
    c = copy.deepcopy(case)
    k = c["hetero"]["key"]
    v = Fraction(c["sem"][k]) * _hetero_factor(case) ** ncalls
    c["sem"][k] = _q(v)
    c["eq_params"] = [[kk, (_q(v) if kk == k else vv)] for kk, vv in c["eq_params"]]
    return c


# ---- separable networks (SPINN): the same built-ins evaluated on the tensor grid of a batch ------------------
SPINN_KINDS = ["burgers", "fisher", "ou", "mass", "ns"]


def _gen_spinn(rng, kind=None, B=None):
    """a built-in evaluated with real `SPINN`s whose one-dimensional sub-networks are integer polynomials; the
    residual grid is compared, grid index by grid index, with the documented expression of the pointwise twin
    polynomial sum_r prod_k f_k,r(z_k) at the grid point (batches smaller AND larger than the dimension)"""
    from harness import c11

    kind = kind or rng.choice(SPINN_KINDS)
    B = B or rng.choice([1, 1, 2, 3])
    # (one point per axis in two space dimensions: a batch smaller than the dimension)
    c = GEN[kind](rng) if kind != "fisher" else _gen_fisher(rng, d=2 if B == 1 else rng.choice([1, 2, 2]))
    c["flavour"] = "spinn"
    c.pop("free", None)
    time = kind in ("burgers", "fisher", "ou")
    D = (1 + len(c["x"])) if time else 2
    R, deg = rng.choice([1, 2]), 2
    exps = list(itertools.product(range(deg + 1), repeat=D))
    coefs, nets = {}, []
    for name, ps in c["nets"]:
        M = len(ps)
        coef = c11._coef(rng, D, R * M, deg)
        for sub in coef:          # every feature is genuinely quadratic: no second derivative vanishes identically
            for row in sub:
                if row[2] == 0:
                    row[2] = rng.choice([-1, 1, 2])
        coefs[name] = coef
        tw = c11._twin_coef(coef, R, M, exps)
        nets.append([name, [[[_q(Fraction(v)), list(e)] for v, e in zip(row, exps) if v != 0] for row in tw]])
    c["nets"] = nets
    c["spinn"] = {"R": R, "deg": deg, "D": D, "time": time, "coef": coefs, "X": c11._batch(rng, B, D)}
    c["t"], c["x"] = None, None
    return c



# ---- free parameters: reading / writing one of them in a case ---------------------------------
def _get_free(case, fr):
    if "sem" in fr:
        v = case["sem"][fr["sem"]]
        return Fraction(v[fr["idx"]] if "idx" in fr else v)
    for name, ps in case["nets"]:
        if name == fr["net"]:
            for cf, e in ps[fr["comp"]]:
                if list(e) == fr["mono"]:
                    return Fraction(cf)
            return Fraction(0)
    raise KeyError(fr)


def _set_free(case, fr, val):
    c = copy.deepcopy(case)
    val = Fraction(val)
    if "sem" in fr:
        def put(holder, key):
            if "idx" in fr:
                holder[key] = list(holder[key])
                holder[key][fr["idx"]] = _q(val)
            else:
                holder[key] = _q(val)
        put(c["sem"], fr["sem"])
        path = fr["eq"]
        for ent in c["eq_params"]:
            if ent[0] == path[0]:
                if len(path) == 1:
                    d = {ent[0]: ent[1]}
                    put(d, ent[0])
                    ent[1] = d[ent[0]]
                else:
                    for sub in ent[1]["sub"]:
                        if sub[0] == path[1]:
                            d = {sub[0]: sub[1]}
                            put(d, sub[0])
                            sub[1] = d[sub[0]]
        return c
    for name, ps in c["nets"]:
        if name == fr["net"]:
            p = [m for m in ps[fr["comp"]] if list(m[1]) != fr["mono"]]
            if val != 0:
                p.append([_q(val), list(fr["mono"])])
            ps[fr["comp"]] = sorted(p, key=lambda m: m[1])
    return c


def _solve_vanishing(cases):
    """for each case, the value of its free parameter(s) that makes Lean's DOCUMENTED residual vanish at the point
    (the residual is affine in each free parameter, component k depends on free parameter k)"""
    from harness import core

    # `harness.core` imported here is not the `__main__` instance running the check: name the driver explicitly
    core.DRIVER = "drivers/Driver_C02.lean"
    reqs, index = [], []
    for ci, c in enumerate(cases):
        c0 = c
        for fr in c["free"]:
            c0 = _set_free(c0, fr, 0)
        reqs.append(_request(c0, None))
        index.append((ci, None))
        for j, fr in enumerate(c["free"]):
            reqs.append(_request(_set_free(c0, fr, 1), None))
            index.append((ci, j))
    ans = core.lean_eval(reqs)
    docs = {}
    for (ci, j), a in zip(index, ans):
        docs[(ci, j)] = None if a.get("doc") is None else [Fraction(v) for v in a["doc"]]
    out = []
    for ci, c in enumerate(cases):
        r0 = docs[(ci, None)]
        if r0 is None or len(r0) != len(c["free"]):
            out.append(None)
            continue
        sol, okc = c, True
        for j, fr in enumerate(c["free"]):
            r1 = docs[(ci, j)]
            s = r1[j] - r0[j]
            if s == 0 or not _nice(-r0[j] / s):
                okc = False
                break
            sol = _set_free(sol, fr, -r0[j] / s)
        out.append(sol if okc else None)
    return out


# ---- fields that solve the equation identically -------------------------------------------------
def _solutions(rng):
    from harness.polynet import P

    out = []

    def fin(c, fl="solution"):
        c["flavour"] = fl
        out.append(c)

    # Burgers: constants
    c = _gen_burgers(rng)
    c["nets"] = [["u", [_pj(P.const(2, rng.randint(-3, 3)))]]]
    fin(c)
    # Fisher-KPP: the logistic equilibrium u = r / g, and heat polynomials when r = g = 0
    c = _gen_fisher(rng)
    d = len(c["x"])
    g = Fraction(rng.choice([1, 2, Fraction(1, 2)]))
    ueq = Fraction(rng.choice([1, 2, -2, 4]))
    c["sem"].update({"r": _q(g * ueq), "g": _q(g)})
    c["eq_params"] = [[k, c["sem"][k]] for k in ("D", "r", "g")]
    c["nets"] = [["u", [_pj(P.const(1 + d, ueq))]]]
    fin(c)
    for d in (1, 2):
        c = _gen_fisher(rng, d)
        D, T = Fraction(c["sem"]["D"]), Fraction(c["Tmax"])
        c["sem"].update({"r": "0", "g": "0"})
        c["eq_params"] = [[k, c["sem"][k]] for k in ("g", "D", "r")]
        t, x = P.var(1 + d, 0), P.var(1 + d, 1)
        if d == 1:
            u = x * x * x + 6 * T * D * t * x + 2 * (x * x + 2 * T * D * t)
        else:
            y = P.var(3, 2)
            u = x * x + y * y + 4 * T * D * t + 3 * x * y + (x * x - y * y)
        c["nets"] = [["u", [_pj(u)]]]
        fin(c)
    # OU Fokker-Planck: alpha = 0 (heat equation with D_i = sigma_i^2 / 2); alpha = (a, -2a), u = k (x - mu_0)
    c = _gen_ou(rng)
    T, sg = Fraction(c["Tmax"]), [Fraction(v) for v in c["sem"]["sigma"]]
    c["sem"]["alpha"] = ["0", "0"]
    c["eq_params"] = [[k, c["sem"][k]] for k in ("alpha", "mu", "sigma")]
    t, x, y = (P.var(3, i) for i in range(3))
    u = x * x + sg[0] * sg[0] * T * t + 2 * (y * y + sg[1] * sg[1] * T * t) + x * y
    c["nets"] = [["u", [_pj(u)]]]
    fin(c)
    c = _gen_ou(rng)
    a = Fraction(rng.choice([1, 2, Fraction(1, 2), -1]))
    mu0 = Fraction(c["sem"]["mu"][0])
    c["sem"]["alpha"] = [_q(a), _q(-2 * a)]
    c["eq_params"] = [[k, c["sem"][k]] for k in ("mu", "sigma", "alpha")]
    c["nets"] = [["u", [_pj((P.var(3, 1) - mu0) * rng.choice([1, 2, -3]))]]]
    fin(c)
    # GLV: constant equilibrium  r + sum_k a_k u_k - c sum_k u_k = 0
    c = _gen_glv(rng, n_other=2, pow2=True)
    names = [c["keys"]["main"]] + c["keys"]["others"]
    vals = {nm: Fraction(rng.choice([1, 2, 4, -2])) for nm in names}
    c["nets"] = [[nm, [_pj(P.const(1, vals.get(nm, 3)))]] for nm, _ in c["nets"]]
    a = [Fraction(v) for v in c["sem"]["interactions"]]
    cc = Fraction(c["sem"]["carrying_capacity"])
    r = -sum(ak * vals[nm] for ak, nm in zip(a, names)) + cc * sum(vals[nm] for nm in names)
    c = _set_free(c, {"sem": "growth_rate",
                      "eq": [c["keys"]["main"], "growth_rate"] if c["layout"] == "nested" else ["growth_rate"]}, r)
    fin(c)
    # mass conservation: u = (d psi/dy, -d psi/dx)
    c = _gen_mass(rng)
    psi = _rand_poly(rng, 2, 4, 6)
    uk = c["keys"]["nn_key"]
    c["nets"] = [[nm, ([_pj(psi.d(1)), _pj(-psi.d(0))] if nm == uk else ps)] for nm, ps in c["nets"]]
    fin(c)
    # Navier-Stokes: Poiseuille / Couette  u = (k y^2 + b y + c, 0), p = 2 k rho nu x;  stagnation point flow
    c = _gen_ns(rng)
    nu, rho = Fraction(c["sem"]["nu"]), Fraction(c["sem"]["rho"])
    x, y = P.var(2, 0), P.var(2, 1)
    k, b, c0 = rng.choice([1, -1, 2]), rng.randint(-2, 2), rng.randint(-2, 2)
    uu = [y * y * k + y * b + c0, P.const(2, 0)]
    pp = x * (2 * k * rho * nu) + rng.randint(-2, 2)
    c["nets"] = [[nm, ([_pj(q) for q in uu] if nm == c["keys"]["u_key"] else [_pj(pp)])] for nm, _ in c["nets"]]
    fin(c)
    c = _gen_ns(rng)
    rho = Fraction(c["sem"]["rho"])
    a = rng.choice([1, 2, -1])
    uu = [x * a, y * (-a)]
    pp = (x * x + y * y) * (-rho * a * a / 2) + 1
    c["nets"] = [[nm, ([_pj(q) for q in uu] if nm == c["keys"]["u_key"] else [_pj(pp)])] for nm, _ in c["nets"]]
    fin(c)
    # perturbed solutions: one more monomial in a network, or a shifted parameter
    pert = []
    for s in out:
        p = copy.deepcopy(s)
        p["flavour"] = "perturbed_solution"
        name, ps = p["nets"][rng.randrange(len(p["nets"]))]
        nv = _nvars(p)
        q = _P(nv, ps[0]) + _rand_poly(rng, nv, 2, 1, 2) * _P(nv, [["1", [1] * nv]])
        ps[0] = _pj(q)
        pert.append(p)
    return out + pert


def gen_cases(rng, tier):
    per = {"quick": {"burgers": 30, "fisher": 30, "ou": 28, "fpe": 16, "glv": 48, "mass": 18, "ns": 34},
           "thorough": {"burgers": 400, "fisher": 400, "ou": 350, "fpe": 200, "glv": 550, "mass": 250, "ns": 400}}[tier]
    cases = []
    for kind, n in per.items():
        for _ in range(n):
            cases.append(GEN[kind](rng))
    # every Tmax for every time-dependent kind, at least once
    for kind in ("burgers", "fisher", "ou", "fpe", "glv"):
        for T in TMAX:
            c = GEN[kind](rng)
            c["Tmax"] = T
            cases.append(c)
    # guard branch
    g = _gen_glv(rng, n_other=1, pow2=True)
    from harness.polynet import P
    g["nets"] = [[nm, ([_pj(P.var(1, 0) - Fraction(g["t"]))] if nm == g["keys"]["main"] else ps)] for nm, ps in g["nets"]]
    g["flavour"] = "guard"
    cases.append(g)
    # parameter solved so that the documented residual vanishes at the point; and the same, perturbed
    keep = 4 if tier == "quick" else 40
    base = []
    for k in per:
        for _ in range(12 * keep):
            c = GEN[k](rng)
            if k == "fpe":
                c["t"] = "0"
            elif k in ("burgers", "fisher", "ou") and rng.random() < 0.5:
                # alternative free parameter: the coefficient of the monomial t of the network, at t = 0
                c["t"] = "0"
                c["free"] = [{"net": "u", "comp": 0, "mono": [1] + [0] * len(c["x"])}]
            base.append(c)
    solved = _solve_vanishing(base)
    count = {}
    for s in solved:
        if s is None or count.get(s["kind"], 0) >= keep:
            continue
        count[s["kind"]] = count.get(s["kind"], 0) + 1
        s["flavour"] = "vanishes_at_point"
        cases.append(s)
        p = s
        for fr in s["free"][:1]:
            p = _set_free(p, fr, _get_free(s, fr) + rng.choice([Fraction(1, 4), -1, 2]))
        p["flavour"] = "perturbed_at_point"
        cases.append(p)
    reps = 2 if tier == "quick" else 12
    for _ in range(reps):
        cases += _solutions(rng)
    # heterogeneous parameters (the decorator around `equation`), evaluated twice on the same Params
    for _ in range(2 if tier == "quick" else 20):
        for kind in ("burgers", "fisher"):
            cases.append(_gen_hetero(rng, kind))
    # separable networks: every built-in with a SPINN branch, one point per axis (batch < dimension) and more
    for _ in range(1 if tier == "quick" else 8):
        for kind in SPINN_KINDS:
            for B in (1, 1, rng.choice([2, 3])):
                cases.append(_gen_spinn(rng, kind, B))
    if tier == "thorough":
        for c in cases[::15]:
            c["jit"] = True
    return cases


def shrink_candidates(case):
    # drop one monomial of one network; integer point; Tmax = 1
    if case.get("spinn"):
        sp = case["spinn"]
        if len(sp["X"]) > 1:  # a smaller batch (the twin polynomials do not depend on the batch)
            c = copy.deepcopy(case)
            c["spinn"]["X"] = sp["X"][:-1]
            yield c
        return
    for ni, (name, ps) in enumerate(case["nets"]):
        for pi, p in enumerate(ps):
            if len(p) > 1:
                for mi in range(len(p)):
                    c = copy.deepcopy(case)
                    del c["nets"][ni][1][pi][mi]
                    yield c
    if case["Tmax"] != "2" and case["kind"] in ("burgers", "fisher", "ou", "fpe", "glv"):
        c = copy.deepcopy(case)
        c["Tmax"] = "2"
        yield c


def widen(rng, bad_cases):
    out = []
    for b in bad_cases:
        for _ in range(30):
            out.append(GEN[b["kind"]](rng))
    return out
