"""
C03 — total = sum of the terms, unconfigured terms are 0, the dynamic term is the batch mean of the
weighted squared residuals (hence linear in its weight, permutation invariant, average of its halves).

This module also holds the machinery shared with C04 and C05 (a "loss case"):
  * `build(case)`        real jinns loss (LossODE / LossPDEStatio / LossPDENonStatio) around a real PINN
                         wrapping an integer polynomial network, real user ODE/PDEStatio/PDENonStatio
                         subclasses whose `equation` is an integer polynomial map of (inputs, u, du, theta),
                         real batches (hand-built, or drawn from the real generators then snapped to dyadics);
  * `evaluate(case)`     `loss.evaluate(params, batch)` -> exact (total, terms);
  * `lean_case(case, arrays)`  the configuration + exact value tables (Fractions, `P` polynomials) computed
                         independently of jinns, as consumed by `JinnsDriver/C03.lean: parseLossCase`.
"""
from __future__ import annotations

import functools
import itertools
from fractions import Fraction as Fr

from harness import core
from harness.polynet import P, random_poly

PROP = "C03"
TECHNIQUE = ("Lean 4 proof (list induction, List.Perm, ring/field_simp) + exact differential correspondence "
             "with user functions as value tables")
LEVEL_TEXT = ("Lean 4 theorems, for all residual maps, weights (scalar / per-component), batches and every subset of "
              "configured terms: total = sum of the returned terms for LossODE, LossPDEStatio, LossPDENonStatio "
              "(the latter delegating to the former and adding the initial-condition term); an unconfigured term is 0; "
              "the dynamic term is (1/|batch|) sum_x sum_c w_c r_c(x)^2, homogeneous and additive in w, invariant "
              "under List.Perm of the batch, and the average of its values on two halves of equal length.  The model "
              "is tied to /repo on every run: real losses are evaluated on integer-polynomial networks and equations "
              "(all float64 operations exact, JAX AD included) and compared by equality with the model fed with "
              "exact value tables; Holds.C03 is evaluated on the implementation's own outputs, including four "
              "metamorphic re-evaluations of the implementation."
              "  Holds.C03 itself is proved of every output of the model's evalODE / evalStatio / evalNonStatio with all metamorphic re-evaluations (holdsC03_model_*), and the dynamic term of a separable network is the same closed form over the tensor grid of the batch (lossStatioSpinnDyn_dyn).")
LEVEL_NOTE = ("Trusted: Lean kernel + {propext, Classical.choice, Quot.sound}; the hand-written aggregation model's tie "
              "to the code is differential (sees the generated configurations); the residual at a point is an oracle "
              "value computed by the harness with exact polynomials (the user's equation and JAX AD are not modelled); "
              "floating point is not modelled (inputs keep float64 exact; non-power-of-two batch sizes use the 4-ulp rule).")
THEOREMS = [
    "Jinns.LossTerms.evalODE_total_eq_sum",
    "Jinns.LossTerms.evalStatio_total_eq_sum",
    "Jinns.LossTerms.evalNonStatio_total_eq_sum",
    "Jinns.LossTerms.evalODE_terms",
    "Jinns.LossTerms.evalStatio_terms",
    "Jinns.LossTerms.evalNonStatio_terms",
    "Jinns.LossTerms.evalNonStatio_delegates",
    "Jinns.LossTerms.lossODE_total_eq_sum",
    "Jinns.LossTerms.lossStatio_total_eq_sum",
    "Jinns.LossTerms.lossNonStatio_total_eq_sum",
    "Jinns.LossTerms.lossODE_dyn",
    "Jinns.LossTerms.lossStatio_dyn",
    "Jinns.LossTerms.lossNonStatio_dyn",
    "Jinns.LossTerms.dynTerm_closed_form",
    "Jinns.LossTerms.dynTerm_smul",
    "Jinns.LossTerms.dynTerm_add_scalar",
    "Jinns.LossTerms.dynTerm_add_vec",
    "Jinns.LossTerms.dynTerm_perm",
    "Jinns.LossTerms.dynTerm_halves",
    "Jinns.LossTerms.holds_closed_form_eq_dynTerm",
    "Jinns.LossTerms.holdsC03_model_ode",
    "Jinns.LossTerms.holdsC03_model_statio",
    "Jinns.LossTerms.holdsC03_model_nonstatio",
    "Jinns.LossTerms.modelObs03ODE_reads_lossODE",
    "Jinns.LossTerms.modelObs03Statio_reads_lossStatio",
    "Jinns.LossTerms.modelObs03NonStatio_reads_lossNonStatio",
    "Jinns.LossTerms.lossStatioSpinnDyn_total_eq_sum",
    "Jinns.LossTerms.lossNonStatioSpinnDyn_total_eq_sum",
    "Jinns.LossTerms.lossStatioSpinnDyn_dyn",
    "Jinns.LossTerms.lossNonStatioSpinnDyn_dyn",
    "Jinns.LossTerms.lossStatioSpinnDyn_none",
    "Jinns.LossTerms.lossNonStatioSpinnDyn_none",
    "Jinns.LossTerms.gridPts_perm",
    "Jinns.LossTerms.dynTerm_gridPts_perm",
    "Jinns.LossTerms.holdsC03_model_statio_spinn",
    "Jinns.LossTerms.holdsC03_model_nonstatio_spinn",
    "Jinns.LossTerms.modelObs03StatioSpinn_reads",
    "Jinns.LossTerms.modelObs03NonStatioSpinn_reads",
]
LEAN_MODULES = ["JinnsProofs.C03", "JinnsProofs.C03C05Holds", "JinnsProofs.C03SpinnHolds"]
RULE = ("cases = (loss kind, dimension, network, equation with 1..3 residual components, weights, subset of "
        "configured terms, batch); non-trivial = the dynamic term is configured, non-zero, with per-point weighted "
        "squared residuals that are not all equal (so a wrong axis, a wrong mean or a permutation-sensitive "
        "aggregation changes the value), or at least two returned terms are non-zero (so a term dropped from the "
        "total changes it); distinct = distinct case dicts"
        " Plus: separable networks (dynamic term over the tensor grid of the batch), scalar weights held in 0-d arrays, weights replaced with eqx.tree_at on the constructed loss.")
ASSUMPTIONS = [
    "the residual of the user's equation at a point is a function of that point and of the parameters (oracle "
    "table computed with exact polynomial arithmetic; JAX AD of a polynomial network is exact)",
    "float64 arithmetic is exact on the generated inputs (small dyadics, integer polynomials); batch sizes that are "
    "not powers of two are compared within 4 ulp of the largest value involved and counted in the tags",
    "array weights have one entry per residual component",
]

# ----------------------------------------------------------------------------------------------
# exact helpers
# ----------------------------------------------------------------------------------------------
q = core.qstr


def F(x):
    return x if isinstance(x, Fr) else Fr(x)


def pfrom(js, n):
    return P(n, {tuple(e): Fr(c) for c, e in js})


def qrow(r):
    return [q(x) for x in r]


def qmat(m):
    return [qrow(r) for r in m]


def W_json(w):
    """weight spec {'scalar': q} | {'vec': [q]} -> same (already json)"""
    return w


def W_mul(c, w):
    if "scalar" in w:
        return {**w, "scalar": q(F(c) * F(w["scalar"]))}
    return {"vec": [q(F(c) * F(x)) for x in w["vec"]]}


def W_add(a, b):
    if "scalar" in a and "scalar" in b:
        return {**a, "scalar": q(F(a["scalar"]) + F(b["scalar"]))}
    return {"vec": [q(F(x) + F(y)) for x, y in zip(a["vec"], b["vec"])]}


def n_in_of(case):
    return {"ode": 1, "statio": case["d"], "nonstatio": 1 + case["d"]}[case["kind"]]


class Exact:
    """exact oracle of the user's functions of one case"""

    def __init__(self, case):
        self.case = case
        self.n_in = n_in_of(case)
        self.m = case["m"]
        self.theta = F(case["theta"])
        # optional second equation parameter: enters through output_transform, out + kappa * inp[0]
        self.kappa = None if case.get("kappa") is None else F(case["kappa"])
        self.u = [pfrom(js, self.n_in + 1) for js in case["u"]]
        self.du = [[p.d(j) for j in range(self.n_in)] for p in self.u]

    def uval(self, inp, theta=None, kappa=None):
        z = list(inp) + [self.theta if theta is None else theta]
        k = self.kappa if kappa is None else kappa
        add = 0 if self.kappa is None else k * inp[0]
        return [p(z) + add for p in self.u]

    def jac(self, inp, theta=None, kappa=None):
        z = list(inp) + [self.theta if theta is None else theta]
        k = self.kappa if kappa is None else kappa
        out = [[dp(z) for dp in row] for row in self.du]
        if self.kappa is not None:
            out = [[v + (k if j == 0 else 0) for j, v in enumerate(row)] for row in out]
        return out

    def fn(self, polys_js, inp):
        """a user function of the inputs given as polynomials in (inputs, theta), theta = caller's value"""
        z = list(inp) + [self.theta]
        return [pfrom(js, self.n_in + 1)(z) for js in polys_js]

    def residual(self, eq_js, inp):
        uv = self.uval(inp)
        J = self.jac(inp)
        z = list(inp) + uv + [x for row in J for x in row] + [self.theta]
        nz = len(z)
        return [pfrom(js, nz)(z) for js in eq_js]


def nz_of(case):
    n = n_in_of(case)
    return n + case["m"] + case["m"] * n + 1


# ----------------------------------------------------------------------------------------------
# JAX side: polynomial evaluation by repeated multiplication (exact on small dyadics)
# ----------------------------------------------------------------------------------------------
def pterms(js):
    """hashable form ((coef float, exps tuple), ...)"""
    return tuple((float(Fr(c)), tuple(e)) for c, e in js)


def peval_jax(terms, z):
    import jax.numpy as jnp

    tot = jnp.zeros((), dtype=z.dtype)
    for coef, e in terms:
        t = jnp.asarray(coef, dtype=z.dtype)
        for j, k in enumerate(e):
            for _ in range(k):
                t = t * z[j]
        tot = tot + t
    return tot


@functools.lru_cache(None)
def _classes():
    import equinox as eqx
    import jax
    import jax.numpy as jnp
    from jinns.loss._DynamicLossAbstract import ODE, PDEStatio, PDENonStatio

    def zvec(inp, uf, params):
        uval = uf(inp)
        J = jax.jacfwd(uf)(inp)
        th = jnp.reshape(params.eq_params["theta"], (1,))
        return jnp.concatenate([inp, uval, J.reshape(-1), th])

    def peval_last(terms, Z):
        """polynomial of the entries of the last axis of Z, by repeated multiplication (exact on small dyadics)"""
        tot = jnp.zeros(Z.shape[:-1], dtype=Z.dtype)
        for coef, e in terms:
            t = jnp.ones(Z.shape[:-1], dtype=Z.dtype) * coef
            for j, k in enumerate(e):
                for _ in range(k):
                    t = t * Z[..., j]
            tot = tot + t
        return tot

    def zgrid(A, ufun, params):
        """the same z-vector on the whole tensor grid of the coordinate columns of A (a separable network):
        forward-mode derivatives, one jvp per coordinate"""
        n_in = A.shape[1]
        coords = jnp.stack(jnp.meshgrid(*[A[:, j] for j in range(n_in)], indexing="ij"), axis=-1)
        U = ufun(A)
        dU = [jax.jvp(ufun, (A,), (jnp.zeros_like(A).at[:, j].set(1.0),))[1] for j in range(n_in)]
        J = jnp.stack(dU, axis=-1)  # (grid, m, n_in): same layout as jacfwd's (m, n_in)
        th = jnp.broadcast_to(jnp.reshape(params.eq_params["theta"], (1,)), U.shape[:-1] + (1,))
        return jnp.concatenate([coords, U, J.reshape(U.shape[:-1] + (-1,)), th], axis=-1)

    def is_spinn(u):
        from jinns.utils._spinn import SPINN

        return isinstance(u, SPINN)

    class EqODE(ODE):
        qs: tuple = eqx.field(static=True, kw_only=True, default=())

        def equation(self, t, u, params):
            inp = jnp.reshape(t, (1,))
            z = zvec(inp, lambda a: u(a, params), params)
            return jnp.stack([peval_jax(qq, z) for qq in self.qs])

    class EqStatio(PDEStatio):
        qs: tuple = eqx.field(static=True, kw_only=True, default=())

        def equation(self, x, u, params):
            if is_spinn(u):
                Z = zgrid(x, lambda a: u(a, params), params)
                return jnp.stack([peval_last(qq, Z) for qq in self.qs], axis=-1)
            z = zvec(x, lambda a: u(a, params), params)
            return jnp.stack([peval_jax(qq, z) for qq in self.qs])

    class EqNonStatio(PDENonStatio):
        qs: tuple = eqx.field(static=True, kw_only=True, default=())

        def equation(self, t, x, u, params):
            if is_spinn(u):
                Z = zgrid(jnp.concatenate([t, x], axis=1), lambda a: u(a[:, :1], a[:, 1:], params), params)
                return jnp.stack([peval_last(qq, Z) for qq in self.qs], axis=-1)
            inp = jnp.concatenate([t, x])
            z = zvec(inp, lambda a: u(a[:1], a[1:], params), params)
            return jnp.stack([peval_jax(qq, z) for qq in self.qs])

    return {"ode": EqODE, "statio": EqStatio, "nonstatio": EqNonStatio}


def _w_jax(w):
    import jax.numpy as jnp

    if "scalar" in w:
        if w.get("as") == "array0d":      # the same scalar weight held in a 0-d array (what jit makes of a float)
            return jnp.asarray(float(F(w["scalar"])))
        return float(F(w["scalar"]))
    return jnp.asarray([float(F(x)) for x in w["vec"]])


def _slice(s):
    return None if s is None else slice(int(s[0]), int(s[1]))


FACET_NAMES = {2: ["xmin", "xmax"], 4: ["xmin", "xmax", "ymin", "ymax"]}
COND_STR = {"dirichlet": "dirichlet", "neumann": "von neumann"}


def _boom(*a, **k):
    raise RuntimeError("the function of a facet without condition was applied")


def _make_f(case, fc, n_in, theta):
    """JAX boundary function of one facet: `f(dx)` / `f(t, dx)`"""
    import jax.numpy as jnp

    if case.get("spinn"):
        # a SPINN hands the whole tensor grid to f: arrays (..., d) [and (..., 1) for t]; evaluate on the last axis
        terms_ = [pterms(js) for js in fc["f"]]

        def gval(z):
            zs = [z[..., j] for j in range(z.shape[-1])] + [jnp.asarray(theta, dtype=z.dtype)]
            vs = []
            for tt in terms_:
                tot = jnp.zeros(z.shape[:-1], dtype=z.dtype)
                for coef, e in tt:
                    t = jnp.ones(z.shape[:-1], dtype=z.dtype) * coef
                    for j, k in enumerate(e):
                        for _ in range(k):
                            t = t * zs[j]
                    tot = tot + t
                vs.append(tot)
            return vs[0] if fc["fret"] == "scalar" else jnp.stack(vs, axis=-1)

        if case["kind"] == "nonstatio":
            return lambda t, dx: gval(jnp.concatenate([t, dx], axis=-1))
        return gval

    terms = [pterms(js) for js in fc["f"]]
    fret = fc["fret"]
    nonstatio = case["kind"] == "nonstatio"

    def val(inp):
        z = jnp.concatenate([inp, jnp.asarray([theta], dtype=inp.dtype)])
        vs = [peval_jax(t, z) for t in terms]
        if fret == "scalar":
            return vs[0]
        return jnp.stack(vs)

    if nonstatio:
        return lambda t, dx: val(jnp.concatenate([t, dx]))
    return lambda dx: val(dx)


def make_arrays(case):
    """the batch as plain nested lists of Fractions: {'inside': rows, 'border': rows|None, 'obs': …}.
    source 'hand': taken from the case; source 'gen': drawn from the real generator, snapped to halves.
    Observations: taken from the case, or drawn by the real `DataGeneratorObservations` from the case's table."""
    arrays = _make_arrays_points(case)
    o = case.get("obs")
    if o:
        ins = [[F(x) for x in r] for r in o["ins"]]
        vals = [[F(x) for x in r] for r in o["vals"]]
        ths = None if o.get("observed_theta") is None else [F(x) for x in o["observed_theta"]]
        if o.get("loader"):
            import jax
            import jax.numpy as jnp
            import numpy as np
            from jinns.data._DataGenerators import DataGeneratorObservations

            fl = lambda a: jnp.asarray([[float(x) for x in r] for r in a], dtype=jnp.float64)
            pin, val = fl(ins), fl(vals)
            if o.get("ins_1d") and pin.shape[1] == 1:
                pin = pin[:, 0]
            if o.get("vals_1d") and val.shape[1] == 1:
                val = val[:, 0]
            eqp = {}
            if ths is not None:
                th = jnp.asarray([float(x) for x in ths], dtype=jnp.float64)
                eqp["theta"] = th if o.get("theta_1d") else th[:, None]
            g = DataGeneratorObservations(jax.random.PRNGKey(o["loader"]["seed"]), o["loader"]["n"], pin, val, eqp)
            for _ in range(o["loader"].get("draws", 1)):
                g, od = g.get_batch()
            rec = lambda a: [[Fr(float(x)) for x in r] for r in np.asarray(a).reshape(len(a), -1)]
            ins, vals = rec(od["pinn_in"]), rec(od["val"])
            ths = None if ths is None else [r[0] for r in rec(od["eq_params"]["theta"])]
            arrays["_obs_dict"] = od
        arrays["obs"] = {"ins": ins, "vals": vals, "thetas": ths,
                         "kappas": None if o.get("observed_kappa") is None else [F(x) for x in o["observed_kappa"]]}
    return arrays


def _make_arrays_points(case):
    b = case["batch"]
    if b["source"] == "hand":
        return {"inside": [[F(x) for x in r] for r in b["inside"]],
                "border": None if b.get("border") is None else
                [[[F(x) for x in c] for c in row] for row in b["border"]]}
    import jax
    import jax.numpy as jnp
    import numpy as np
    from jinns.data._DataGenerators import DataGeneratorODE, CubicMeshPDEStatio, CubicMeshPDENonStatio

    key = jax.random.PRNGKey(b["seed"])
    kind, d = case["kind"], case["d"]
    lo, hi = [float(x) for x in b["min"]], [float(x) for x in b["max"]]
    if kind == "ode":
        g = DataGeneratorODE(key, b["n"], 0.0, float(b["tmax"]), b["n"])
        _, bt = g.get_batch()
        inside, border = np.asarray(bt.temporal_batch)[:, None], None
    elif kind == "statio":
        g = CubicMeshPDEStatio(key=key, n=b["n"], nb=b["nb"], omega_batch_size=b["n"],
                               omega_border_batch_size=b["nbb"], dim=d, min_pts=tuple(lo), max_pts=tuple(hi))
        _, bt = g.get_batch()
        inside, border = np.asarray(bt.inside_batch), bt.border_batch
    else:
        g = CubicMeshPDENonStatio(key=key, n=b["n"], nb=b["nb"], nt=b["nt"], omega_batch_size=b["n"],
                                  omega_border_batch_size=b["nbb"], temporal_batch_size=b["nt"], dim=d,
                                  min_pts=tuple(lo), max_pts=tuple(hi), tmin=0.0, tmax=float(b["tmax"]),
                                  cartesian_product=b["cartesian"])
        _, bt = g.get_batch()
        inside, border = np.asarray(bt.times_x_inside_batch), bt.times_x_border_batch

    def snap(a):
        a = np.round(np.asarray(a, dtype=float) * 2.0) / 2.0
        return a

    def rec(a):
        return [rec(x) for x in a] if getattr(a, "ndim", 0) > 0 else Fr(float(a))

    return {"inside": rec(snap(inside)), "border": None if border is None else rec(snap(border))}


def build(case, arrays=None):
    """the real jinns objects of a case: (loss, params, batch)"""
    import jax.numpy as jnp
    from harness.polynet import make_pinn
    from jinns.data._Batchs import ODEBatch, PDEStatioBatch, PDENonStatioBatch
    from jinns.loss._LossODE import LossODE
    from jinns.loss._LossPDE import LossPDEStatio, LossPDENonStatio
    from jinns.loss._loss_weights import LossWeightsODE, LossWeightsPDEStatio, LossWeightsPDENonStatio
    from jinns.parameters._params import Params

    kind, d, m = case["kind"], case["d"], case["m"]
    n_in = n_in_of(case)
    theta = float(F(case["theta"]))
    polys = [pfrom(js, n_in + 1) for js in case["u"]]

    def it(inp, params):
        return jnp.concatenate([inp, jnp.reshape(params.eq_params["theta"], (1,))])

    eq_type = {"ode": "ODE", "statio": "statio_PDE", "nonstatio": "nonstatio_PDE"}[kind]
    eqp0 = {"theta": jnp.asarray(theta)}
    ot = None
    if case.get("kappa") is not None:
        eqp0["kappa"] = jnp.asarray(float(F(case["kappa"])))
        ot = lambda inp, out, params: out + jnp.reshape(params.eq_params["kappa"], ()) * inp[0]
    if case.get("spinn"):
        # a real separable network: sub-network k is a vector of R*m polynomials of coordinate k
        # (`harness/c11.py: _polyfeat_cls`, imported read-only); its pointwise twin is case["u"]
        from harness.c11 import _polyfeat_cls
        from jinns.utils._spinn import SPINN

        sp = case["spinn"]
        coef = jnp.asarray([[[float(F(x)) for x in row] for row in sub_] for sub_ in sp["coef"]], dtype=jnp.float64)
        u = SPINN(spinn_mlp=_polyfeat_cls()(coef=coef), d=n_in, r=sp["R"], eq_type=eq_type, m=m)
    else:
        u = make_pinn(polys, eq_type, input_transform=it, output_transform=ot,
                      slice_solution=_slice(case.get("slice_solution")))
    params = Params(nn_params=u.init_params(), eq_params=eqp0)
    pbd = None
    if case.get("pbatch"):
        pbd = {k: jnp.asarray([[float(F(x))] for x in col], dtype=jnp.float64) for k, col in case["pbatch"].items()}

    dyn = None
    weights = {}
    if case.get("dyn"):
        dyn = _classes()[kind](qs=tuple(pterms(js) for js in case["dyn"]["eq"]))
        weights["dyn_loss"] = _w_jax(case["dyn"]["w"])
    obs_slice = None
    if case.get("obs"):
        weights["observations"] = _w_jax(case["obs"]["w"])
        obs_slice = _slice(case["obs"].get("obs_slice"))

    if arrays is None:
        arrays = make_arrays(case)
    fl = lambda a: jnp.asarray([[float(F(x)) for x in r] for r in a], dtype=jnp.float64)
    obs_dict = None
    if case.get("obs"):
        o = case["obs"]
        if "_obs_dict" in arrays:
            obs_dict = arrays["_obs_dict"]
        else:
            ao = arrays["obs"]
            pin = fl(ao["ins"])
            if kind == "ode" and o.get("ins_1d"):
                pin = pin[:, 0]
            val = fl(ao["vals"])
            if o.get("vals_1d"):
                val = val[:, 0]
            eqp = {}
            if ao["thetas"] is not None:
                th = jnp.asarray([float(F(x)) for x in ao["thetas"]], dtype=jnp.float64)
                eqp["theta"] = th if o.get("theta_1d") else th[:, None]
            if ao.get("kappas") is not None:
                eqp["kappa"] = jnp.asarray([[float(F(x))] for x in ao["kappas"]], dtype=jnp.float64)
            obs_dict = {"pinn_in": pin, "val": val, "eq_params": eqp}

    if kind == "ode":
        ic = None
        if case.get("ic"):
            c = case["ic"]
            u0 = [float(F(x)) for x in c["u0"]]
            ic = (float(F(c["t0"])), u0[0] if c.get("u0_scalar") else jnp.asarray(u0))
            weights["initial_condition"] = float(F(c["w"]))
        loss = LossODE(u=u, dynamic_loss=dyn, loss_weights=LossWeightsODE(**weights), initial_condition=ic,
                       obs_slice=obs_slice, params=params)
        batch = ODEBatch(temporal_batch=jnp.asarray([float(r[0]) for r in arrays["inside"]], dtype=jnp.float64),
                         param_batch_dict=pbd, obs_batch_dict=obs_dict)
        return loss, params, batch

    kw = {}
    if case.get("norm"):
        c = case["norm"]
        kw["norm_samples"] = fl(c["samples"])
        kw["norm_int_length"] = float(F(c["L"]))
        weights["norm_loss"] = float(F(c["w"]))
    if case.get("boundary"):
        c = case["boundary"]
        weights["boundary_loss"] = float(F(c["w"]))

        def dimv(x):
            return x if (x is None or isinstance(x, int)) else _slice(x)

        if c["global"]:
            fc = c["facets"][0]
            kw["omega_boundary_fun"] = _make_f(case, fc, n_in, theta)
            kw["omega_boundary_condition"] = fc.get("cond_str", COND_STR[fc["cond"]])
            kw["omega_boundary_dim"] = dimv(fc["dim"])
        else:
            names = c.get("names") or FACET_NAMES[len(c["facets"])]
            kw["omega_boundary_fun"] = {k: (_boom if fc is None else _make_f(case, fc, n_in, theta))
                                        for k, fc in zip(names, c["facets"])}
            kw["omega_boundary_condition"] = {k: (None if fc is None else fc.get("cond_str", COND_STR[fc["cond"]]))
                                              for k, fc in zip(names, c["facets"])}
            if not c.get("dim_default"):
                kw["omega_boundary_dim"] = {k: (jnp.s_[::] if (fc is None or fc["dim"] is None) else dimv(fc["dim"]))
                                            for k, fc in zip(names, c["facets"])}
            if c.get("key_order") and not c.get("names"):
                # the per-facet dictionaries written in another key order (the same for the three of them, as the
                # constructor requires): every entry still belongs to the facet its key names
                perm = [names[i] for i in c["key_order"]]
                for kk in ("omega_boundary_fun", "omega_boundary_condition", "omega_boundary_dim"):
                    if isinstance(kw.get(kk), dict):
                        kw[kk] = {k: kw[kk][k] for k in perm}
    border = None if arrays["border"] is None else jnp.asarray(
        [[[float(x) for x in cc] for cc in row] for row in arrays["border"]], dtype=jnp.float64)
    if kind == "statio":
        loss = LossPDEStatio(u=u, dynamic_loss=dyn, loss_weights=LossWeightsPDEStatio(**weights), obs_slice=obs_slice,
                             params=params, **kw)
        batch = PDEStatioBatch(inside_batch=fl(arrays["inside"]), border_batch=border, param_batch_dict=pbd,
                               obs_batch_dict=obs_dict)
        return loss, params, batch
    if case.get("ic"):
        c = case["ic"]
        terms = [pterms(js) for js in c["u0"]]
        ret = c.get("ret", "vec")

        def u0fun(x):
            if case.get("spinn"):
                # a SPINN hands `_get_grid(omega_batch)`, shape (n, ..., n, d): evaluate on the last axis
                zs = [jnp.zeros(x.shape[:-1], dtype=x.dtype)] + [x[..., j] for j in range(x.shape[-1])] \
                     + [jnp.asarray(theta, dtype=x.dtype)]
                vs = []
                for tt in terms:
                    tot = jnp.zeros(x.shape[:-1], dtype=x.dtype)
                    for coef, e in tt:
                        t_ = jnp.ones(x.shape[:-1], dtype=x.dtype) * coef
                        for j, k in enumerate(e):
                            for _ in range(k):
                                t_ = t_ * zs[j]
                        tot = tot + t_
                    vs.append(tot)
                return vs[0] if ret == "scalar" else jnp.stack(vs, axis=-1)
            z = jnp.concatenate([jnp.zeros((1,), dtype=x.dtype), x, jnp.asarray([theta], dtype=x.dtype)])
            vs = [peval_jax(t, z) for t in terms]
            return vs[0] if ret == "scalar" else jnp.stack(vs)

        kw["initial_condition_fun"] = u0fun
        weights["initial_condition"] = _w_jax(c["w"])
    loss = LossPDENonStatio(u=u, dynamic_loss=dyn, loss_weights=LossWeightsPDENonStatio(**weights),
                            obs_slice=obs_slice, params=params, **kw)
    batch = PDENonStatioBatch(times_x_inside_batch=fl(arrays["inside"]), times_x_border_batch=border,
                              param_batch_dict=pbd, obs_batch_dict=obs_dict)
    return loss, params, batch


def evaluate(case, arrays=None):
    """runs the real `loss.evaluate`; {'total': q, 'terms': {k: q}} or {'error': kind}"""
    import numpy as np

    try:
        loss, params, batch = build(case, arrays)
        total, terms = loss.evaluate(params, batch)
        out = {"total": q(np.asarray(total).item()), "terms": {k: q(np.asarray(v).item()) for k, v in terms.items()}}
        if not all(np.isfinite(float(Fr(v))) for v in [out["total"], *out["terms"].values()]):
            return {"error": "non_finite"}
        return out
    except Exception as e:  # a rejection by jinns is an observation
        return {"error": core.err_kind(e), "msg": str(e)[:300]}


# ----------------------------------------------------------------------------------------------
# exact tables for the Lean model
# ----------------------------------------------------------------------------------------------
def _uniq(rows):
    seen, out = set(), []
    for r in rows:
        t = tuple(r)
        if t not in seen:
            seen.add(t)
            out.append(list(r))
    return out


def facet_points(border, k):
    return [[c[k] for c in row] for row in border]


def lean_case(case, arrays):
    ex = Exact(case)
    kind, m = case["kind"], case["m"]
    inside = arrays["inside"]
    spinn = bool(case.get("spinn"))

    def grid_of(rows):
        """tensor grid of the coordinate columns of `rows` (what a SPINN evaluates)"""
        if not spinn:
            return rows
        cols = [[r[j] for r in rows] for j in range(len(rows[0]))]
        return [list(p) for p in itertools.product(*cols)]

    out = {"kind": kind, "spinn": spinn, "d": case["d"], "inside": qmat(inside),
           "slice_solution": case.get("slice_solution"),
           "dyn": None, "ic": None, "norm": None, "boundary": None, "obs": None}
    if case.get("dyn"):
        out["dyn"] = {"w": case["dyn"]["w"],
                      "tab": [[qrow(r), qrow(ex.residual(case["dyn"]["eq"], r))] for r in _uniq(grid_of(inside))]}
    if case.get("ic"):
        c = case["ic"]
        if kind == "ode":
            u0 = [F(x) for x in c["u0"]]
            if len(u0) == 1:
                u0 = u0 * m
            out["ic"] = {"w": c["w"], "rows": [qrow(ex.uval([F(c["t0"])], **pr)) for pr in pb_rows(case)],
                         "u0": qrow(u0)}
        else:
            xs = _uniq(grid_of([r[1:] for r in inside]))
            u0tab = []
            for x in xs:
                v = ex.fn(c["u0"], [Fr(0)] + x)
                if len(v) == 1:
                    v = v * m
                u0tab.append([qrow(x), qrow(v)])
            prs = pb_rows(case)
            if case.get("pbatch"):
                # row i of the inside batch goes with row i of the parameter batch (spatial points distinct)
                row_of = {tuple(r[1:]): prs[i] for i, r in enumerate(inside)}
            else:
                row_of = {tuple(x): prs[0] for x in xs}
            out["ic"] = {"w": c["w"], "u0": u0tab,
                         "u_at_0": [[qrow(x), qrow(ex.uval([Fr(0)] + x, **row_of[tuple(x)]))] for x in xs]}
    if case.get("norm"):
        c = case["norm"]
        samples = [[F(x) for x in s] for s in c["samples"]]
        gs = _uniq(grid_of(samples))
        if kind == "statio":
            tab = [[qrow(s), qrow(ex.uval(s))] for s in gs]
        else:
            ts = _uniq([r[:1] for r in inside])
            tab = [[qrow(t + s), qrow(ex.uval(t + s))] for t in ts for s in gs]
        out["norm"] = {"w": c["w"], "L": c["L"], "samples": qmat(samples), "tab": tab}
    if case.get("boundary"):
        c = case["boundary"]
        border = arrays["border"]
        nF = len(border[0][0])
        grid = bool(case.get("spinn"))

        def eval_points(k):
            rows = facet_points(border, k)
            if not grid:
                return rows
            cols = [[r[j] for r in rows] for j in range(len(rows[0]))]
            return [list(p) for p in itertools.product(*cols)]

        pts_all = _uniq([p for k in range(nF) for p in eval_points(k)])
        sp = 1 if kind == "nonstatio" else 0
        # parameter batch: border row i is evaluated with row i of every batched key (the tables are keyed by the
        # point: the generator keeps the points of different rows distinct)
        kw_of = {}
        if case.get("pbatch") and not grid:
            prs = pb_rows(case)
            if len(prs) != len(border):
                raise ValueError("harness: parameter batch and border batch sizes differ")
            for i, row in enumerate(border):
                for k in range(nF):
                    pt = tuple(cc[k] for cc in row)
                    if kw_of.setdefault(pt, prs[i]) != prs[i]:
                        raise ValueError("harness: the same border point in two rows of a parameter batch")
        facets = []
        for k, fc in enumerate(c["facets"]):
            if fc is None:
                facets.append(None)
                continue
            pts = pts_all if c["global"] else _uniq(eval_points(k)) if k < nF else []
            dim = fc["dim"]
            if isinstance(dim, int):
                dim = [dim, dim + 1]
            facets.append({"cond": fc["cond"], "dim": dim, "fret": "scalar" if fc["fret"] == "scalar" else "vec",
                           "ftab": [[qrow(p), qrow(ex.fn(fc["f"], p))] for p in pts]})
        out["boundary"] = {
            "w": c["w"], "global": c["global"], "facets": facets, "grid": grid,
            "border": [[qrow(cc) for cc in row] for row in border],
            "utab": [[qrow(p), qrow(ex.uval(p, **kw_of.get(tuple(p), {})))] for p in pts_all],
            "jtab": [[qrow(p), [qrow(row[sp:]) for row in ex.jac(p, **kw_of.get(tuple(p), {}))]] for p in pts_all],
        }
    if case.get("obs"):
        o, ao = case["obs"], arrays["obs"]
        ins = ao["ins"]
        n = len(ins)
        caller = ([["kappa", q(ex.kappa)]] if ex.kappa is not None else []) + [["theta", q(ex.theta)]]
        keys = [k for k, _ in caller]
        observed, pbatch = [], []
        if ao["thetas"] is not None:
            observed.append(["theta", qrow(ao["thetas"])])
        if ao.get("kappas") is not None:
            observed.append(["kappa", qrow(ao["kappas"])])
        for k, col in (case.get("pbatch") or {}).items():
            pbatch.append([k, qrow([F(x) for x in col])])
        od, pd = dict((k, [F(x) for x in c]) for k, c in observed), dict((k, [F(x) for x in c]) for k, c in pbatch)
        base = {"theta": ex.theta, "kappa": ex.kappa}
        utab = []
        for i in range(n):
            # every value each key could take for row i (caller / generated row i / observed row i):
            # the model chooses among them
            cands = {k: _uniq([[base[k]]] + ([[pd[k][i]]] if k in pd else []) + ([[od[k][i]]] if k in od else []))
                     for k in keys}
            for combo in itertools.product(*[[c[0] for c in cands[k]] for k in keys]):
                vals_ = dict(zip(keys, combo))
                utab.append([i, [[k, q(vals_[k])] for k in keys],
                             qrow(ex.uval(ins[i], vals_["theta"], vals_.get("kappa")))])
        out["obs"] = {"w": o["w"], "obs_slice": o.get("obs_slice"), "caller": caller, "observed": observed,
                      "pbatch": pbatch, "n": n, "vals": qmat(ao["vals"]), "utab": utab}
    return out


def pb_rows(case):
    """keyword arguments (theta=, kappa=) of `Exact.uval` for each row of the parameter batch
    (a single empty dict when there is none: the caller's values)"""
    pb = case.get("pbatch")
    if not pb:
        return [{}]
    n = len(next(iter(pb.values())))
    return [{k: F(col[i]) for k, col in pb.items()} for i in range(n)]


def obs_row_kwargs(case, arrays, i):
    """parameters seen by observation row i: observed row i, else generated row i, else the caller's value"""
    ao = arrays["obs"]
    kw = dict(pb_rows(case)[i]) if case.get("pbatch") else {}
    if ao["thetas"] is not None:
        kw["theta"] = ao["thetas"][i]
    if ao.get("kappas") is not None:
        kw["kappa"] = ao["kappas"][i]
    return kw


def sol_slice(case):
    s = case.get("slice_solution")
    return (0, case["m"]) if s is None else (s[0], min(s[1], case["m"]))


def is_pow2(n):
    return n >= 1 and (n & (n - 1)) == 0


def divisors_exact(case, arrays):
    """True when every mean of the case is over a power-of-two number of rows"""
    ns = [len(arrays["inside"])]
    if case.get("spinn") and case.get("norm"):
        ns.append(case["m"])  # a SPINN averages over all its output components
    if case.get("norm"):
        ns.append(len(case["norm"]["samples"]) * (sol_slice(case)[1] - sol_slice(case)[0]))
        ns.append(len(arrays["inside"]))
    if case.get("boundary") and arrays["border"] is not None:
        ns.append(len(arrays["border"]))  # (a SPINN averages over rows ** coordinates: a power of two as well)
    if case.get("obs"):
        ns.append(len(arrays["obs"]["ins"]))
    return all(is_pow2(n) for n in ns)


def tol_of(case, arrays, values):
    if divisors_exact(case, arrays):
        return Fr(0)
    mx = max([Fr(1)] + [abs(F(v)) for v in values])
    return mx * Fr(1, 2 ** 50)


# ----------------------------------------------------------------------------------------------
# generators of case pieces (shared)
# ----------------------------------------------------------------------------------------------
def half(rng, lo=-2, hi=2):
    return Fr(rng.randint(2 * lo, 2 * hi), 2)


def nz_int(rng, c=3):
    v = 0
    while v == 0:
        v = rng.randint(-c, c)
    return v


def gen_u(rng, kind, d, m, theta_dep=True, maxdeg=2, nterms=4):
    n = {"ode": 1, "statio": d, "nonstatio": 1 + d}[kind] + 1
    polys = []
    for _ in range(m):
        p = random_poly(rng, n, maxdeg, nterms, cmax=2)
        # make sure every input matters, with a non-zero second derivative somewhere, and theta enters
        j = rng.randrange(n - 1)
        p = p + P.var(n, j) * P.var(n, j) * nz_int(rng, 2) + sum((P.var(n, i) * nz_int(rng, 2) for i in range(n - 1)),
                                                                 P(n))
        if theta_dep:
            p = p + P.var(n, n - 1) * P.var(n, rng.randrange(n - 1)) * nz_int(rng, 2)
        polys.append(p)
    return [p.to_json() for p in polys]


def gen_eq(rng, case, ncomp):
    nz = nz_of(case)
    n_in, m = n_in_of(case), case["m"]
    out = []
    for _ in range(ncomp):
        p = random_poly(rng, nz, 2, 3, cmax=2)
        # always involve u, one derivative and one input
        p = p + P.var(nz, n_in + rng.randrange(m)) * nz_int(rng, 2) \
              + P.var(nz, n_in + m + rng.randrange(m * n_in)) * nz_int(rng, 2) + P.var(nz, rng.randrange(n_in))
        out.append(p.to_json())
    return out


def gen_weight(rng, ncomp, allow_vec=True):
    if allow_vec and rng.random() < 0.5:
        return {"vec": [q(Fr(rng.randint(1, 6), 2)) for _ in range(ncomp)]}
    w = {"scalar": q(Fr(rng.randint(1, 6), 2))}
    if rng.random() < 0.4:
        w["as"] = "array0d"
    return w


def gen_inside(rng, kind, d, n, distinct=True):
    n_in = {"ode": 1, "statio": d, "nonstatio": 1 + d}[kind]
    rows, seen, tries = [], set(), 0
    while len(rows) < n:
        r = [half(rng) for _ in range(n_in)]
        if kind != "statio":
            r[0] = Fr(rng.randint(0, 6), 2)
        tries += 1
        if distinct and tuple(r) in seen and tries < 20 * n:
            continue
        seen.add(tuple(r))
        rows.append(r)
    return rows


def gen_border(rng, kind, d, nb, nt=1, lo=-1, hi=2):
    """hand-built border batch with the layout of the real generators: (rows, coords, facets)"""
    if d == 1:
        dx = [[[Fr(lo), Fr(hi)]]]
    else:
        dx = []
        for _ in range(nb):
            ys = [half(rng, lo, hi) for _ in range(4)]
            dx.append([[Fr(lo), Fr(hi), ys[2], ys[3]], [ys[0], ys[1], Fr(lo), Fr(hi)]])
    if kind == "statio":
        return dx
    ts = [Fr(rng.randint(0, 6), 2) for _ in range(nt)]
    nF = 2 * d
    return [[[t] * nF] + row for t in ts for row in dx]


def gen_spinn(rng, kind, d, m, R=2, deg=2):
    """coefficients (D, R*m, deg+1) of the polynomial feature maps of a separable network, and its pointwise
    twin  u_c(z) = sum_r prod_k f_{k, c R + r}(z_k)  as polynomials in (inputs, theta) (theta unused)"""
    D = {"statio": d, "nonstatio": 1 + d}[kind]
    coef = [[[rng.randint(-2, 2) for _ in range(deg + 1)] for _ in range(R * m)] for _ in range(D)]
    for k in range(D):
        for row in coef[k]:
            if row[1] == 0 and row[2] == 0:
                row[rng.choice([1, 2])] = nz_int(rng, 2)
    nv = D + 1
    polys = []
    for c in range(m):
        tot = P(nv)
        for r in range(R):
            pr = P.const(nv, 1)
            for k in range(D):
                fk = P(nv)
                zk = P.const(nv, 1)
                for e in range(deg + 1):
                    fk = fk + zk * coef[k][c * R + r][e]
                    zk = zk * P.var(nv, k)
                pr = pr * fk
            tot = tot + pr
        polys.append(tot)
    return {"R": R, "deg": deg, "coef": coef}, [p.to_json() for p in polys]


def gen_boundary(rng, case, allow_dict=True):
    """a boundary configuration for `case` (needs case['u'], kind, d, m, theta)"""
    ex = Exact(case)
    kind, d, m = case["kind"], case["d"], case["m"]
    n_in = n_in_of(case)
    nF = 2 * d
    sp = 1 if kind == "nonstatio" else 0
    nv = n_in + 1

    def facet(k, cond=None):
        cond = cond or rng.choice(["dirichlet", "neumann"])
        if cond == "neumann" or m == 1 or rng.random() < 0.6:
            c0 = rng.randrange(m)
            dim = c0 if rng.random() < 0.5 else [c0, c0 + 1]
            lo_, hi_ = c0, c0 + 1
        else:
            dim = rng.choice([None, [0, m]])
            lo_, hi_ = 0, m
        if m == 1 and rng.random() < 0.3:
            dim = None
        mode = rng.choice(["poly", "poly", "match", "neg"])
        if mode == "poly" or k is None:
            fs = [random_poly(rng, nv, 2, 3, cmax=2) + nz_int(rng, 3) for _ in range(hi_ - lo_)]
        else:
            # f = D u on this facet (term exactly 0) or its negation
            j, sgn = k // 2, (-1 if k % 2 == 0 else 1)
            fs = [(ex.du[c][sp + j] * sgn if cond == "neumann" else ex.u[c]) for c in range(lo_, hi_)]
            if mode == "neg":
                fs = [-p for p in fs]
        if len(fs) > 1 and rng.random() < 0.3 and not case.get("spinn"):
            fs = fs[:1]  # a single function broadcast over the selected components
        fret = "vec"
        if len(fs) == 1 and rng.random() < 0.5:
            fret = "scalar"
        out = {"cond": cond, "dim": dim, "f": [p.to_json() for p in fs], "fret": fret, "mode": mode}
        if rng.random() < 0.15:
            out["cond_str"] = {"dirichlet": "Dirichlet", "neumann": rng.choice(["vonneumann", "Von Neumann"])}[cond]
        return out

    w = q(Fr(rng.randint(1, 6), 2))
    if allow_dict and rng.random() < 0.6:
        facets = [None if rng.random() < 0.3 else facet(k) for k in range(nF)]
        if all(f is None for f in facets):
            facets[rng.randrange(nF)] = facet(0)
        out = {"w": w, "global": False, "facets": facets}
        if rng.random() < 0.6:
            order = list(range(nF))
            while order == sorted(order):
                rng.shuffle(order)
            out["key_order"] = order
        return out
    return {"w": w, "global": True, "facets": [facet(None)]}


def gen_obs(rng, case, n, with_theta=None):
    kind, m = case["kind"], case["m"]
    n_in = n_in_of(case)
    lo, hi = sol_slice(case)
    k = hi - lo
    obs_slice = None
    width = k
    if k > 1 and rng.random() < 0.6:
        a = rng.randrange(k)
        obs_slice = [a, a + 1]
        width = 1
    elif rng.random() < 0.3:
        obs_slice = [0, k]
    ins = gen_inside(rng, kind, case["d"], n)
    vals = [[Fr(rng.randint(-6, 6)) for _ in range(width)] for _ in range(n)]
    o = {"w": gen_weight(rng, width), "obs_slice": obs_slice, "ins": qmat(ins), "vals": qmat(vals),
         "observed_theta": None}
    if with_theta or (with_theta is None and rng.random() < 0.5):
        ths = rng.sample([Fr(x, 2) for x in range(-6, 7) if Fr(x, 2) != F(case["theta"])], min(n, 12))
        while len(ths) < n:
            ths.append(rng.choice(ths))
        o["observed_theta"] = qrow(ths)
        o["theta_1d"] = rng.random() < 0.3
    if width == 1 and rng.random() < 0.3:
        o["vals_1d"] = True
    if kind == "ode" and rng.random() < 0.3:
        o["ins_1d"] = True
    return o


def gen_norm(rng, case, ns):
    d = case["d"]
    samples, tries = [], 0
    while len(samples) < ns:
        s = [half(rng) for _ in range(d)]
        tries += 1
        if s not in samples or tries > 20 * ns:
            samples.append(s)
    return {"w": q(Fr(rng.randint(1, 6), 2)), "L": q(Fr(rng.choice([1, 2, 3, 4, 6, 8]), rng.choice([1, 2, 4]))),
            "samples": qmat(samples)}


def gen_ic(rng, case):
    kind, m, d = case["kind"], case["m"], case["d"]
    if kind == "ode":
        u0 = [Fr(rng.randint(-4, 4)) for _ in range(m)]
        c = {"w": q(Fr(rng.randint(1, 6), 2)), "t0": q(Fr(rng.randint(0, 4), 2)), "u0": qrow(u0)}
        if m == 1 and rng.random() < 0.4:
            c["u0_scalar"] = True
        return c
    nv = 1 + d + 1
    # u0 is a function of x only: drop every monomial involving t (variable 0) or theta (last)
    fs = []
    for _ in range(m):
        p = random_poly(rng, nv, 2, 4, cmax=2)
        p = P(nv, {e: v for e, v in p.c.items() if e[0] == 0 and e[-1] == 0}) + P.var(nv, 1) * nz_int(rng, 2) + nz_int(rng, 3)
        fs.append(p)
    ret = "vec"
    if rng.random() < 0.3:
        fs, ret = fs[:1], rng.choice(["scalar", "vec"])
    return {"w": gen_weight(rng, m), "u0": [p.to_json() for p in fs], "ret": ret}


def base_case(rng, kind, d, m, n, source="hand"):
    case = {"kind": kind, "d": d if kind != "ode" else 0, "m": m, "theta": q(Fr(rng.choice([-3, -1, 1, 3, 4]), 2)),
            "slice_solution": None, "dyn": None, "ic": None, "norm": None, "boundary": None, "obs": None}
    case["u"] = gen_u(rng, kind, case["d"], m)
    case["batch"] = {"source": "hand", "inside": qmat(gen_inside(rng, kind, case["d"], n)), "border": None}
    return case


def gen_batch_spec(rng, case, n, nbb=2, nt=2):
    """a batch drawn from the real generators (snapped to halves in `make_arrays`)"""
    kind, d = case["kind"], case["d"]
    b = {"source": "gen", "seed": rng.randrange(1 << 30), "n": n, "tmax": 3,
         "min": [-1] * max(d, 1), "max": [2] * max(d, 1)}
    if kind == "statio":
        b.update(nb=2 if d == 1 else 4 * nbb, nbb=1 if d == 1 else nbb)
    elif kind == "nonstatio":
        cart = rng.random() < 0.5
        if cart:
            b.update(nb=2 if d == 1 else 4 * nbb, nbb=1 if d == 1 else nbb, nt=nt, cartesian=True)
            b["n"] = max(1, n // nt)
        else:
            # paired (t_i, x_i): the three batch sizes must agree (1-D borders are always a product)
            b.update(nb=2 if d == 1 else 4 * n, nbb=1 if d == 1 else n, nt=n, cartesian=False)
    return b


# ----------------------------------------------------------------------------------------------
# C03 proper
# ----------------------------------------------------------------------------------------------
KEYS = {"ode": ["dyn_loss", "initial_condition", "observations"],
        "statio": ["dyn_loss", "norm_loss", "boundary_loss", "observations", "initial_condition"],
        "nonstatio": ["dyn_loss", "norm_loss", "boundary_loss", "observations", "initial_condition"]}
TERM_OF = {"dyn": "dyn_loss", "ic": "initial_condition", "norm": "norm_loss", "boundary": "boundary_loss",
           "obs": "observations"}


def gen_case(rng, kind, d, m, n, ncomp, subset, source="hand", wvec=None):
    case = base_case(rng, kind, d, m, n)
    d = case["d"]
    if "dyn" in subset:
        case["dyn"] = {"eq": gen_eq(rng, case, ncomp),
                       "w": gen_weight(rng, ncomp, allow_vec=True) if wvec is None else
                       ({"vec": [q(Fr(rng.randint(1, 6), 2)) for _ in range(ncomp)]} if wvec
                        else {"scalar": q(Fr(rng.randint(1, 6), 2))})}
        w2 = gen_weight(rng, ncomp, allow_vec=False)
        if "vec" in case["dyn"]["w"]:
            w2 = {"vec": [q(Fr(rng.randint(1, 6), 2)) for _ in range(ncomp)]}
        case["variants"] = {"scale": q(Fr(rng.choice([-3, -1, 1, 3, 5, 6]), 2)), "w2": w2,
                            "perm": rng.sample(range(n), n), "reweight": rng.choice(["fresh", "tree_at"])}
    if "ic" in subset and kind != "statio":
        case["ic"] = gen_ic(rng, case)
    if "norm" in subset and kind != "ode":
        case["norm"] = gen_norm(rng, case, rng.choice([2, 4]))
    if "boundary" in subset and kind != "ode":
        case["boundary"] = gen_boundary(rng, case)
        if source == "hand":
            case["batch"]["border"] = [[qrow(c) for c in row] for row in
                                       gen_border(rng, kind, d, 2, nt=rng.choice([1, 2]))]
    if "obs" in subset:
        case["obs"] = gen_obs(rng, case, rng.choice([2, 4]))
    if source == "gen":
        case["batch"] = gen_batch_spec(rng, case, n)
        if not case.get("boundary") and kind != "ode":
            case["batch"]["nbb"] = None
            case["batch"]["nb"] = None
        if case.get("variants"):
            pass
    return case


def gen_cases(rng, tier):
    cases = []
    kinds = [("ode", 0), ("statio", 1), ("statio", 2), ("nonstatio", 1), ("nonstatio", 2)]
    all_terms = {"ode": ["dyn", "ic", "obs"], "statio": ["dyn", "norm", "boundary", "obs"],
                 "nonstatio": ["dyn", "norm", "boundary", "obs", "ic"]}
    reps = 2 if tier == "quick" else 14
    for kind, d in kinds:
        terms = all_terms[kind]
        for r in range(reps):
            # every subset size is hit: full, dyn only, without dyn, random subsets
            subsets = [set(terms), {"dyn"}, set(terms) - {"dyn"}, set()]
            for _ in range(2 if tier == "quick" else 4):
                subsets.append({t for t in terms if rng.random() < 0.5} | ({"dyn"} if rng.random() < 0.7 else set()))
            for sub in subsets:
                n = rng.choice([1, 2, 4, 4, 8, 8, 16] if rng.random() < 0.85 else [3, 5, 6, 7, 12])
                if tier == "quick" and d == 2 and n > 8:
                    n = 8
                m = rng.choice([1, 1, 2])
                ncomp = rng.choice([1, 2, 3])
                source = "gen" if rng.random() < 0.3 else "hand"
                cases.append(gen_case(rng, kind, d, m, n, ncomp, sub, source))
    # separable networks (SPINN branch of `dynamic_loss_apply`): the residual is evaluated on the tensor grid of
    # the coordinate columns of the batch and the term is the mean over that grid
    for _ in range(1 if tier == "quick" else 6):
        for kind, d in (("statio", 1), ("statio", 2), ("nonstatio", 1), ("nonstatio", 2)):
            D = d + (1 if kind == "nonstatio" else 0)
            for n in ((rng.choice([1, 2]), 4 if D <= 2 else 2) if tier == "quick" else (1, 2, 4 if D <= 2 else 2)):
                m, ncomp = rng.choice([1, 2]), rng.choice([1, 2, 3])
                case = gen_case(rng, kind, d, m, n, ncomp, {"dyn"})
                case["spinn"], case["u"] = gen_spinn(rng, kind, d, m, R=rng.choice([1, 2]))
                cases.append(case)
    if tier == "thorough":
        # every subset of configured terms, once per kind
        for kind, d in kinds:
            terms = all_terms[kind]
            for k in range(len(terms) + 1):
                for sub in itertools.combinations(terms, k):
                    cases.append(gen_case(rng, kind, d, rng.choice([1, 2]), rng.choice([2, 4, 8]), rng.choice([1, 2, 3]),
                                          set(sub)))
    return cases


def with_inside(case, arrays, rows):
    a = dict(arrays)
    a["inside"] = rows
    return a


def run_impl(case):
    arrays = make_arrays(case)
    base = evaluate(case, arrays)
    obs = {"base": base}
    if "error" in base:
        obs["req"] = None
        return obs
    n = len(arrays["inside"])
    dyn_obs = None
    values = [base["total"], *base["terms"].values()]
    if case.get("dyn"):
        v = case["variants"]
        ex = Exact(case)

        def dyn_of(c2, arr=None):
            r = evaluate(c2, arr or arrays)
            if "error" in r:
                raise RuntimeError("variant rejected: " + str(r))
            return r["terms"]["dyn_loss"]

        def with_w(w):
            c2 = dict(case)
            c2["dyn"] = {**case["dyn"], "w": w}
            return c2

        def dyn_of_w(w):
            """the dynamic term under another weight: a freshly constructed loss, or (reweight = tree_at) the
            SAME loss object whose weight leaf is replaced with `eqx.tree_at` after construction -- a loss that
            caches anything derived from its weights at construction time answers with the stale weight"""
            if v.get("reweight") != "tree_at":
                return dyn_of(with_w(w))
            import equinox as eqx
            import numpy as np

            loss, params, batch = build(case, arrays)
            old = loss.loss_weights.dyn_loss
            neww = _w_jax(w)
            if hasattr(old, "shape") and not hasattr(neww, "shape"):
                import jax.numpy as jnp
                neww = jnp.full(old.shape, neww)
            loss2 = eqx.tree_at(lambda l: l.loss_weights.dyn_loss, loss, neww)
            _, terms = loss2.evaluate(params, batch)
            return q(np.asarray(terms["dyn_loss"]).item())

        dyn_of_w_ = dyn_of_w
        scaled = dyn_of_w_(W_mul(v["scale"], case["dyn"]["w"]))
        w2 = v["w2"]
        if "vec" in case["dyn"]["w"] and "scalar" in w2:
            w2 = {"vec": [w2["scalar"]] * len(case["dyn"]["w"]["vec"])}
        with_w2 = dyn_of_w_(w2)
        with_sum = dyn_of_w_(W_add(case["dyn"]["w"], w2))
        perm = v["perm"] if sorted(v["perm"]) == list(range(n)) else list(reversed(range(n)))
        permuted = dyn_of(case, with_inside(case, arrays, [arrays["inside"][i] for i in perm]))
        halves = None
        if n % 2 == 0 and n >= 2 and not case.get("spinn"):  # (the grid of a half batch is not half of the grid)
            halves = [dyn_of(case, with_inside(case, arrays, arrays["inside"][: n // 2])),
                      dyn_of(case, with_inside(case, arrays, arrays["inside"][n // 2:]))]
        res_rows = arrays["inside"]
        if case.get("spinn"):
            cols = [[r[j] for r in res_rows] for j in range(len(res_rows[0]))]
            res_rows = [list(pt) for pt in itertools.product(*cols)]
        dyn_obs = {"w": case["dyn"]["w"], "residuals": [qrow(ex.residual(case["dyn"]["eq"], r)) for r in res_rows],
                   "scale": v["scale"], "scaled": scaled, "w2": w2, "with_w2": with_w2, "with_sum": with_sum,
                   "permuted": permuted, "halves": halves}
        values += [scaled, with_w2, with_sum, permuted] + (halves or [])
    tol = tol_of(case, arrays, values)
    if not is_pow2(n // 2) and n >= 2 and tol == 0 and case.get("dyn"):
        tol = max([Fr(1)] + [abs(F(x)) for x in values]) * Fr(1, 2 ** 50)
    configured = [TERM_OF[k] for k in ("dyn", "ic", "norm", "boundary", "obs") if case.get(k)]
    obs["req"] = {"op": "c03", "case": lean_case(case, arrays),
                  "obs": {"keys": KEYS[case["kind"]], "total": base["total"],
                          "terms": [[k, v] for k, v in base["terms"].items()], "configured": configured,
                          "tol": q(tol), "dyn_obs": dyn_obs}}
    obs["tol"] = q(tol)
    obs["n"] = n
    return obs


def lean_request(case, obs):
    return obs["req"]


def compare_model(obs, answer, keys=None):
    """implementation vs model on (total, terms): None if they agree, else a description"""
    base, tol = obs["base"], F(obs["tol"])
    if answer.get("model_rejected"):
        return "model-rejects-implementation-accepts"
    if abs(F(base["total"]) - F(answer["model_total"])) > 2 * tol:
        return f"total: impl {base['total']} model {answer['model_total']}"
    for k, v in answer["model_terms"].items():
        if keys is not None and k not in keys:
            continue
        if k not in base["terms"] or abs(F(base["terms"][k]) - F(v)) > tol:
            return f"{k}: impl {base['terms'].get(k)} model {v}"
    return None


def judge(case, obs, answer):
    if "error" in obs["base"]:
        # no generated C03 case is meant to be rejected
        return {"status": "violation", "clause": "evaluate-raised:" + obs["base"]["error"],
                "detail": obs["base"].get("msg")}
    if not answer["holds"]:
        return {"status": "violation", "clause": answer["clause"]}
    d = compare_model(obs, answer)
    if d:
        return {"status": "disagree", "clause": "model-differs", "detail": d}
    return {"status": "ok", "clause": None}


def nontrivial(case, obs):
    if "error" in obs["base"]:
        return False
    terms = obs["base"]["terms"]
    if sum(1 for v in terms.values() if F(v) != 0) >= 2:
        return True
    if not case.get("dyn") or F(terms["dyn_loss"]) == 0:
        return False
    req = obs["req"]["obs"]["dyn_obs"]
    w = req["w"]
    rows = []
    for r in req["residuals"]:
        ws = [F(w["scalar"])] * len(r) if "scalar" in w else [F(x) for x in w["vec"]]
        rows.append(sum(a * F(x) ** 2 for a, x in zip(ws, r)))
    return len(set(rows)) > 1


def tags(case, obs):
    out = [f"kind={case['kind']}", f"d={case['d']}", f"m={case['m']}", f"batch={case['batch']['source']}"]
    out.append("configured=" + "+".join(k for k in ("dyn", "ic", "norm", "boundary", "obs") if case.get(k)) or "none")
    if "error" in obs["base"]:
        out.append("error=" + obs["base"]["error"])
        return out
    out.append(f"n={obs['n']}")
    if case.get("dyn"):
        out.append(f"ncomp={len(case['dyn']['eq'])}")
        out.append("weight=" + (("scalar0d" if case["dyn"]["w"].get("as") else "scalar") if "scalar" in case["dyn"]["w"] else "vec"))
    out.append("ulp_rule" if F(obs["tol"]) != 0 else "exact")
    if case.get("spinn"):
        out.append("network=spinn")
    if case.get("variants"):
        out.append("reweight=" + case["variants"].get("reweight", "fresh"))
    return out


def shrink_candidates(case):
    for k in ("obs", "boundary", "norm", "ic"):
        if case.get(k):
            c = dict(case)
            c[k] = None
            yield c
    b = case["batch"]
    if b["source"] == "hand" and len(b["inside"]) > 1:
        n = len(b["inside"])
        for nn in sorted({n // 2, n - 1}):
            if nn >= 1:
                c = dict(case)
                c["batch"] = {**b, "inside": b["inside"][:nn]}
                if c.get("variants"):
                    c["variants"] = {**c["variants"], "perm": list(reversed(range(nn)))}
                yield c
    if case.get("dyn") and len(case["dyn"]["eq"]) > 1:
        c = dict(case)
        k = len(case["dyn"]["eq"]) - 1
        w = case["dyn"]["w"]
        c["dyn"] = {"eq": case["dyn"]["eq"][:k], "w": w if "scalar" in w else {"vec": w["vec"][:k]}}
        w2 = case["variants"]["w2"]
        c["variants"] = {**case["variants"], "w2": w2 if "scalar" in w2 else {"vec": w2["vec"][:k]}}
        yield c


def widen(rng, bad_cases):
    out = []
    for c in bad_cases[:3]:
        for n in (1, 2, 3, 4, 8):
            for ncomp in (1, 2, 3):
                out.append(gen_case(rng, c["kind"], c["d"], c["m"], n, ncomp,
                                    {k for k in ("dyn", "ic", "norm", "boundary", "obs") if c.get(k)} | {"dyn"}))
    return out
