"""
C12 — per-sample and heterogeneous equation parameters are aligned.

Correspondence: real `append_param_batch` / `append_obs_batch`, real `LossODE`, `LossPDEStatio`,
`LossPDENonStatio`, `SystemLossODE`, `SystemLossPDE` around real `PINN`s whose network is an exact integer
polynomial of (t, x, one slot per equation parameter) -- the slot of a key is a fixed integer combination of
the entries of its value, read through `input_transform`, so the network reads every parameter; the user
`equation` is an exact polynomial of (t, x, slots, u, du) and reads every parameter too.  The harness builds,
independently of jinns and with exact rational polynomials (`polynet.P`), the composite per-sample
functions `f(point, params)`; the Lean model (`JinnsModel/ParamBatch.lean`, `SystemLoss.lean`) decides which
parameters each sample sees and aggregates; `Holds.C12` is evaluated on the implementation's own terms.

This module also hosts the problem builder shared with C13 and C20 (system losses, weights, single losses).
"""
from __future__ import annotations

import itertools
import random
from fractions import Fraction

from harness.polynet import P

PROP = "C12"
LEVEL_TEXT = ("Lean 4 theorems, for every caller dictionary, set of batched keys, batch, observed-parameter batch, "
              "heterogeneity declaration and all user functions (universally quantified): the code-shaped pipeline "
              "(_update_eq_params_dict, the vmap in-axes tree, vmap's per-index selection) hands sample i exactly "
              "`override p rows i` = row i of every batched key and the caller's value of all others; override changes "
              "exactly the batched keys; observed keys are layered on top for the observation term; the heterogeneity "
              "step changes exactly the declared keys, inside the equation only, and is the identity without "
              "declaration; the model's evaluate of the three single losses and of both system losses equals the "
              "closed form written with these specification functions (Holds.C12 is true of the model), including the "
              "non-stationary normalisation term (time sample i sees row i for all normalisation samples) and the "
              "routing of the dynamic term's gradient (into row i from sample i only, gated by the key's derivative "
              "key; nothing into the caller's value of a batched key).  The model "
              "is tied to /repo on every run by exact differential execution of the real losses on batches built "
              "with the real append_param_batch / append_obs_batch (every subset of <= 3 keys batched, shapes (), "
              "(1,), (k,), polynomial networks and equations reading every parameter), and Holds.C12 is evaluated on "
              "the implementation's own terms.")
LEVEL_NOTE = ("Trusted: Lean kernel + {propext, Classical.choice, Quot.sound}; the hand-written model's tie to the "
              "code is differential (sees the generated scopes: K <= 3 keys, B in {1,2,4}, dims <= 2, polynomial "
              "user functions); jax.vmap / jax AD / equinox tree_at are modelled (List.map over the batch axis with an "
              "in-axes tree), not verified.  Derivative routing is covered as far as values go (stop_gradient is the "
              "identity on values); for the dynamic term the gradient itself is checked: jax.grad with respect to the "
              "rows of the batch and to the caller's parameters, under random derivative keys, equals the model's "
              "routed per-sample tangents exactly (JAX AD enters as a tangent oracle: the harness' exact polynomial "
              "derivative); other terms' gradients are C06's subject.  Not covered: SPINN / HYPERPINN networks, non-power-of-two batch sizes (kept out so that float64 means are "
              "exact).")
TECHNIQUE = ("Lean 4 proof (refinement: code-shaped vmap pipeline = specification `override`; frame lemmas; closed "
             "forms) + exact differential correspondence on polynomial networks")
THEOREMS = [
    "Jinns.ParamBatch.get?_override",
    "Jinns.ParamBatch.override_unbatched",
    "Jinns.ParamBatch.override_batched",
    "Jinns.ParamBatch.override_keys",
    "Jinns.ParamBatch.override_nil",
    "Jinns.ParamBatch.override_caller_irrelevant",
    "Jinns.ParamBatch.updateEq_rejects",
    "Jinns.ParamBatch.select_stackTree",
    "Jinns.ParamBatch.select_none",
    "Jinns.ParamBatch.select_stackTree_obs",
    "Jinns.ParamBatch.vmapTerm_getElem?",
    "Jinns.ParamBatch.evalHetero_none",
    "Jinns.ParamBatch.evalHetero_declared",
    "Jinns.ParamBatch.evalHetero_undeclared",
    "Jinns.ParamBatch.evalHetero_keys",
    "Jinns.ParamBatch.evalHetero_all_none",
    "Jinns.ParamBatch.heteroWrap_none",
    "Jinns.Holds.evalSingle_spec",
    "Jinns.Holds.holdsC12_model",
    "Jinns.Holds.evalSingle_accepts",
    "Jinns.Holds.dynGradRow_spec",
    "Jinns.Holds.dynGradCaller_spec",
    "Jinns.Holds.specGrad_masked",
    "Jinns.Holds.specGradCaller_batched",
    "Jinns.Holds.sysDyn_spec",
    "Jinns.Holds.consSum_spec",
    "Jinns.Holds.sysEvaluate_spec",
    "Jinns.Holds.holdsC12Sys_model",
]
LEAN_MODULES = ["JinnsProofs.C12", "JinnsProofs.C13"]
RULE = ("cases = (loss kind, dims, keys with shapes, batched subset, B, observed keys, heterogeneity declaration, "
        "configured terms, seed); observable = (total, terms) of the real evaluate, exactly, plus the same call with "
        "the caller's values of the batched keys perturbed; non-trivial = at least one key is batched or observed or "
        "declared heterogeneous, the batch has >= 2 distinct rows, and the observed terms are not all zero; "
        "distinct = distinct case dicts")
ASSUMPTIONS = [
    "float64 arithmetic on the generated inputs (half-integers, integer polynomials of degree <= 4, batch sizes "
    "1, 2, 4) is exact, so implementation and model are compared by equality",
    "jax.vmap with an in-axes tree maps axis 0 of the leaves marked 0 and broadcasts the others; jax AD of a "
    "polynomial is its derivative (modelled, validated by the correspondence)",
    "the harness-side composition of networks, derivatives and residual polynomials (polynet.P) is the meaning of "
    "the user functions handed to jinns",
]
EXHAUSTIVE = {"quick": False, "thorough": False}

KEY_POOL = ["nu", "a", "nu_a"]   # (names contained in one another: keys must be matched exactly, never as substrings)
READER_LEN = 4
TERM_NAMES = ["dyn_loss", "initial_condition", "boundary_loss", "norm_loss", "observations"]


# ------------------------------------------------------------------------------------------------
# exact helpers
# ------------------------------------------------------------------------------------------------
def q(x):
    f = Fraction(x)
    return str(f.numerator) if f.denominator == 1 else f"{f.numerator}/{f.denominator}"


def half(rng, lo=-2, hi=2):
    return Fraction(rng.randint(2 * lo, 2 * hi), 2)


def nz_int(rng, m=3):
    v = 0
    while v == 0:
        v = rng.randint(-m, m)
    return v


def compose(poly, subs, n_out):
    """poly (in len(subs) variables) with variable j replaced by subs[j] (P in n_out variables)"""
    out = P(n_out)
    for e, c in poly.c.items():
        t = P.const(n_out, c)
        for j, k in enumerate(e):
            for _ in range(k):
                t = t * subs[j]
        out = out + t
    return out


def rand_poly(rng, n, deg, nterms, must=(), cmax=2):
    """random integer polynomial in n variables (total degree <= deg) containing every variable of `must`"""
    c = {}
    for _ in range(nterms):
        e = [0] * n
        for _ in range(rng.randint(0, deg)):
            if n:
                e[rng.randrange(n)] += 1
        c[tuple(e)] = nz_int(rng, cmax)
    for j in must:
        if not any(e[j] > 0 for e in c):
            e = [0] * n
            e[j] = 1
            if deg >= 2 and rng.random() < 0.5:
                e[rng.randrange(n)] += 1
            c[tuple(e)] = nz_int(rng, cmax)
    return P(n, c)


# ------------------------------------------------------------------------------------------------
# problem builder (deterministic in the case): exact objects only
# ------------------------------------------------------------------------------------------------
def d_in_of(kind, d):
    base = kind.replace("sys_", "")
    return {"ode": 1, "statio": d, "nonstatio": 1 + d}[base]


def build(case):
    """all exact data of a case (Fractions / P); shared by run_impl (worker) and lean_request (parent)"""
    rng = random.Random(case["seed"])
    kind = case["kind"]
    base = kind.replace("sys_", "")
    issys = kind.startswith("sys_")
    d = case.get("d", 1) if base != "ode" else 0
    din = d_in_of(kind, d)
    m = case.get("m", 1)
    keys = case["keys"]
    K = len(keys)
    B = case["B"]
    pr = {"kind": kind, "base": base, "issys": issys, "d": d, "din": din, "m": m, "K": K, "B": B,
          "routing": case.get("routing")}

    # caller's parameters, readers
    params, readers = [], {}
    for kd in keys:
        size = 1 if kd["shape"] in ("()", "(1,)") else kd["k"]
        params.append((kd["name"], [half(rng) for _ in range(size)]))
        readers[kd["name"]] = [nz_int(rng, 2) for _ in range(READER_LEN)]
    pr["params"], pr["readers"] = params, readers
    # perturbed caller's values for the batched keys (metamorphic clause)
    pr["params_alt"] = [(k, [x + 1 + i for i, x in enumerate(v)]) for k, v in params]

    # points
    def pts(n, width):
        rows = []
        while len(rows) < n:
            r = [half(rng) for _ in range(width)]
            if r not in rows or width == 0:
                rows.append(r)
        return rows

    pr["pts"] = pts(B, din)

    # parameter batch
    batched = case.get("batched")
    if batched is None:
        pr["param_rows"] = None
    else:
        rows = []
        for name in batched:
            nrows = B
            if case.get("malformed") == "size_mismatch" and name == batched[0]:
                nrows = B + 1
            col = rng.sample([Fraction(x, 2) for x in range(-4, 5)], nrows)
            # a vector-valued key is batched by rows of its own width (row i is a whole (k,) value)
            width = next((kd["k"] for kd in keys if kd["name"] == name and kd["shape"] == "(k,)"), 1)
            rows.append((name, [[x] + [half(rng) for _ in range(width - 1)] for x in col]))
        if case.get("malformed") == "unknown_key":
            rows.append(("zz", [[half(rng)] for _ in range(B)]))
        pr["param_rows"] = rows

    unknowns = [f"u{i}" for i in range(case.get("U", 1))] if issys else ["u"]
    eqs = [f"e{i}" for i in range(case.get("E", 1))] if issys else ["e"]
    if issys and case.get("same_names"):
        eqs = unknowns[: len(eqs)] + [f"e{i}" for i in range(len(unknowns), len(eqs))]
    pr["unknowns"], pr["eqs"] = unknowns, eqs
    U = len(unknowns)
    slot_vars = list(range(din, din + K))

    # networks: m polynomials in (coords, slots), every slot read
    pr["nets"] = {}
    for u in unknowns:
        pr["nets"][u] = [rand_poly(rng, din + K, 2, 3, must=slot_vars if c == 0 else ()) for c in range(m)]

    # residuals: polynomials in ext = (coords, slots, [u (m), du (m*din)] per unknown)
    next_ = din + K + U * (m + m * din)
    pr["next"] = next_
    terms = case.get("terms", {})
    pr["residuals"] = {}
    pr["het"] = {}
    for e in eqs:
        if not terms.get("dyn", True):
            pr["residuals"][e] = None
            continue
        mr = rng.choice([1, 2]) if m == 2 else 1
        comps = []
        for c in range(mr):
            must = list(slot_vars) if c == 0 else []
            # every unknown's value and one derivative appear
            for ui in range(U):
                b0 = din + K + ui * (m + m * din)
                must.append(b0 + rng.randrange(m))
                must.append(b0 + m + rng.randrange(m * din))
            poly = rand_poly(rng, next_, 2, 3, must=must)
            # asymmetric in the coordinates: t and x enter with different coefficients
            for j in range(din):
                ej = [0] * next_
                ej[j] = 1
                poly = poly + P(next_, {tuple(ej): j + 2})
            comps.append(poly)
        pr["residuals"][e] = comps
        hd = case.get("het")
        if hd is None:
            pr["het"][e] = None
        else:
            h = []
            for name, what in hd.items():
                if what == "none":
                    h.append((name, None))
                else:
                    size = 1
                    for kd in keys:
                        if kd["name"] == name and kd["shape"] == "(k,)" and what == "fn_same":
                            size = kd["k"]
                    h.append((name, [rand_poly(rng, din + K, 1, 2, must=[0] + ([slot_vars[-1]] if K else []), cmax=1)
                                     for _ in range(size)]))
            pr["het"][e] = h

    # per-unknown constraint data (`per_unknown` overrides `terms` for one unknown of a system);
    # the border batch belongs to the batch: it is shared by all unknowns
    pr["cons"] = {}
    pu = case.get("per_unknown") or {}
    border = None
    if base != "ode":
        border = [[[half(rng) for _ in range(2 * d)] for _ in range(din)] for _ in range(B)]
    pr["border"] = border
    for u in unknowns:
        cd = {}
        terms = {**case.get("terms", {}), **pu.get(u, {})}
        if base == "ode":
            cd["ic"] = ([half(rng)], [Fraction(rng.randint(-2, 2)) for _ in range(m)]) if terms.get("ic") else None
        elif base == "nonstatio":
            cd["ic"] = [rand_poly(rng, d, 2, 2) for _ in range(m)] if terms.get("ic") else None
        else:
            cd["ic"] = None
        if base != "ode" and terms.get("boundary"):
            # `bdim`: the component the condition applies to (omega_boundary_dim), None = all components
            bdim = terms.get("bdim") if m > 1 else None
            fold = [rand_poly(rng, din, 1, 2) for _ in range(m)]
            comps = list(range(m)) if bdim is None else [bdim]
            bc = terms.get("bc", "dirichlet")
            if bc != "dirichlet" and m > 1 and bdim is None:
                bdim, comps = 0, [0]          # a Neumann condition applies to one component
            nfac = 2 * d
            if bc == "dirichlet":
                facets = [{"cond": "dirichlet", "f": [fold[c] for c in comps]}] * nfac
            elif bc == "neumann":
                facets = [{"cond": "neumann", "f": [rand_poly(rng, din, 1, 2)]}] * nfac
            else:
                # per-facet dictionaries: each facet its own condition (or none) and its own function
                conds = [rng.choice(["dirichlet", "neumann", None]) for _ in range(nfac)]
                conds[rng.randrange(nfac)] = "neumann"
                facets = [{"cond": c, "f": None if c is None else
                           [rand_poly(rng, din, 1, 2) for _ in range(len(comps) if c == "dirichlet" else 1)]}
                          for c in conds]
            cd["boundary"] = {"border": border, "dim": bdim, "facets": facets, "per_facet": bc == "per_facet"}
        else:
            cd["boundary"] = None
        if base == "statio" and terms.get("norm"):
            cd["norm"] = {"samples": pts(B, d), "L": Fraction(rng.choice([1, 2, 4]), rng.choice([1, 2]))}
        else:
            cd["norm"] = None
        if base == "nonstatio" and terms.get("norm"):
            # non-stationary normalisation: its own number of samples (a power of two), the times of the batch
            cd["norm_ns"] = {"samples": pts(rng.choice([1, 2, 4]), d),
                             "L": Fraction(rng.choice([1, 2, 4]), rng.choice([1, 2]))}
        else:
            cd["norm_ns"] = None
        ob = case.get("obs")
        # per-unknown obs_slice specification (jnp.s_[k:k+1]); it exists whether or not u has observations
        sl = None
        if ob is not None and m > 1:
            sl = (ob.get("slices") or {}).get(u, 0 if ob.get("slice") else None)
        cd["obs_slice"] = sl
        if ob is not None and (not issys or u in ob.get("unknowns", unknowns)):
            mo = 1 if sl is not None else m
            orows = []
            for name in ob.get("eq_keys", []):
                col = rng.sample([Fraction(x, 2) for x in range(-4, 5)], B)
                orows.append((name, [[x] for x in col]))
            cd["obs"] = {"pin": pts(B, din), "val": [[Fraction(rng.randint(-3, 3)) for _ in range(mo)] for _ in range(B)],
                         "rows": orows, "slice": sl}
        else:
            cd["obs"] = None
        pr["cons"][u] = cd

    # weights
    if issys:
        pr["wspec"] = case["weights"]
    else:
        names = {"ode": ["dyn_loss", "initial_condition", "observations"],
                 "statio": ["dyn_loss", "norm_loss", "boundary_loss", "observations"],
                 "nonstatio": ["dyn_loss", "norm_loss", "boundary_loss", "observations", "initial_condition"]}[base]
        pr["weights"] = {n: Fraction(rng.choice([1, 2, 3, 4, 1]), rng.choice([1, 2])) for n in names}
    if case.get("wvariant"):
        # the same problem with other weights (C20: a second loss object interleaved with the first)
        def bump(v):
            if v is None or v == "vector" or (isinstance(v, dict) and "dict_vector" in v):
                return v
            if isinstance(v, dict):
                return {"dict": {k: q(Fraction(x) + 1) for k, x in v["dict"].items()}}
            return q(Fraction(v) + 1)
        if issys:
            pr["wspec"] = {k: bump(v) for k, v in pr["wspec"].items()}
        else:
            pr["weights"] = {k: v + 1 for k, v in pr["weights"].items()}
    return pr


# ------------------------------------------------------------------------------------------------
# exact composite functions  f(point, slots)  as polynomial vectors (for the Lean driver)
# ------------------------------------------------------------------------------------------------
def _lift_net(pr, u, L):
    """network polynomials of unknown u re-expressed over (point of length L >= din, slots)"""
    din, K = pr["din"], pr["K"]
    n = L + K
    subs = [P.var(n, j) for j in range(din)] + [P.var(n, L + j) for j in range(K)]
    return [compose(p, subs, n) for p in pr["nets"][u]]


def residual_fn(pr, e):
    """composite residual of equation e over (coords, slots)"""
    din, K, m = pr["din"], pr["K"], pr["m"]
    n = din + K
    subs = [P.var(n, j) for j in range(n)]
    for u in pr["unknowns"]:
        ups = pr["nets"][u]
        subs += ups
        for c in range(m):
            for j in range(din):
                subs.append(ups[c].d(j))
    return [compose(r, subs, n) for r in pr["residuals"][e]]


def exact_ok(pr):
    """Generator-side guard: a rigorous bound on |residual| (absolute coefficients at the largest absolute
    values of the variables, heterogeneity maps composed in) must keep every float64 intermediate of the real
    code exact: bound^2 * 2^(2*degree + 4) < 2^52 (all inputs are half-integers)."""
    din, K = pr["din"], pr["K"]
    n = din + K
    names = [k for k, _ in pr["params"]]
    cmax = max([abs(x) for r in pr["pts"] for x in r] + [Fraction(1)])
    smax = []
    alt = dict(pr["params_alt"])
    for k, v in pr["params"]:
        rd = pr["readers"][k]
        vals = [abs(sum(Fraction(c) * x for c, x in zip(rd, v))), abs(sum(Fraction(c) * x for c, x in zip(rd, alt[k])))]
        for rows in [pr["param_rows"] or []]:
            for kk, rs in rows:
                if kk == k:
                    vals += [abs(rd[0] * r[0]) for r in rs]
        smax.append(max(vals + [Fraction(1)]))
    maxv = [cmax] * din + smax
    for e in pr["eqs"]:
        if pr["residuals"][e] is None:
            continue
        comp = residual_fn(pr, e)
        h = pr["het"][e]
        if h is not None:
            subs = [P.var(n, j) for j in range(n)]
            for k, polys in h:
                if polys is None or k not in names:
                    continue
                j = names.index(k)
                rd = pr["readers"][k]
                acc = P(n)
                for i, hp in enumerate(polys):
                    acc = acc + hp * rd[i]
                subs[din + j] = acc
            comp = [compose(c, subs, n) for c in comp]
        for c in comp:
            bound, deg = Fraction(0), 0
            for ex, co in c.c.items():
                t = abs(co)
                for x, kk in zip(maxv, ex):
                    t *= x ** kk
                bound += t
                deg = max(deg, sum(ex))
            if bound * bound * (4 ** deg) * 16 >= 2 ** 52:
                return False
            if pr.get("routing"):
                for j in range(K):
                    dc = c.d(din + j)
                    db = Fraction(0)
                    for ex, co in dc.c.items():
                        t = abs(co)
                        for x, kk in zip(maxv, ex):
                            t *= x ** kk
                        db += t
                    if 2 * bound * db * 2 * (4 ** deg) * 16 >= 2 ** 52:
                        return False
    return True


def settle_seed(case):
    """the first seed >= case['seed'] whose problem passes the exactness guard"""
    c = dict(case)
    for _ in range(200):
        if exact_ok(build(c)):
            return c
        c["seed"] += 1
    raise RuntimeError("no exact instance found for " + repr(case))


def single_json(pr, u, weights, with_dyn, param_rows_json, unit=False):
    """the `single` object of the Lean protocol for unknown u (weights: dict term -> Fraction)"""
    din, K, m, B, base = pr["din"], pr["K"], pr["m"], pr["B"], pr["base"]
    cd = pr["cons"][u]
    one = Fraction(1)
    w = (lambda name: one) if unit else (lambda name: weights.get(name, one))

    def pv(polys):
        return [p.to_json() for p in polys]

    s = {"param_rows": param_rows_json, "obs_rows": None, "het": None, "dyn": None, "ic_ode": None, "ic_pde": None,
         "boundary": [], "norm": None, "norm_ns": None, "obs": None}
    if with_dyn:
        e = pr["eqs"][0]
        if pr["residuals"][e] is not None:
            s["dyn"] = {"w": q(w("dyn_loss")), "xs": [[q(x) for x in r] for r in pr["pts"]], "f": pv(residual_fn(pr, e))}
            if pr["het"][e] is not None:
                s["het"] = [[k, None if h is None else pv(h)] for k, h in pr["het"][e]]
    if cd["ic"] is not None:
        if base == "ode":
            t0, u0 = cd["ic"]
            # point = (t0, u0...) ; f_c = u_c(t0, slots) - u0_c
            L = 1 + m
            net = _lift_net(pr, u, L)
            f = [net[c] - P.var(L + K, 1 + c) for c in range(m)]
            s["ic_ode"] = {"w": q(w("initial_condition")), "pt": [q(x) for x in t0 + u0], "f": pv(f)}
        else:
            # omega rows = x part of the collocation rows ; f_c = u0_c(x) - u_c(0, x, slots)
            d = pr["d"]
            n = d + K
            subs_net = [P.const(n, 0)] + [P.var(n, j) for j in range(d)] + [P.var(n, d + j) for j in range(K)]
            subs_u0 = [P.var(n, j) for j in range(d)]
            f = [compose(cd["ic"][c], subs_u0, n) - compose(pr["nets"][u][c], subs_net, n) for c in range(m)]
            s["ic_pde"] = {"w": q(w("initial_condition")), "xs": [[q(x) for x in r[1:]] for r in pr["pts"]], "f": pv(f)}
    if cd["boundary"] is not None:
        n = din + K
        subs_f = [P.var(n, j) for j in range(din)]
        comps = list(range(m)) if cd["boundary"]["dim"] is None else [cd["boundary"]["dim"]]
        d_ = pr["d"]
        off = din - d_                      # index of the first space coordinate
        # outward unit normals of the facets xmin, xmax[, ymin, ymax]
        normals = [[-1], [1]] if d_ == 1 else [[-1, 0], [1, 0], [0, -1], [0, 1]]
        for fa, spec in enumerate(cd["boundary"]["facets"]):
            if spec["cond"] is None:
                continue
            fpol = [compose(p, subs_f, n) for p in spec["f"]]
            if spec["cond"] == "dirichlet":
                f = [pr["nets"][u][c] - fpol[i] for i, c in enumerate(comps)]
            else:
                # Von Neumann: the outward normal derivative of the selected component
                c = comps[0]
                dn = P(n)
                for j in range(d_):
                    dn = dn + pr["nets"][u][c].d(off + j) * normals[fa][j]
                f = [dn - fpol[0]]
            xs = [[q(cd["boundary"]["border"][i][j][fa]) for j in range(din)] for i in range(B)]
            s["boundary"].append({"w": q(w("boundary_loss")), "xs": xs, "f": pv(f)})
    if cd["norm"] is not None:
        s["norm"] = {"w": q(w("norm_loss")), "L": q(cd["norm"]["L"]),
                     "xs": [[q(x) for x in r] for r in cd["norm"]["samples"]], "f": pv(pr["nets"][u])}
    if cd.get("norm_ns") is not None:
        s["norm_ns"] = {"w": q(w("norm_loss")), "L": q(cd["norm_ns"]["L"]),
                        "ts": [[q(r[0])] for r in pr["pts"]],
                        "xs": [[q(x) for x in r] for r in cd["norm_ns"]["samples"]], "f": pv(pr["nets"][u])}
    if cd["obs"] is not None:
        ob = cd["obs"]
        mo = len(ob["val"][0])
        L = din + mo
        net = _lift_net(pr, u, L)
        comps = list(range(mo)) if ob["slice"] is None else [ob["slice"]]
        f = [net[c] - P.var(L + K, din + i) for i, c in enumerate(comps)]
        s["obs"] = {"w": q(w("observations")), "xs": [[q(x) for x in a + b] for a, b in zip(ob["pin"], ob["val"])],
                    "f": pv(f)}
        s["obs_rows"] = [[k, [[q(x) for x in r] for r in rows]] for k, rows in ob["rows"]]
    return s


def rows_json(rows):
    return None if rows is None else [[k, [[q(x) for x in r] for r in rs]] for k, rs in rows]


def params_json(params):
    return [[k, [q(x) for x in v]] for k, v in params]


def readers_json(pr):
    return [[k, [q(x) for x in pr["readers"][k]]] for k, _ in pr["params"]]


def wspec_json(ws):
    """weights of a system case: term -> None | number(str) | {'dict': {key: str}} | 'vector' | {'dict_vector': [...]}"""
    out = {}
    for name, v in ws.items():
        if isinstance(v, dict) and "dict" in v:
            out[name] = {"dict": [[k, [x]] for k, x in v["dict"].items()]}
        else:
            out[name] = v
    return out


def sys_json(pr):
    prj = rows_json(pr["param_rows"])
    eqs = []
    for e in pr["eqs"]:
        if pr["residuals"][e] is None:
            continue
        h = pr["het"][e]
        eqs.append({"key": e, "het": None if h is None else [[k, None if hh is None else [p.to_json() for p in hh]]
                                                              for k, hh in h],
                    "f": [p.to_json() for p in residual_fn(pr, e)]})
    us = [{"key": u, "single": single_json(pr, u, {}, False, prj, unit=True)} for u in pr["unknowns"]]
    return {"param_rows": prj, "pts": [[q(x) for x in r] for r in pr["pts"]], "eqs": eqs, "unknowns": us,
            "weights": wspec_json(pr["wspec"])}


# ------------------------------------------------------------------------------------------------
# the real jinns objects
# ------------------------------------------------------------------------------------------------
def jpoly(poly, vec):
    """exact evaluation of a P on a jax vector (repeated multiplication)"""
    import jax.numpy as jnp

    tot = jnp.zeros((), dtype=vec.dtype)
    for e, c in sorted(poly.c.items()):
        t = jnp.asarray(float(c), dtype=vec.dtype)
        for j, k in enumerate(e):
            for _ in range(k):
                t = t * vec[j]
        tot = tot + t
    return tot


def make_slots(pr):
    import jax.numpy as jnp

    names = [k for k, _ in pr["params"]]
    readers = {k: [float(x) for x in pr["readers"][k]] for k in names}

    def slots(params):
        out = []
        for k in names:
            # component-indexed read along the FIRST axis (not a flattening one): a parameter that reaches the
            # equation / network with a spurious leading axis (e.g. a one-row batch left unmapped) changes the result
            v = jnp.atleast_1d(params.eq_params[k])
            acc = jnp.zeros((), dtype=v.dtype)
            for j in range(v.shape[0]):
                acc = acc + readers[k][j] * jnp.reshape(v[j], ())
            out.append(acc)
        if not out:
            return jnp.zeros((0,))
        return jnp.stack(out)

    return slots


def arr(x):
    import jax.numpy as jnp
    import numpy as np

    return jnp.asarray(np.array(x, dtype=object).astype(float))


def make_params_values(pr, keys, alt=False):
    import jax.numpy as jnp

    vals = {}
    src = pr["params_alt"] if alt else pr["params"]
    for kd, (name, v) in zip(keys, src):
        a = arr(v)
        vals[name] = a[0] if kd["shape"] == "()" else a
    return vals


def make_world(case, pr=None):
    """real jinns objects for a case: returns dict(loss, params, params_alt, batch, pieces...)"""
    import jax
    import jax.numpy as jnp
    from harness.polynet import make_pinn
    from jinns.data._Batchs import ODEBatch, PDENonStatioBatch, PDEStatioBatch
    from jinns.data._DataGenerators import append_obs_batch, append_param_batch
    from jinns.loss._DynamicLossAbstract import ODE, PDENonStatio, PDEStatio
    from jinns.loss._loss_weights import (LossWeightsODE, LossWeightsODEDict, LossWeightsPDEDict,
                                          LossWeightsPDENonStatio, LossWeightsPDEStatio)
    from jinns.loss._LossODE import LossODE, SystemLossODE
    from jinns.loss._LossPDE import LossPDENonStatio, LossPDEStatio, SystemLossPDE
    from jinns.parameters._params import Params, ParamsDict

    pr = pr or build(case)
    base, issys, din, K, m, d, B = pr["base"], pr["issys"], pr["din"], pr["K"], pr["m"], pr["d"], pr["B"]
    slots = make_slots(pr)
    eqtype = {"ode": "ODE", "statio": "statio_PDE", "nonstatio": "nonstatio_PDE"}[base]
    unknowns, eqs = pr["unknowns"], pr["eqs"]

    def it(i, params):
        return jnp.concatenate([i, slots(params)])

    nets = {u: make_pinn(pr["nets"][u], eqtype, input_transform=it) for u in unknowns}

    def make_eq(e, plain_for=None):
        """the user's dynamic loss of equation e; `plain_for=u`: the same equation written for a plain
        (non-system) loss on unknown u (one-equation one-unknown systems)"""
        as_sys = issys and plain_for is None
        comps = pr["residuals"][e]
        hetd = pr["het"][e]

        def het_fn(polys):
            def h(*args):
                params = args[-1]
                coords = jnp.concatenate([jnp.atleast_1d(a).ravel() for a in args[:-2]])
                vec = jnp.concatenate([coords, slots(params)])
                return jnp.stack([jpoly(p, vec) for p in polys])
            return h

        het = None if hetd is None else {k: (None if hh is None else het_fn(hh)) for k, hh in hetd}

        def resid(coords, udict, params, split):
            # (coords, slots, [u, du] per unknown): every parameter and every network is read
            parts = [coords, slots(params)]
            for u in unknowns:
                pk = params.extract_params(u) if as_sys else params
                fn = lambda z, u=u, pk=pk: udict[u](*split(z), pk)
                parts.append(fn(coords))
                parts.append(jax.jacfwd(fn)(coords).ravel())
            vec = jnp.concatenate(parts)
            return jnp.stack([jpoly(p, vec) for p in comps])

        if base == "ode":
            class Eq(ODE):
                def equation(self, t, u, params):
                    ud = u if as_sys else {(plain_for or "u"): u}
                    return resid(jnp.atleast_1d(t).ravel(), ud, params, lambda z: (z,))
        elif base == "statio":
            class Eq(PDEStatio):
                def equation(self, x, u, params):
                    ud = u if as_sys else {(plain_for or "u"): u}
                    return resid(x, ud, params, lambda z: (z,))
        else:
            class Eq(PDENonStatio):
                def equation(self, t, x, u, params):
                    ud = u if as_sys else {(plain_for or "u"): u}
                    return resid(jnp.concatenate([t, x]), ud, params, lambda z: (z[0:1], z[1:]))
        return Eq(Tmax=1, eq_params_heterogeneity=het)

    keys = case["keys"]
    eqp = make_params_values(pr, keys)
    eqp_alt = make_params_values(pr, keys, alt=True)
    # only the batched keys are perturbed
    batched = set(case.get("batched") or [])
    eqp_alt = {k: (eqp_alt[k] if k in batched else eqp[k]) for k in eqp}
    if issys:
        nn = {u: nets[u].init_params() for u in unknowns}
        params = ParamsDict(nn_params=nn, eq_params=eqp)
        params_alt = ParamsDict(nn_params=nn, eq_params=eqp_alt)
    else:
        params = Params(nn_params=nets["u"].init_params(), eq_params=eqp)
        params_alt = Params(nn_params=nets["u"].init_params(), eq_params=eqp_alt)

    # batch
    P_ = arr(pr["pts"])
    border = arr(pr["border"]) if pr["border"] is not None else None
    if base == "ode":
        batch = ODEBatch(temporal_batch=P_[:, 0])
    elif base == "statio":
        batch = PDEStatioBatch(inside_batch=P_, border_batch=border)
    else:
        batch = PDENonStatioBatch(times_x_inside_batch=P_, times_x_border_batch=border)
    if pr["param_rows"] is not None:
        batch = append_param_batch(batch, {k: arr(rs) for k, rs in pr["param_rows"]})

    def obs_dict(u):
        ob = pr["cons"][u]["obs"]
        if ob is None:
            return None
        return {"pinn_in": arr(ob["pin"]), "val": arr(ob["val"]), "eq_params": {k: arr(rs) for k, rs in ob["rows"]}}

    if issys:
        od = {u: obs_dict(u) for u in unknowns}
        if any(v is not None for v in od.values()):
            batch = append_obs_batch(batch, od)
    else:
        if obs_dict("u") is not None:
            batch = append_obs_batch(batch, obs_dict("u"))

    # constraint specifications per unknown
    def cons_kwargs(u):
        cd = pr["cons"][u]
        kw = {}
        if base == "ode":
            if cd["ic"] is not None:
                t0, u0 = cd["ic"]
                kw["initial_condition"] = (float(t0[0]), [float(x) for x in u0])
            else:
                kw["initial_condition"] = None
        else:
            if cd["boundary"] is not None:
                def bfun(fpol):
                    if base == "statio":
                        return lambda dx, fpol=fpol: jnp.stack([jpoly(p, dx) for p in fpol])
                    return lambda t, dx, fpol=fpol: jnp.stack([jpoly(p, jnp.concatenate([t, dx])) for p in fpol])

                cname = {"dirichlet": "dirichlet", "neumann": "von neumann", None: None}
                bd = cd["boundary"]
                if not bd["per_facet"]:
                    kw["omega_boundary_fun"] = bfun(bd["facets"][0]["f"])
                    kw["omega_boundary_condition"] = cname[bd["facets"][0]["cond"]]
                    kw["omega_boundary_dim"] = bd["dim"]
                else:
                    fnames = ["xmin", "xmax", "ymin", "ymax"][: 2 * d]
                    kw["omega_boundary_fun"] = {nm: (None if sp["cond"] is None else bfun(sp["f"]))
                                                for nm, sp in zip(fnames, bd["facets"])}
                    kw["omega_boundary_condition"] = {nm: cname[sp["cond"]] for nm, sp in zip(fnames, bd["facets"])}
                    kw["omega_boundary_dim"] = None if bd["dim"] is None else {nm: bd["dim"] for nm in fnames}
            else:
                kw["omega_boundary_fun"] = None
                kw["omega_boundary_condition"] = None
                kw["omega_boundary_dim"] = None
            nm = cd["norm"] if cd["norm"] is not None else cd.get("norm_ns")
            if nm is not None:
                kw["norm_samples"] = arr(nm["samples"])
                kw["norm_int_length"] = float(nm["L"])
            else:
                kw["norm_samples"] = None
                kw["norm_int_length"] = None
            if base == "nonstatio":
                if cd["ic"] is not None:
                    icp = cd["ic"]
                    kw["initial_condition_fun"] = lambda x, icp=icp: jnp.stack([jpoly(p, x) for p in icp])
                else:
                    kw["initial_condition_fun"] = None
        sl = cd["obs_slice"]
        kw["obs_slice"] = jnp.s_[sl:sl + 1] if sl is not None else None
        return kw

    world = {"pr": pr, "params": params, "params_alt": params_alt, "batch": batch, "nets": nets,
             "make_eq": make_eq, "cons_kwargs": cons_kwargs, "obs_dict": obs_dict, "eq_params": eqp}

    def single_loss(u, dyn, weights):
        """a real single loss on unknown u (weights: dict term -> float), with its params and batch"""
        kw = cons_kwargs(u)
        pu = Params(nn_params=nets[u].init_params(), eq_params=eqp)
        if base == "ode":
            w = {k: weights.get(k, 1.0) for k in ("dyn_loss", "initial_condition", "observations")}
            L = LossODE(u=nets[u], dynamic_loss=dyn, loss_weights=LossWeightsODE(**w), params=pu, **kw)
        elif base == "statio":
            w = {k: weights.get(k, 1.0) for k in ("dyn_loss", "norm_loss", "boundary_loss", "observations")}
            L = LossPDEStatio(u=nets[u], dynamic_loss=dyn, loss_weights=LossWeightsPDEStatio(**w), params=pu, **kw)
        else:
            w = {k: weights.get(k, 1.0) for k in ("dyn_loss", "norm_loss", "boundary_loss", "observations",
                                                  "initial_condition")}
            L = LossPDENonStatio(u=nets[u], dynamic_loss=dyn, loss_weights=LossWeightsPDENonStatio(**w),
                                 params=pu, **kw)
        bu = batch
        if issys:
            import dataclasses
            fields = {f.name: getattr(batch, f.name) for f in dataclasses.fields(batch)}
            fields["obs_batch_dict"] = obs_dict(u)
            bu = type(batch)(**fields)
        return L, pu, bu

    world["single_loss"] = single_loss

    def fl(x):
        return float(x)

    if not issys:
        e = eqs[0]
        dyn = make_eq(e) if pr["residuals"][e] is not None else None
        w = {k: fl(v) for k, v in pr["weights"].items()}
        kw = cons_kwargs("u")
        if case.get("routing"):
            # derivative keys of the dynamic term: nn_params and the equation parameters selected by the mask
            from jinns.parameters._derivative_keys import (DerivativeKeysODE, DerivativeKeysPDENonStatio,
                                                           DerivativeKeysPDEStatio)
            DK = {"ode": DerivativeKeysODE, "statio": DerivativeKeysPDEStatio,
                  "nonstatio": DerivativeKeysPDENonStatio}[base]
            mask = Params(nn_params=True, eq_params={k: bool(case["routing"].get(k, False)) for k in eqp})
            kw["derivative_keys"] = DK(dyn_loss=mask, params=params)
        if base == "ode":
            loss = LossODE(u=nets["u"], dynamic_loss=dyn, loss_weights=LossWeightsODE(**w), params=params, **kw)
        elif base == "statio":
            loss = LossPDEStatio(u=nets["u"], dynamic_loss=dyn, loss_weights=LossWeightsPDEStatio(**w),
                                 params=params, **kw)
        else:
            loss = LossPDENonStatio(u=nets["u"], dynamic_loss=dyn, loss_weights=LossWeightsPDENonStatio(**w),
                                    params=params, **kw)
        world["loss"] = loss
    else:
        world["make_system"] = lambda: make_system(case, world)
    return world


def jinns_weight(v, vector_len=2, as_array=False):
    """protocol weight spec -> the python object handed to LossWeights*Dict (`as_array`: every scalar weight held
    in a 0-d array -- the same number, the form a weight takes once the loss has crossed a jit boundary)"""
    import jax.numpy as jnp

    num = (lambda x: jnp.asarray(float(Fraction(x)))) if as_array else (lambda x: float(Fraction(x)))
    if v is None:
        return None
    if v == "vector":
        return jnp.ones((vector_len,))
    if isinstance(v, dict) and "dict" in v:
        return {k: num(x) for k, x in v["dict"].items()}
    if isinstance(v, dict) and "dict_vector" in v:
        return {k: jnp.ones((vector_len,)) for k in v["dict_vector"]}
    return num(v)


def make_system(case, world):
    from jinns.loss._loss_weights import LossWeightsODEDict, LossWeightsPDEDict
    from jinns.loss._LossODE import SystemLossODE
    from jinns.loss._LossPDE import SystemLossPDE

    pr = world["pr"]
    base, unknowns, eqs = pr["base"], pr["unknowns"], pr["eqs"]
    # the user's dictionaries in the user's own (possibly non-sorted) key order
    eqs = [eqs[i] for i in case.get("eq_order", range(len(eqs)))]
    unknowns = [unknowns[i] for i in case.get("u_order", range(len(unknowns)))]
    nets = {u: world["nets"][u] for u in unknowns}
    import random as _random

    def shuffled(d, salt):
        """the same dictionary in its own insertion order (every per-unknown dictionary of the user is written
        independently: entries must be matched by key, never by position)"""
        ks = list(d)
        _random.Random(int(case.get("seed", 0)) * 31 + salt).shuffle(ks)
        return {k: d[k] for k in ks}

    dyn = {e: world["make_eq"](e) for e in eqs if pr["residuals"][e] is not None}
    kws = {u: world["cons_kwargs"](u) for u in unknowns}
    ws = {k: jinns_weight(v, as_array=bool(case.get("w0d"))) for k, v in pr["wspec"].items()}
    obs_slice = {u: (kws[u]["obs_slice"] if kws[u]["obs_slice"] is not None else Ellipsis) for u in unknowns}
    if base == "ode":
        return SystemLossODE(
            u_dict=nets, dynamic_loss_dict=dyn,
            initial_condition_dict=shuffled({u: kws[u]["initial_condition"] for u in unknowns}, 1),
            obs_slice_dict=shuffled(obs_slice, 2),
            loss_weights=LossWeightsODEDict(**ws), params_dict=world["params"])
    kw = dict(
        u_dict=nets, dynamic_loss_dict=dyn,
        omega_boundary_fun_dict=shuffled({u: kws[u]["omega_boundary_fun"] for u in unknowns}, 3),
        omega_boundary_condition_dict=shuffled({u: kws[u]["omega_boundary_condition"] for u in unknowns}, 4),
        omega_boundary_dim_dict=shuffled({u: kws[u]["omega_boundary_dim"] for u in unknowns}, 5),
        norm_samples_dict=shuffled({u: kws[u]["norm_samples"] for u in unknowns}, 6),
        norm_int_length_dict=shuffled({u: kws[u]["norm_int_length"] for u in unknowns}, 7),
        obs_slice_dict=shuffled(obs_slice, 2),
        loss_weights=LossWeightsPDEDict(**ws), params_dict=world["params"])
    if base == "nonstatio":
        kw["initial_condition_fun_dict"] = shuffled({u: kws[u]["initial_condition_fun"] for u in unknowns}, 8)
    return SystemLossPDE(**kw)


def outcome_of(fn):
    """run fn() -> (total, terms) and turn it into the protocol outcome"""
    from harness import core

    try:
        total, terms = fn()
    except Exception as e:  # the implementation rejected the input
        return {"error": core.err_kind(e), "msg": str(e)[:200]}
    return {"terms": {k: core.qstr(v) for k, v in terms.items()}, "total": core.qstr(total)}


# ------------------------------------------------------------------------------------------------
# the check
# ------------------------------------------------------------------------------------------------
def _key_sets(rng, tier):
    shapes = ["()", "(1,)", "(k,)"]
    out = []
    for K in (1, 2, 3):
        reps = 2 if tier == "quick" else 14
        for _ in range(reps):
            ks = []
            for name in KEY_POOL[:K]:
                sh = rng.choice(shapes)
                ks.append({"name": name, "shape": sh, "k": rng.choice([2, 3])})
            out.append(ks)
    return out


def _subsets(names):
    return [list(c) for r in range(len(names) + 1) for c in itertools.combinations(names, r)]


def gen_cases(rng, tier):
    cases = []
    quick = tier == "quick"

    def add(**kw):
        kw.setdefault("seed", rng.randrange(1 << 30))
        cases.append(settle_seed(kw))

    singles = ["ode", "statio", "nonstatio"]
    # (1) every subset of the keys batched, for every loss kind
    for keys in _key_sets(rng, tier):
        names = [k["name"] for k in keys]
        for sub in [None] + _subsets(names):
            kinds = singles + ["sys_ode", "sys_statio" if rng.random() < 0.5 else "sys_nonstatio"]
            if quick:
                kinds = rng.sample(singles, 2) + [rng.choice(["sys_ode", "sys_statio", "sys_nonstatio"])]
            for kind in kinds:
                base = kind.replace("sys_", "")
                B = rng.choice([1, 2, 4])      # (a parameter batch of exactly one row is a batch too)
                terms = {"dyn": True, "ic": base != "statio", "boundary": base != "ode" and rng.random() < 0.6,
                         "norm": base != "ode" and rng.random() < 0.6}
                obs = None
                if rng.random() < 0.5:
                    obs = {"eq_keys": rng.sample(names, rng.randint(0, len(names))), "slice": False}
                het = None
                if rng.random() < 0.4:
                    het = {}
                    for n in names:
                        r = rng.random()
                        if r < 0.5:
                            het[n] = rng.choice(["fn", "fn_same"])
                        elif r < 0.7:
                            het[n] = "none"
                    if rng.random() < 0.3:
                        het["zz"] = "fn"
                if terms["boundary"]:
                    # Dirichlet / Von Neumann, one specification for all facets or per-facet dictionaries; the
                    # border batch has as many rows as the parameter batch
                    terms["bc"] = rng.choice(["dirichlet", "neumann", "neumann", "per_facet", "per_facet"])
                    terms["bdim"] = rng.choice([None, 0, 1])
                c = dict(kind=kind, d=rng.choice([1, 2]), m=rng.choice([1, 2]), keys=keys, batched=sub, B=B,
                         obs=obs, het=het, terms=terms, malformed=None)
                if het is None and not kind.startswith("sys_") and rng.random() < 0.6:
                    # derivative routing of the dynamic term: a random mask over the equation parameters
                    c["routing"] = {n: rng.random() < 0.6 for n in names}
                if base != "ode" and terms["boundary"] and sub:
                    c["d"] = rng.choice([1, 2])
                if kind.startswith("sys_"):
                    c["E"], c["U"] = rng.choice([1, 2]), rng.choice([1, 2])
                    c["weights"] = {"dyn_loss": q(half(rng, 0, 2) + 1), "initial_condition": q(half(rng, 0, 2) + 1),
                                    "observations": q(half(rng, 0, 2) + 1)}
                    if base != "ode":
                        c["weights"]["boundary_loss"] = q(half(rng, 0, 2) + 1)
                        c["weights"]["norm_loss"] = q(half(rng, 0, 2) + 1)
                    if obs is not None and c["U"] == 2 and rng.random() < 0.5:
                        obs["unknowns"] = ["u0"]
                add(**c)
    # (1b) in every run: a parameter batch of exactly ONE row for a vector-valued key (a one-row batch is a batch:
    # row 0, not the (1, k) table, reaches the network and the equation), next to an unbatched scalar key
    for kind in singles:
        base = kind
        keys = [{"name": "nu", "shape": "(k,)", "k": 2}, {"name": "a", "shape": "()", "k": 2}]
        add(kind=kind, d=1, m=1, keys=keys, batched=["nu"], B=1, obs=None, het=None, malformed=None,
            terms={"dyn": True, "ic": base != "statio", "boundary": False, "norm": False})
    # (2) malformed batches: a key the caller does not have; rows of different lengths
    for kind in (singles if not quick else rng.sample(singles, 2)) + ["sys_ode"]:
        for mal in ("unknown_key", "size_mismatch"):
            keys = [{"name": "nu", "shape": "()", "k": 2}, {"name": "a", "shape": "(1,)", "k": 2}]
            c = dict(kind=kind, d=1, m=1, keys=keys, batched=["nu"], B=2, obs=None, het=None,
                     terms={"dyn": True, "ic": False, "boundary": False, "norm": False}, malformed=mal)
            if kind.startswith("sys_"):
                c["E"], c["U"] = 1, 1
                c["weights"] = {"dyn_loss": "1", "initial_condition": "1", "observations": "1"}
            add(**c)
    return cases


def _shrink(case):
    c = dict(case)
    if case.get("het"):
        yield {**c, "het": None}
    if case.get("routing"):
        yield {k: v for k, v in c.items() if k != "routing"}
    if case.get("obs"):
        yield {**c, "obs": None}
    for t in ("boundary", "norm", "ic"):
        if case["terms"].get(t):
            yield {**c, "terms": {**case["terms"], t: False}}
    if case.get("m", 1) > 1:
        yield {**c, "m": 1}
    if case.get("d", 1) > 1:
        yield {**c, "d": 1}
    if case["B"] > 2:
        yield {**c, "B": 2}
    if case.get("U", 1) > 1:
        yield {**c, "U": 1}
    if case.get("E", 1) > 1:
        yield {**c, "E": 1}
    if len(case["keys"]) > 1:
        for i in range(len(case["keys"])):
            ks = case["keys"][:i] + case["keys"][i + 1:]
            names = {k["name"] for k in ks}
            cc = {**c, "keys": ks}
            if cc.get("batched") is not None:
                cc["batched"] = [n for n in cc["batched"] if n in names]
            if cc.get("obs"):
                cc["obs"] = {**cc["obs"], "eq_keys": [n for n in cc["obs"]["eq_keys"] if n in names]}
            if cc.get("het"):
                cc["het"] = {n: v for n, v in cc["het"].items() if n in names or n == "zz"}
            if cc.get("routing"):
                cc["routing"] = {n: v for n, v in cc["routing"].items() if n in names}
            yield cc


def shrink_candidates(case):
    for cand in _shrink(case):
        yield settle_seed(cand)


def run_impl(case):
    world = make_world(case)
    if world["pr"]["issys"]:
        try:
            loss = world["make_system"]()
        except Exception as e:
            from harness import core
            return {"observed": {"error": core.err_kind(e), "msg": str(e)[:200]}, "perturbed": None}
    else:
        loss = world["loss"]
    obs = {"observed": outcome_of(lambda: loss.evaluate(world["params"], world["batch"]))}
    if case.get("routing") and "terms" in obs["observed"]:
        obs["grads"] = routing_grads(case, world, loss)
    if case.get("batched") and not case.get("malformed"):
        obs["perturbed"] = outcome_of(lambda: loss.evaluate(world["params_alt"], world["batch"]))
    else:
        obs["perturbed"] = None
    return obs


def routing_grads(case, world, loss):
    """jax.grad of the dynamic term with respect to the caller's equation parameters and to the rows of the
    parameter batch (the batch is rebuilt with the real append_param_batch inside the differentiated function)"""
    import dataclasses
    import jax
    from harness import core
    from jinns.data._DataGenerators import append_param_batch
    from jinns.parameters._params import Params

    params, batch = world["params"], world["batch"]
    rows0 = batch.param_batch_dict
    fields = {f.name: getattr(batch, f.name) for f in dataclasses.fields(batch)}
    fields["param_batch_dict"] = None
    bare = type(batch)(**fields)

    def dyn_of(eqp, rows):
        p = Params(nn_params=params.nn_params, eq_params=eqp)
        b = bare if rows0 is None else append_param_batch(bare, rows)
        return loss.evaluate(p, b)[1]["dyn_loss"]

    g_eqp, g_rows = jax.grad(dyn_of, argnums=(0, 1))(params.eq_params, rows0 if rows0 is not None else {})
    import numpy as np
    return {"caller": [[k, [core.qstr(x) for x in np.atleast_1d(np.asarray(v)).ravel()]] for k, v in g_eqp.items()],
            "rows": [[k, [[core.qstr(x) for x in r] for r in np.asarray(v)]] for k, v in g_rows.items()]}


def lean_request(case, obs):
    pr = build(case)
    main = _main_request(case, obs, pr)
    if "grads" not in obs:
        return main
    comp = residual_fn(pr, "e")
    din = pr["din"]
    names = [k for k, _ in pr["params"]]
    sj = single_json(pr, "u", pr["weights"], True, rows_json(pr["param_rows"]))
    routing = {"op": "c12routing", "params": main["params"], "readers": main["readers"],
               "param_rows": rows_json(pr["param_rows"]) or [], "dyn": sj["dyn"],
               "mask": [[k, bool(case["routing"].get(k, False))] for k in names],
               "dfs": [[k, [c.d(din + j).to_json() for c in comp]] for j, k in enumerate(names)],
               "grads": obs["grads"]}
    return [main, routing]


def _main_request(case, obs, pr):
    req = {"params": params_json(pr["params"]), "readers": readers_json(pr),
           "observed": {k: v for k, v in obs["observed"].items() if k != "msg"},
           "perturbed": None if obs["perturbed"] is None else {k: v for k, v in obs["perturbed"].items() if k != "msg"}}
    if pr["issys"]:
        req["op"] = "c12sys"
        req["sys"] = sys_json(pr)
    else:
        req["op"] = "c12"
        req["single"] = single_json(pr, "u", pr["weights"], True, rows_json(pr["param_rows"]))
    return req


def judge(case, obs, a):
    if isinstance(a, list):
        v = judge(case, obs, a[0])
        if v["status"] != "ok":
            return v
        r = a[1]
        if not r["holds"]:
            return {"status": "violation", "clause": r["clause"], "model_rows": r["model_rows"],
                    "model_caller": r["model_caller"]}
        if not r["agree"]:
            return {"status": "disagree", "clause": "model-gradients-differ", "model_rows": r["model_rows"],
                    "model_caller": r["model_caller"]}
        return v
    if not a["holds"]:
        return {"status": "violation", "clause": a["clause"], "model": a["model"]}
    if not a["agree"]:
        return {"status": "disagree", "clause": "model-outcome-differs", "model": a["model"]}
    return {"status": "ok", "clause": None}


def nontrivial(case, obs):
    o = obs["observed"]
    if "terms" not in o:
        return False
    touched = bool(case.get("batched")) or bool(case.get("obs") and case["obs"].get("eq_keys")) or bool(
        case.get("het") and any(v in ("fn", "fn_same") for k, v in case["het"].items() if k != "zz"))
    nonzero = any(Fraction(v) != 0 for v in o["terms"].values())
    return touched and nonzero and case["B"] >= 2


def tags(case, obs):
    out = [f"kind={case['kind']}", f"K={len(case['keys'])}", f"B={case['B']}"]
    b = case.get("batched")
    out.append("batched=none" if b is None else f"batched={len(b)}of{len(case['keys'])}")
    for k in case["keys"]:
        out.append(f"shape={k['shape']}")
    if case.get("obs"):
        out.append(f"observed_keys={len(case['obs'].get('eq_keys', []))}")
    if case.get("het"):
        out.append("heterogeneity")
        if "zz" in case["het"]:
            out.append("heterogeneity_key_absent_from_params")
    if case.get("malformed"):
        out.append(f"malformed={case['malformed']}")
    if "grads" in obs:
        out.append("derivative_routing")
    o = obs["observed"]
    out.append("impl=" + ("error:" + o["error"] if "error" in o else "value"))
    for t, on in case["terms"].items():
        if on and t not in ("bc", "bdim"):
            out.append(f"term={t}")
    if case["terms"].get("boundary"):
        out.append("boundary=" + case["terms"].get("bc", "dirichlet") + (f",d={case.get('d')}")
                   + (",param_batch" if case.get("batched") else ""))
    return out


def widen(rng, bad_cases):
    out = []
    for c in bad_cases:
        for _ in range(6):
            out.append(settle_seed({**c, "seed": rng.randrange(1 << 30)}))
        out.extend(shrink_candidates(c))
    return out
