"""
C04 — boundary term: Dirichlet / outward-normal Neumann per facet.
Correspondence: terms['boundary_loss'] of real LossPDEStatio / LossPDENonStatio (dims 1 and 2, polynomial PINN,
non-zero polynomial f, a different f on each facet, f = the true outward normal derivative / trace and its
negation, hand-built border batches and batches of the real generators, 1..4 time points, int / slice component
selections, global and per-facet dictionary specifications with None facets; real SPINNs with polynomial
per-coordinate features, Dirichlet and Neumann, stationary and non-stationary, dims 1 and 2) against
JinnsModel/Boundary.lean fed with exact tables of u, of its space derivatives and of f at the border points.
The loss-case machinery is shared with C03 (harness/c03.py).
"""
from __future__ import annotations

from fractions import Fraction as Fr

from harness import core
from harness import c03 as K

PROP = "C04"
TECHNIQUE = ("Lean 4 proof (list induction, List.Perm, ring/field_simp) + exact differential correspondence "
             "with user functions as value tables")
LEVEL_TEXT = ("Lean 4 theorems, for all networks (value and derivative oracles), boundary functions, weights, border "
              "batches of any size and all specifications: the boundary term is the sum, over the facets that carry a "
              "condition, of w times the mean over exactly that facet's own points of the squared mismatch between f and "
              "u[dim] (Dirichlet) or the derivative of u along that facet's own outward unit normal -e_j / +e_j (Neumann, "
              "1-D and 2-D tables proved equal to the definition); a None facet contributes 0; a dictionary with the same "
              "condition everywhere equals the global form; the value is the same whether f returns a scalar or a "
              "length-one array; on a times x border product batch it is the mean over the times of the single-time "
              "terms, hence independent of the number of time points when nothing depends on t and unchanged when the "
              "time set is repeated.  The model is tied to /repo on every run by exact differential execution; "
              "Holds.C04 (stated from the definition of the outward normal, not from the code's tables) is evaluated on "
              "the implementation's own value and on three metamorphic re-evaluations of the implementation."
              "  Holds.C04 itself is proved of the model's boundary value for every specification, table and batch (holdsC04_model, holdsC04_model_spinn_*).")
LEVEL_NOTE = ("Trusted: Lean kernel + {propext, Classical.choice, Quot.sound}; JAX AD is an oracle (the table of first "
              "derivatives is computed by the harness with exact polynomials); the tie of the hand-written model to the "
              "code is differential; a separable network (SPINN) is evaluated on the tensor grid of the coordinate "
              "columns of the facet batch, the model states that grid and the theorems reduce its mean to the mean "
              "over the facet's points (pinned coordinate constant); per-component boundary weights are outside the "
              "property (the code multiplies the weight after the component sum).")
THEOREMS = [
    "Jinns.Boundary.normal_eq_outward",
    "Jinns.Boundary.outward_eq_holds",
    "Jinns.Boundary.boundary_eq_sum_facets",
    "Jinns.Boundary.facetLoss_eq",
    "Jinns.Boundary.none_facet_contributes_zero",
    "Jinns.Boundary.perFacet_same_eq_global",
    "Jinns.Boundary.mismatch_fshape_indep",
    "Jinns.Boundary.boundary_fshape_indep",
    "Jinns.Boundary.facetLoss_zero_of_match",
    "Jinns.Boundary.facetPts_productRows",
    "Jinns.Boundary.facetLoss_product_eq_mean_over_times",
    "Jinns.Boundary.facetLoss_time_indep",
    "Jinns.Boundary.facetLoss_dup_rows",
    "Jinns.Boundary.cart_mean_const_col",
    "Jinns.Boundary.grid_mean_eq_rows_first_pinned",
    "Jinns.Boundary.grid_mean_eq_rows_second_pinned",
    "Jinns.Boundary.grid_mean_times_cross",
    "Jinns.Boundary.boundarySpinn_eq_sum_facets",
    "Jinns.Boundary.facetLossSpinn_eq_facetLoss_2d",
    "Jinns.Boundary.value_eq_expected",
    "Jinns.Boundary.holdsC04_model",
    "Jinns.Boundary.holdsC04_model_spinn_statio",
    "Jinns.Boundary.holdsC04_model_spinn_nonstatio",
]
LEAN_MODULES = ["JinnsProofs.C04", "JinnsProofs.C04C14Holds"]
RULE = ("cases = (stationary / non-stationary, dimension 1 or 2, network with 1..3 outputs, specification global or "
        "per-facet dictionary with None facets, condition / component selection / f / return shape per facet, border "
        "batch hand-built or from the real generator, 1..4 time points); non-trivial = the term is non-zero or a facet "
        "carries f = the exact trace / outward normal derivative, every configured f is a non-zero function, and either "
        "two facets carry conditions or the specification is global; distinct = distinct case dicts")
ASSUMPTIONS = [
    "grad(u_, k)(p)[j] is the j-th partial space derivative of the selected component at p (table computed exactly)",
    "f is a function of the border point (and time); its return shape is a 0-d scalar or a 1-D array",
    "float64 arithmetic is exact on the generated inputs; border batches whose row count is not a power of two are "
    "compared within 4 ulp and counted in the tags",
    "Neumann conditions select exactly one output component (the implementation differentiates a scalar)",
]


def gen_case(rng, kind, d, m, source, nb, nt, malformed=False, spinn=False):
    case = K.base_case(rng, kind, d, m, 2)
    if spinn:
        case["spinn"], case["u"] = K.gen_spinn(rng, kind, d, m, R=rng.choice([1, 2]))
    case["boundary"] = K.gen_boundary(rng, case)
    if source == "hand":
        case["batch"]["border"] = [[K.qrow(c) for c in row] for row in K.gen_border(rng, kind, d, nb, nt=nt)]
    else:
        case["batch"] = K.gen_batch_spec(rng, case, 2, nbb=nb, nt=nt)
    if malformed:
        # a dictionary whose keys are not those of the batch's facets must be rejected
        fcs = case["boundary"]["facets"] if not case["boundary"]["global"] else case["boundary"]["facets"] * (2 * d)
        fcs = [f for f in fcs if f is not None] or [K.gen_boundary(rng, case, allow_dict=False)["facets"][0]]
        want = 4 if d == 1 else 2
        case["boundary"] = {"w": case["boundary"]["w"], "global": False,
                            "facets": [dict(fcs[i % len(fcs)], mode="poly") for i in range(want)]}
        case["malformed"] = True
    return case


def gen_cases(rng, tier):
    cases = []
    reps = 6 if tier == "quick" else 72
    for kind in ("statio", "nonstatio"):
        for d in (1, 2):
            for r in range(reps):
                for source in ("hand", "hand", "gen"):
                    m = rng.choice([1, 1, 2, 3])
                    nb = 1 if d == 1 else rng.choice([1, 2, 2, 4] if tier == "quick" else [1, 2, 3, 4, 4, 8])
                    nt = rng.choice([1, 2, 2, 4] if tier == "quick" else [1, 2, 3, 4])
                    cases.append(gen_case(rng, kind, d, m, source, nb, nt))
            cases.append(gen_case(rng, kind, d, 1, "hand", 1 if d == 1 else 2, 2, malformed=True))
            # the batch also carries a parameter batch the network reads: border row i goes with parameter row i
            for r in range(2 if tier == "quick" else 12):
                nb = 1 if d == 1 else rng.choice([1, 2])
                nt = rng.choice([2, 4]) if (kind == "nonstatio" and nb == 1) else (rng.choice([1, 2]) if kind == "nonstatio" else 1)
                if kind == "statio" and d == 1:
                    continue      # a 1-D stationary border has a single row
                for _ in range(20):
                    c = gen_case(rng, kind, d, rng.choice([1, 2]), "hand", nb, nt)
                    rows = c["batch"]["border"]
                    nF = len(rows[0][0])
                    pts = [tuple(cc[k] for cc in row) for row in rows for k in range(nF)]
                    if len(rows) >= 2 and len(set(pts)) == len(pts):
                        break
                else:
                    continue
                pool = [Fr(x, 2) for x in range(-6, 7) if Fr(x, 2) != K.F(c["theta"])]
                c["pbatch"] = {"theta": K.qrow(rng.sample(pool, len(rows)))}
                cases.append(c)
    # separable networks (SPINN branches): every facet, Dirichlet and Neumann, with and without time
    sreps = 3 if tier == "quick" else 16
    for kind in ("statio", "nonstatio"):
        for d in (1, 2):
            for r in range(sreps):
                m = rng.choice([1, 1, 2])
                source = "gen" if (r % 3 == 2) else "hand"
                if kind == "nonstatio" and d == 2:
                    # rows (t_i, x_i, y_i); the SPINN works on the rows^3 grid
                    nb, nt = rng.choice([1, 2, 2] if tier == "quick" else [1, 2, 3, 4]), 1
                else:
                    nb = 1 if d == 1 else rng.choice([1, 2, 2, 4])
                    nt = rng.choice([1, 2, 2, 4]) if d == 1 else 1
                c = gen_case(rng, kind, d, m, "hand", nb, nt, spinn=True)
                # every (kind, d) gets at least one Neumann and one Dirichlet configuration
                need = ["neumann", "dirichlet", None][r % 3]
                while need and not any(f is not None and f["cond"] == need for f in c["boundary"]["facets"]):
                    c["boundary"] = K.gen_boundary(rng, c)
                if kind == "nonstatio" and d == 2:
                    # one time per border row (the paired layout recommended for SPINNs)
                    border = c["batch"]["border"]
                    for row in border:
                        t = K.q(Fr(rng.randint(0, 6), 2))
                        row[0] = [t] * len(row[0])
                if source == "gen":
                    c["batch"] = K.gen_batch_spec(rng, c, 2, nbb=nb, nt=max(nt, 1))
                    if kind == "nonstatio" and d == 2:
                        c["batch"].update(cartesian=False, n=nb, nt=nb, nb=4 * nb, nbb=nb)
                cases.append(c)
    return cases


def _flip_shape(case):
    """same configuration, every single-valued f returning the other shape (0-d scalar <-> length-one array)"""
    c = dict(case)
    b = dict(case["boundary"])
    changed = False
    fs = []
    for fc in b["facets"]:
        if fc is not None and len(fc["f"]) == 1:
            fc = dict(fc, fret="vec" if fc["fret"] == "scalar" else "scalar")
            changed = True
        fs.append(fc)
    b["facets"] = fs
    c["boundary"] = b
    return c if changed else None


def _other_spec(case, nF):
    c = dict(case)
    b = dict(case["boundary"])
    if b["global"]:
        b["global"] = False
        b["facets"] = [dict(b["facets"][0]) for _ in range(nF)]
    else:
        f0 = b["facets"][0]
        if f0 is None or any(f != f0 for f in b["facets"]):
            return None
        b["global"] = True
        b["facets"] = [f0]
    c["boundary"] = b
    return c


def run_impl(case):
    arrays = K.make_arrays(case)
    base = K.evaluate(case, arrays)
    obs = {"base": base, "m": case["m"]}
    border = arrays["border"]
    nF = len(border[0][0])
    lc = None
    try:
        lc = K.lean_case(case, arrays)
    except Exception:
        if not case.get("malformed"):
            raise
    if "error" in base:
        obs["req"] = {"op": "c04", "case": lc, "obs": {"m": case["m"], "value": "0", "tol": "0"}} if lc else None
        obs["tol"] = "0"
        return obs
    value = base["terms"]["boundary_loss"]
    values = [value]

    def variant(c2, arr=None):
        if c2 is None:
            return None
        r = K.evaluate(c2, arr or arrays)
        if "error" in r:
            return "error:" + r["error"]
        values.append(r["terms"]["boundary_loss"])
        return r["terms"]["boundary_loss"]

    other_shape = variant(_flip_shape(case))
    other_spec = variant(_other_spec(case, nF))
    time_dup = None
    if case["kind"] == "nonstatio" and not case.get("pbatch"):
        a2 = dict(arrays)
        a2["border"] = border + border
        time_dup = variant(case, a2)
    for v in (other_shape, other_spec, time_dup):
        if isinstance(v, str) and v.startswith("error:"):
            obs["variant_error"] = v
    tol = K.tol_of(case, arrays, values)
    obs["tol"] = K.q(tol)
    obs["variants"] = {"other_shape": other_shape, "other_spec": other_spec, "time_dup": time_dup}
    obs["rows"] = len(border)
    ok = lambda v: None if (v is None or v.startswith("error:")) else v
    obs["req"] = {"op": "c04", "case": lc,
                  "obs": {"m": case["m"], "value": value, "other_shape": ok(other_shape), "time_dup": ok(time_dup),
                          "other_spec": ok(other_spec), "tol": K.q(tol)}}
    return obs


def lean_request(case, obs):
    return obs["req"]


def judge(case, obs, answer):
    base = obs["base"]
    if "error" in base:
        if answer is not None and answer.get("model_rejected"):
            return {"status": "ok", "clause": None, "rejected": base["error"]}
        return {"status": "violation", "clause": "evaluate-raised:" + base["error"], "detail": base.get("msg")}
    if answer.get("model_rejected"):
        return {"status": "disagree", "clause": "model-rejects-implementation-accepts"}
    if obs.get("variant_error"):
        return {"status": "violation", "clause": "metamorphic-variant-raised", "detail": obs["variant_error"]}
    if not answer["holds"]:
        return {"status": "violation", "clause": answer["clause"],
                "detail": f"impl {base['terms']['boundary_loss']} expected {answer.get('expected')} variants {obs['variants']}"}
    tol = K.F(obs["tol"])
    if abs(K.F(answer["model_boundary"]) - K.F(base["terms"]["boundary_loss"])) > tol:
        return {"status": "disagree", "clause": "model-differs",
                "detail": f"impl {base['terms']['boundary_loss']} model {answer['model_boundary']}"}
    d = K.compare_model(obs, answer)
    if d:
        return {"status": "disagree", "clause": "model-differs", "detail": d}
    return {"status": "ok", "clause": None}


def nontrivial(case, obs):
    if "error" in obs["base"]:
        return False
    b = case["boundary"]
    fcs = [f for f in b["facets"] if f is not None]
    if not fcs or any(all(not js for js in f["f"]) for f in fcs):
        return False
    v = K.F(obs["base"]["terms"]["boundary_loss"])
    matched = any(f.get("mode") in ("match",) for f in fcs)
    return (v != 0 or matched) and (b["global"] or len(fcs) >= 2)


def tags(case, obs):
    b = case["boundary"]
    out = [f"kind={case['kind']}", f"d={case['d']}", f"m={case['m']}", f"batch={case['batch']['source']}",
           "spec=" + ("global" if b["global"] else "dict"), "net=" + ("spinn" if case.get("spinn") else "pinn")]
    if case.get("spinn"):
        out.append(f"spinn:{case['kind']}:d={case['d']}")
    if case.get("malformed"):
        out.append("malformed")
    if case.get("pbatch"):
        out.append("parameter_batch")
    for f in b["facets"]:
        if f is None:
            out.append("facet=None")
        else:
            out.append("cond=" + f["cond"])
            out.append("dim=" + ("none" if f["dim"] is None else "int" if isinstance(f["dim"], int) else "slice"))
            out.append("fret=" + f["fret"])
            out.append("f=" + f.get("mode", "poly"))
    if "error" in obs["base"]:
        out.append("error=" + obs["base"]["error"])
        return out
    out.append(f"rows={obs['rows']}")
    if K.F(obs["base"]["terms"]["boundary_loss"]) == 0:
        out.append("value=0")
    out.append("ulp_rule" if K.F(obs["tol"]) != 0 else "exact")
    return out


def shrink_candidates(case):
    b = case["boundary"]
    if not b["global"]:
        for i, f in enumerate(b["facets"]):
            if f is not None and sum(1 for g in b["facets"] if g is not None) > 1:
                c = dict(case)
                c["boundary"] = {**b, "facets": [None if j == i else g for j, g in enumerate(b["facets"])]}
                yield c
    bt = case["batch"]
    if bt["source"] == "hand" and bt.get("border") and len(bt["border"]) > 1:
        c = dict(case)
        c["batch"] = {**bt, "border": bt["border"][: max(1, len(bt["border"]) // 2)]}
        yield c


def widen(rng, bad_cases):
    out = []
    for c in bad_cases[:3]:
        for nb in (1, 2, 4):
            for nt in (1, 2, 3):
                out.append(gen_case(rng, c["kind"], c["d"], c["m"], "hand", 1 if c["d"] == 1 else nb, nt))
    return out
