"""
Exact toolkit shared by the loss / operator / wrapper properties.

* `P`       : exact multivariate polynomials over Fractions (dict exponent-tuple -> coefficient) with
              +, *, derivative, evaluation -- the harness-side oracle for values of networks,
              residuals and their derivatives.
* `PolyNet` : an `eqx.Module` computing integer-coefficient polynomials by repeated multiplication
              (every float64 operation exact for small integer/dyadic inputs); its trainable
              parameter is the coefficient matrix.  Wrapped in the *real* jinns `PINN`.
"""
from __future__ import annotations

from fractions import Fraction
from itertools import product


# ------------------------------------------------------------------------------------------
# exact polynomials
# ------------------------------------------------------------------------------------------
class P:
    """polynomial in `nvars` variables, exact Fractions"""

    __slots__ = ("n", "c")

    def __init__(self, nvars, coeffs=None):
        self.n = nvars
        self.c = {}
        if coeffs:
            for e, v in coeffs.items():
                v = Fraction(v)
                if v != 0:
                    self.c[tuple(e)] = self.c.get(tuple(e), 0) + v

    @staticmethod
    def const(n, v):
        return P(n, {(0,) * n: v})

    @staticmethod
    def var(n, i):
        e = [0] * n
        e[i] = 1
        return P(n, {tuple(e): 1})

    def _lift(self, o):
        return o if isinstance(o, P) else P.const(self.n, o)

    def __add__(self, o):
        o = self._lift(o)
        r = dict(self.c)
        for e, v in o.c.items():
            r[e] = r.get(e, 0) + v
        return P(self.n, r)

    __radd__ = __add__

    def __neg__(self):
        return P(self.n, {e: -v for e, v in self.c.items()})

    def __sub__(self, o):
        return self + (-self._lift(o))

    def __rsub__(self, o):
        return self._lift(o) - self

    def __mul__(self, o):
        o = self._lift(o)
        r = {}
        for e1, v1 in self.c.items():
            for e2, v2 in o.c.items():
                e = tuple(a + b for a, b in zip(e1, e2))
                r[e] = r.get(e, 0) + v1 * v2
        return P(self.n, r)

    __rmul__ = __mul__

    def d(self, i):
        r = {}
        for e, v in self.c.items():
            if e[i] > 0:
                e2 = list(e)
                e2[i] -= 1
                r[tuple(e2)] = r.get(tuple(e2), 0) + v * e[i]
        return P(self.n, r)

    def __call__(self, z):
        z = [Fraction(x) for x in z]
        tot = Fraction(0)
        for e, v in self.c.items():
            t = v
            for x, k in zip(z, e):
                t *= x ** k
            tot += t
        return tot

    def subs_affine(self, i, a, b):
        """replace variable i by a*x_i + b"""
        r = P(self.n)
        xi = P.var(self.n, i) * a + b
        for e, v in self.c.items():
            t = P.const(self.n, v)
            for j, k in enumerate(e):
                base = xi if j == i else P.var(self.n, j)
                for _ in range(k):
                    t = t * base
            r = r + t
        return r

    def is_zero(self):
        return not self.c

    def to_json(self):
        """[[coef 'p/q', [e0, e1, ...]], ...] sorted"""
        out = []
        for e in sorted(self.c):
            v = self.c[e]
            out.append([str(v.numerator) if v.denominator == 1 else f"{v.numerator}/{v.denominator}", list(e)])
        return out

    def __repr__(self):
        return "P(" + " + ".join(f"{v}*x^{list(e)}" for e, v in sorted(self.c.items())) + ")"


def monomials(nvars, maxdeg):
    """all exponent tuples of total degree <= maxdeg"""
    return [e for e in product(range(maxdeg + 1), repeat=nvars) if sum(e) <= maxdeg]


def random_poly(rng, nvars, maxdeg, nterms, cmax=3):
    ms = monomials(nvars, maxdeg)
    c = {}
    for e in rng.sample(ms, min(nterms, len(ms))):
        v = rng.randint(-cmax, cmax)
        if v:
            c[e] = v
    return P(nvars, c)


# ------------------------------------------------------------------------------------------
# the network
# ------------------------------------------------------------------------------------------
def make_polynet(polys):
    """polys: list of P (one per output component), all in the same number of variables.
    Returns an eqx.Module whose parameter is the (m, K) coefficient matrix."""
    import equinox as eqx
    import jax.numpy as jnp

    n = polys[0].n
    exps = sorted({e for p in polys for e in p.c} | {(0,) * n})
    coef = [[float(p.c.get(e, 0)) for e in exps] for p in polys]

    class PolyNet(eqx.Module):
        coef: "jnp.ndarray"
        exps: tuple = eqx.field(static=True)

        def __call__(self, z):
            monos = []
            for e in self.exps:
                t = jnp.ones((), dtype=z.dtype)
                for j, k in enumerate(e):
                    for _ in range(k):
                        t = t * z[j]
                monos.append(t)
            return self.coef @ jnp.stack(monos)

    return PolyNet(coef=jnp.asarray(coef, dtype=jnp.float64), exps=tuple(exps))


def polys_of_net(net):
    """exact polynomials currently represented by a PolyNet (reads its coefficient matrix)"""
    import numpy as np

    coef = np.asarray(net.coef)
    n = len(net.exps[0])
    return [P(n, {e: Fraction(float(coef[m, k])) for k, e in enumerate(net.exps)}) for m in range(coef.shape[0])]


def make_pinn(polys, eq_type, input_transform=None, output_transform=None, output_slice=None,
              slice_solution=None):
    """a real jinns PINN around a PolyNet"""
    import jax.numpy as jnp
    from jinns.utils._pinn import PINN

    net = make_polynet(polys)
    m = len(polys)
    return PINN(
        mlp=net,
        slice_solution=slice_solution if slice_solution is not None else jnp.s_[0:m],
        eq_type=eq_type,
        input_transform=input_transform or (lambda i, p: i),
        output_transform=output_transform or (lambda i, o, p: o),
        output_slice=output_slice,
    )


def dyadic(rng, lo=-4, hi=4, denom_pow=2):
    """a random dyadic rational in [lo, hi] with denominator 2^denom_pow"""
    d = 2 ** denom_pow
    return Fraction(rng.randint(lo * d, hi * d), d)
