"""
C20 — loss evaluation and batch drawing are pure and compilation-invariant.

Correspondence: every single loss (`LossODE`, `LossPDEStatio`, `LossPDENonStatio`), both system losses and every
generator kind of `jinns.data`; a history of calls on *shared* objects (the same loss object and batch with
several parameter objects; the same generator object drawn from repeatedly and after its successors), each call
executed eagerly, under `jax.jit` and as the primal of `jax.value_and_grad`, in a shuffled order with repetitions.
Around every call: deep snapshots of every argument (array bytes, dtypes, shapes, pytree structure, `vars()` of
the modules, dictionary contents *and* object identities).  `Holds.C20` is evaluated on the observed history;
every value returned by a loss call is compared with the one exact value of the Lean model
(`JinnsModel/Frame.lean` on top of the C12 / C13 models), hence the three execution modes with each other.
"""
from __future__ import annotations

import hashlib
import json
import random
from fractions import Fraction

from harness import c12, c13

PROP = "C20"
LEVEL_TEXT = ("Lean 4 theorems, for every loss kind (single and system), parameter dictionary, batch (with or without "
              "parameter / observation parts), configuration, generator step function and history: the bodies of the "
              "evaluate methods, written in an explicit effect language (functional update = new object and rebinding, "
              "in-place write through an alias, pure use), leave the caller's parameter object exactly as it was "
              "(frame); get_batch leaves the generator object as it was; equal arguments give equal results; any order "
              "and repetition of evaluations on shared objects returns at every position the value of that call on the "
              "original objects; Holds.C20 is true of the model's traces.  The in-place body of the pre-fix "
              "SystemLossPDE.evaluate is refuted by a concrete witness (non-vacuity).  Compilation invariance is carried "
              "by the correspondence: on every run the real losses are executed eagerly, under jax.jit and through "
              "jax.value_and_grad and each value is compared with the single exact value of the model; the real "
              "generators are drawn from eagerly and under jit and compared bit for bit.")
LEVEL_NOTE = ("Partial / named limit: the model has one semantics; trace-time capture, jit caching and recompilation are "
              "runtime behaviour it cannot exhibit, so 'eager = jit = primal of value_and_grad' is NOT a theorem: it is "
              "checked by the correspondence on the generated scopes (three execution modes against one exact model "
              "value).  Frame and determinism are theorems about the hand-written effect model, which is tied to the "
              "code differentially: deep before/after snapshots of parameters, batch, generator and loss object around "
              "every real call.  Effects outside the arguments (module-level globals, files, the PRNG of the host) are "
              "visible only through changed results of repeated calls.  Trusted: Lean kernel + {propext, "
              "Classical.choice, Quot.sound}; the snapshot function of the harness.")
TECHNIQUE = ("Lean 4 proof (effect language with aliasing; frame by induction over the body; history independence) + "
             "differential correspondence with deep argument snapshots and three execution modes against one exact "
             "model value")
THEOREMS = [
    "Jinns.Frame.run_caller_of_not_aliased",
    "Jinns.Frame.run_functional",
    "Jinns.Frame.bodySingle_functional",
    "Jinns.Frame.bodyNonStatio_functional",
    "Jinns.Frame.bodySystem_functional",
    "Jinns.Frame.evaluateSingle_frame",
    "Jinns.Frame.evaluateSys_frame",
    "Jinns.Frame.evaluateSingle_deterministic",
    "Jinns.Frame.evaluateSys_deterministic",
    "Jinns.Frame.evaluateSingle_twice",
    "Jinns.Frame.evaluateSys_twice",
    "Jinns.Frame.callOn_frame",
    "Jinns.Frame.runHistory_frame",
    "Jinns.Frame.runHistory_perm",
    "Jinns.Frame.getBatch_frame",
    "Jinns.Frame.getBatch_deterministic",
    "Jinns.Frame.getBatch_twice",
    "Jinns.Frame.drawN_add",
    "Jinns.Holds.holdsC20_of_functional",
    "Jinns.Frame.holdsC20_model",
]
LEAN_MODULES = ["JinnsProofs.C20"]
RULE = ("cases = (loss kind or generator kind, configuration, seed); a case is a history of >= 6 calls on shared "
        "objects in the modes eager / jit / value_and_grad, shuffled, with repetitions; observable = deep snapshots of "
        "all arguments before and after every call, the returned value; non-trivial = the history contains at least "
        "two different calls, every call is repeated, at least two execution modes are used, and (losses) the value is "
        "not zero / (generators) a successor generator differs from its predecessor; distinct = distinct case dicts")
ASSUMPTIONS = list(c12.ASSUMPTIONS) + [
    "the snapshot (array bytes, dtype, shape, pytree structure, vars() of modules, dict contents and object "
    "identities) determines the observable state of an argument",
]
EXHAUSTIVE = {"quick": False, "thorough": False}

LOSS_KINDS = ["ode", "statio", "nonstatio", "sys_ode", "sys_statio", "sys_nonstatio"]
GEN_KINDS = ["gen_ode", "gen_statio1", "gen_statio2", "gen_nonstatio", "gen_nonstatio_cart", "gen_nonstatio_cart1",
             "gen_obs", "gen_param", "gen_multi"]
# (interior, border, time) batch sizes that differ widely, in both directions
WIDE_SIZES = [(4, 4, 16), (32, 2, 2), (2, 8, 8), (16, 1, 4), (4, 16, 2), (2, 2, 32)]


# ------------------------------------------------------------------------------------------------
# deep snapshots
# ------------------------------------------------------------------------------------------------
def _content(x):
    import dataclasses
    import jax
    import numpy as np

    if isinstance(x, jax.core.Tracer):
        # a traced value left behind in an argument by a compiled call: the argument was modified
        return ("leaked-tracer", str(getattr(x, "aval", "?")))
    if isinstance(x, (jax.Array, np.ndarray, np.generic)):
        a = np.asarray(x)
        return ("arr", str(a.dtype), tuple(a.shape), hashlib.sha1(a.tobytes()).hexdigest())
    if x is None or isinstance(x, (bool, int, float, str, slice, type(Ellipsis))):
        return ("py", repr(x))
    if isinstance(x, dict):
        return ("dict", tuple((repr(k), _content(v)) for k, v in x.items()))
    if isinstance(x, (list, tuple)):
        return (type(x).__name__, tuple(_content(v) for v in x))
    if dataclasses.is_dataclass(x) and not isinstance(x, type):
        return ("mod", type(x).__name__, tuple((k, _content(v)) for k, v in sorted(vars(x).items())))
    if callable(x):
        return ("fn", getattr(x, "__qualname__", type(x).__name__), id(x))
    return ("obj", type(x).__name__, id(x))


def _identity(x):
    import dataclasses
    import jax
    import numpy as np

    if isinstance(x, (jax.Array, np.ndarray)):
        return id(x)
    if isinstance(x, dict):
        return ("dict", id(x), tuple((repr(k), _identity(v)) for k, v in x.items()))
    if isinstance(x, (list, tuple)):
        return tuple(_identity(v) for v in x)
    if dataclasses.is_dataclass(x) and not isinstance(x, type):
        return ("mod", id(x), tuple((k, _identity(v)) for k, v in sorted(vars(x).items())))
    return None


def _canon(x):
    """canonical rendering of a returned value: values, shapes and structure -- not the representation
    (dict order, python scalar vs 0-d array, weak types), which legitimately differs between eager and jit"""
    import dataclasses
    import jax
    import numpy as np

    if isinstance(x, (jax.Array, np.ndarray, np.generic, bool, int, float)):
        a = np.asarray(x)
        kind = "f" if a.dtype.kind == "f" else "i"
        a = a.astype(np.float64) if kind == "f" else a.astype(np.int64)
        return ("num", kind, tuple(a.shape), hashlib.sha1(a.tobytes()).hexdigest())
    if x is None or isinstance(x, (str, slice, type(Ellipsis))):
        return ("py", repr(x))
    if isinstance(x, dict):
        return ("dict", tuple((repr(k), _canon(x[k])) for k in sorted(x, key=repr)))
    if isinstance(x, (list, tuple)):
        return ("seq", tuple(_canon(v) for v in x))
    if dataclasses.is_dataclass(x) and not isinstance(x, type):
        return ("mod", type(x).__name__, tuple((k, _canon(v)) for k, v in sorted(vars(x).items())))
    if callable(x):
        return ("fn", getattr(x, "__qualname__", type(x).__name__))
    return ("obj", type(x).__name__)


def digest(t):
    return hashlib.sha1(repr(t).encode()).hexdigest()[:16]


def snapshot(objs):
    """one content digest and one identity digest per argument, plus the pytree structure"""
    import jax

    out = []
    for o in objs:
        out.append(digest(_content(o)))
        out.append(digest(_identity(o)))
        out.append(digest(str(jax.tree_util.tree_structure(o))))
    return out


# ------------------------------------------------------------------------------------------------
# cases
# ------------------------------------------------------------------------------------------------
def _history(rng, ncalls, modes, length):
    """every (call, mode) at least once, every call at least twice, shuffled, padded with repetitions"""
    h = [(c, m) for c in range(ncalls) for m in modes]
    while len(h) < length:
        h.append((rng.randrange(ncalls), rng.choice(modes)))
    first = h[0]
    rest = h[1:]
    rng.shuffle(rest)
    return [list(x) for x in [first] + rest]


def gen_cases(rng, tier):
    cases = []
    quick = tier == "quick"

    def add(kw):
        kw.setdefault("seed", rng.randrange(1 << 30))
        if kw["kind"] in LOSS_KINDS:
            kw = c12.settle_seed(kw)
        cases.append(kw)

    reps = 2 if quick else 10
    for kind in LOSS_KINDS:
        for r in range(reps):
            base = kind.replace("sys_", "")
            nk = rng.choice([1, 2])
            keys = [{"name": n, "shape": rng.choice(["()", "(1,)", "(k,)"]), "k": 2} for n in c12.KEY_POOL[:nk]]
            names = [k["name"] for k in keys]
            # with and without parameter / observation parts
            batched = [None, [names[0]], names, []][(r + rng.randrange(2)) % 4] if not quick else (
                None if r == 0 else rng.choice([[names[0]], names]))
            obs = None
            if r % 2 == 1 or rng.random() < 0.3:
                obs = {"eq_keys": rng.sample(names, rng.randint(0, len(names))), "slice": False}
            if r % 2 == 1:
                # in every run, for every loss kind: a parameter batch TOGETHER with observed equation parameters
                batched = batched or [names[0]]
                obs["eq_keys"] = obs["eq_keys"] or [rng.choice(names)]
            het = {names[0]: "fn"} if rng.random() < 0.3 else None
            c = dict(kind=kind, d=rng.choice([1, 2]), m=1 if r == 0 else 2, keys=keys, batched=batched, B=2, obs=obs, het=het,
                     malformed=None,
                     terms={"dyn": True, "ic": base != "statio", "boundary": base != "ode" and rng.random() < 0.6,
                            "norm": base != "ode" and rng.random() < 0.5})
            if kind.startswith("sys_"):
                c["E"], c["U"] = rng.choice([1, 2]), rng.choice([1, 2])
                es, us = c13._names(c)
                fields = c13.FIELDS_ODE if kind == "sys_ode" else c13.FIELDS_PDE
                c["weights"] = {f: c13._weight_spec(rng, f, es, us, rng.choice(["scalar", "dict", "scalar"]))
                                for f in fields}
                if r % 2 == 1:
                    # in every run: two equations whose unequal weights are given as a dictionary written in the
                    # reverse key order (pairing by position differs between an eager call and a pytree round trip)
                    c["E"] = 2
                    es, us = c13._names(c)
                    c["weights"] = {f: c13._weight_spec(rng, f, es, us, "scalar") for f in fields}
                    c["weights"]["dyn_loss"] = {"dict": {es[1]: "3/2", es[0]: "1/2"}}
                if obs is not None and c["U"] == 2 and rng.random() < 0.5:
                    obs["unknowns"] = ["u0"]
            # calls 0, 1: one loss object with two parameter objects (all modes); call 2: a second loss object
            # (same problem, other weights) interleaved with the first
            h = _history(rng, 2, ["eager", "jit", "value_and_grad", "jit_arg"], 8 if quick else 12)
            extra = [[2, "eager"], [2, "value_and_grad" if quick else "jit"], [2, "eager"]]
            for x in extra:
                h.insert(rng.randrange(1, len(h) + 1), x)
            c["history"] = h
            add(c)
    for kind in GEN_KINDS:
        for r in range(1 if quick else 6):
            n = rng.choice([4, 6, 8])
            b = rng.choice([1, 2])
            c = dict(kind=kind, n=n, b=b, history=_history(rng, 3, ["eager", "jit"], 8 if quick else 14))
            add(c)
    # cursors with widely different batch sizes: the first draw of a FRESH generator (call 0; call 2 is an
    # independently built fresh one) eager vs jit, then later draws (call 1 = the successor)
    for kind in ("gen_statio2", "gen_nonstatio_cart", "gen_nonstatio_cart1"):
        sizes = WIDE_SIZES if not quick else rng.sample(WIDE_SIZES[:2], 2) + rng.sample(WIDE_SIZES[2:], 1)
        for bo, bb, bt in sizes:
            c = dict(kind=kind, n=32, b=1, bo=bo, bb=bb, bt=bt,
                     history=_history(rng, 3, ["eager", "jit"], 7 if quick else 12))
            add(c)
    return cases


def shrink_candidates(case):
    h = case["history"]
    if len(h) > 2:
        for i in range(1, len(h)):
            # generator histories keep their jit calls: whether a jitted draw fails can depend on which other
            # generator objects the same jitted function has already seen
            if case["kind"] in GEN_KINDS and h[i][1] == "jit":
                continue
            yield {**case, "history": h[:i] + h[i + 1:]}
    if case["kind"] in LOSS_KINDS:
        for cand in c12._shrink({k: v for k, v in case.items()}):
            if cand.get("kind", "").startswith("sys_") and "weights" in cand:
                es, us = c13._names(cand)
                w = {}
                for f, v in cand["weights"].items():
                    ks = es if f == "dyn_loss" else us
                    w[f] = {"dict": {k: v["dict"].get(k, "1") for k in ks}} if isinstance(v, dict) and "dict" in v else v
                cand["weights"] = w
            yield c12.settle_seed(cand)


# ------------------------------------------------------------------------------------------------
# implementation side
# ------------------------------------------------------------------------------------------------
def _params_all_alt(case, world):
    """a second parameter object whose every equation parameter differs from the first"""
    from jinns.parameters._params import Params, ParamsDict

    pr = world["pr"]
    vals = c12.make_params_values(pr, case["keys"], alt=True)
    p = world["params"]
    return type(p)(nn_params=p.nn_params, eq_params=vals)


def _outcome_key(o):
    return json.dumps({k: v for k, v in o.items() if k != "msg"}, sort_keys=True)


def run_loss(case):
    import jax

    world = c12.make_world(case)
    pr = world["pr"]
    lossA = world["make_system"]() if pr["issys"] else world["loss"]
    worldB = c12.make_world({**case, "wvariant": 1})
    lossB = worldB["make_system"]() if pr["issys"] else worldB["loss"]
    # (loss object, parameter object, batch object) of every call
    triples = [(lossA, world["params"], world["batch"]),
               (lossA, _params_all_alt(case, world), world["batch"]),
               (lossB, worldB["params"], worldB["batch"])]
    jitted = {}

    def call(ci, mode):
        loss, p, batch = triples[ci]
        if mode == "eager":
            return loss.evaluate(p, batch)
        if mode == "jit":
            if id(loss) not in jitted:
                jitted[id(loss)] = jax.jit(lambda pp, bb, loss=loss: loss.evaluate(pp, bb))
            return jitted[id(loss)](p, batch)
        if mode == "jit_arg":
            # the loss object itself is an ARGUMENT of the compiled function (what `jinns.solve` does): its
            # dictionaries are rebuilt by the pytree round trip
            # plain `jax.jit` (not `eqx.filter_jit`, which keeps python numbers static): every leaf of the loss,
            # its python-float weights included, is a traced array inside -- as in `_gradient_step` of solve
            if "arg" not in jitted:
                jitted["arg"] = jax.jit(lambda L, pp, bb: L.evaluate(pp, bb))
            return jitted["arg"](loss, p, batch)
        (total, terms), _ = jax.value_and_grad(lambda pp: loss.evaluate(pp, batch), has_aux=True)(p)
        return total, terms

    trace = []
    for ci, mode in case["history"]:
        loss, p, batch = triples[ci]
        args = [p, batch, loss]
        before = snapshot(args)
        out = c12.outcome_of(lambda: call(ci, mode))
        after = snapshot(args)
        out = {k: v for k, v in out.items() if k != "msg"}
        trace.append({"call": ci, "mode": mode, "before": before, "after": after, "result_key": _outcome_key(out),
                      "result": out, "rejected": "error" in out})
    return {"trace": trace}


def make_generator(case, variant=0):
    """variant=1: an independently built generator of the same kind (other key, other user data)"""
    import jax
    import jax.numpy as jnp
    from jinns.data._DataGenerators import (CubicMeshPDENonStatio, CubicMeshPDEStatio, DataGeneratorObservations,
                                            DataGeneratorObservationsMultiPINNs, DataGeneratorODE,
                                            DataGeneratorParameter)

    kind, n, b = case["kind"], case["n"], case["b"]
    # batch sizes of the interior, border and time cursors (they may differ widely, in both directions)
    bo, bb, bt = case.get("bo", b), case.get("bb", b), case.get("bt", b)
    key = jax.random.PRNGKey((case["seed"] + 17 * variant) % (1 << 30))
    sh = float(variant)
    if kind == "gen_ode":
        return DataGeneratorODE(key, n, 0.0, 2.0, b)
    if kind == "gen_statio1":
        return CubicMeshPDEStatio(key=key, n=n, nb=2, omega_batch_size=b, omega_border_batch_size=1, dim=1,
                                  min_pts=(0.0,), max_pts=(1.0,))
    if kind == "gen_statio2":
        return CubicMeshPDEStatio(key=key, n=n, nb=4 * n, omega_batch_size=bo, omega_border_batch_size=bb, dim=2,
                                  min_pts=(0.0, -1.0), max_pts=(1.0, 1.0))
    if kind == "gen_nonstatio":
        return CubicMeshPDENonStatio(key=key, n=n, nb=4 * n, nt=n, omega_batch_size=b, omega_border_batch_size=b,
                                     temporal_batch_size=b, dim=2, min_pts=(0.0, -1.0), max_pts=(1.0, 1.0), tmin=0.0,
                                     tmax=2.0, cartesian_product=False)
    if kind == "gen_nonstatio_cart":
        return CubicMeshPDENonStatio(key=key, n=n, nb=4 * n, nt=n, omega_batch_size=bo, omega_border_batch_size=bb,
                                     temporal_batch_size=bt, dim=2, min_pts=(0.0, -1.0), max_pts=(1.0, 1.0), tmin=0.0,
                                     tmax=2.0, cartesian_product=True)
    if kind == "gen_nonstatio_cart1":
        return CubicMeshPDENonStatio(key=key, n=n, nb=2, nt=n, omega_batch_size=bo, omega_border_batch_size=1,
                                     temporal_batch_size=bt, dim=1, min_pts=(0.0,), max_pts=(1.0,), tmin=0.0,
                                     tmax=2.0, cartesian_product=True)
    pin = jnp.arange(float(n))[:, None] * 2.0 + 1.0 + sh
    val = jnp.arange(float(2 * n)).reshape(n, 2) - 3.0 + sh
    if kind == "gen_obs":
        return DataGeneratorObservations(key, b, pin, val, {"nu": jnp.arange(float(n)) + 10.0})
    if kind == "gen_param":
        return DataGeneratorParameter(key, n, b, param_ranges={"nu": (0.0, 1.0)},
                                      user_data={"a": jnp.arange(float(n)) - 1.0 + sh})
    if kind == "gen_multi":
        return DataGeneratorObservationsMultiPINNs(
            b, {"u0": pin, "u1": None, "u2": pin + 1.0}, {"u0": val, "u1": None, "u2": val + 1.0},
            observed_eq_params_dict={"u0": {"nu": jnp.arange(float(n))}, "u1": {}, "u2": {}}, key=key)
    raise ValueError(kind)


def run_gen(case):
    """batch drawing needs no exact arithmetic: these cases run in the library's default precision (x64 off), where
    the cursors are int32 also under jit; results are compared bit for bit"""
    import jax

    jax.config.update("jax_enable_x64", False)
    try:
        return _run_gen(case)
    finally:
        jax.config.update("jax_enable_x64", True)


def _run_gen(case):
    import jax
    from harness import core

    g0 = make_generator(case)
    # three generator objects: the initial one, its successor, and an independently built generator of the
    # same kind -- all drawn from through the same jitted function
    g1, _ = g0.get_batch()
    g2 = make_generator(case, variant=1)
    objs = [g0, g1, g2]
    jitted = jax.jit(lambda g: g.get_batch())
    trace = []
    distinct = digest(_canon(g0)) != digest(_canon(g1))
    for ci, mode in case["history"]:
        g = objs[ci]
        before = snapshot([g])
        try:
            new, batch = g.get_batch() if mode == "eager" else jitted(g)
            key = digest((_canon(new), _canon(batch)))
        except Exception as e:  # a generator that cannot be drawn from in this mode
            key = "error:" + core.err_kind(e)
        after = snapshot([g])
        trace.append({"call": ci, "mode": mode, "before": before, "after": after, "result_key": key, "result": None,
                      "rejected": key.startswith("error:")})
    return {"trace": trace, "successor_differs": distinct}


def run_impl(case):
    return run_loss(case) if case["kind"] in LOSS_KINDS else run_gen(case)


# ------------------------------------------------------------------------------------------------
# model side
# ------------------------------------------------------------------------------------------------
def lean_request(case, obs):
    calls = []
    if case["kind"] in LOSS_KINDS:
        prA = c12.build(case)
        prB = c12.build({**case, "wvariant": 1})
        for pr, params in ((prA, prA["params"]), (prA, prA["params_alt"]), (prB, prB["params"])):
            base = {"params": c12.params_json(params), "readers": c12.readers_json(pr)}
            if pr["issys"]:
                calls.append({**base, "kind": "sys", "nonstatio": pr["base"] == "nonstatio", "sys": c12.sys_json(pr)})
            else:
                calls.append({**base, "kind": "single", "loss_kind": pr["base"],
                              "single": c12.single_json(pr, "u", pr["weights"], True, c12.rows_json(pr["param_rows"]))})
    else:
        calls = [{"kind": "gen"}] * 3
    return {"op": "c20", "calls": calls, "trace": obs["trace"]}


def judge(case, obs, a):
    if not a["holds"]:
        return {"status": "violation", "clause": a["clause"]}
    if not a["agree"]:
        # one exact model value for three execution modes: a mode that departs from it departs from the others
        modes = {d["mode"] for d in a["disagreeing"]}
        all_modes = {m for _, m in case["history"]}
        if modes and modes != all_modes:
            return {"status": "violation", "clause": "execution-mode-changes-value", "disagreeing": a["disagreeing"]}
        return {"status": "disagree", "clause": "model-value-differs", "disagreeing": a["disagreeing"],
                "model": a["model"]}
    if not a["model_frame"]:
        return {"status": "disagree", "clause": "model-frame"}
    return {"status": "ok", "clause": None}


def nontrivial(case, obs):
    h = case["history"]
    calls = {c for c, _ in h}
    modes = {m for _, m in h}
    repeated = all(sum(1 for c, _ in h if c == cc) >= 2 for cc in calls)
    if len(calls) < 2 or len(modes) < 2 or not repeated:
        return False
    if case["kind"] in LOSS_KINDS:
        r = obs["trace"][0]["result"]
        return "terms" in r and Fraction(r["total"]) != 0
    return bool(obs.get("successor_differs"))


def tags(case, obs):
    out = [f"kind={case['kind']}", f"history_len={len(case['history'])}"]
    if "bt" in case:
        out.append("batch_sizes=" + ("time>>omega" if case["bt"] > case["bo"] + 1 else
                                     "omega>>time" if case["bo"] > case["bt"] + 1 else "close"))
        out.append("border_vs_omega=" + ("border>omega" if case["bb"] > case["bo"] else
                                         "border<omega" if case["bb"] < case["bo"] else "equal"))
    for m in sorted({m for _, m in case["history"]}):
        out.append(f"mode={m}")
    if case["kind"] in LOSS_KINDS:
        out.append("param_batch=" + ("none" if case.get("batched") is None else str(len(case["batched"]))))
        out.append("obs_batch=" + ("yes" if case.get("obs") else "no"))
        if case.get("het"):
            out.append("heterogeneity")
    if any(str(r["result_key"]).startswith("error") or (r["result"] and "error" in r["result"]) for r in obs["trace"]):
        out.append("impl=error")
    return out


def widen(rng, bad_cases):
    out = []
    for c in bad_cases:
        for _ in range(3):
            cc = {**c, "seed": rng.randrange(1 << 30)}
            out.append(c12.settle_seed(cc) if c["kind"] in LOSS_KINDS else cc)
    return out
