"""
C05 — initial-condition, normalisation and observation terms match their definitions.
Correspondence: terms['initial_condition'], terms['norm_loss'], terms['observations'] of real LossODE /
LossPDEStatio / LossPDENonStatio on polynomial PINNs whose network input reads the equation parameter theta
(input_transform), so that a misaligned observed-parameter row changes the value; initial condition at t0 (ODE) and
at t = 0 with batch times != 0 (PDE); stationary and non-stationary normalisation with non-constant u, auxiliary
outputs excluded by slice_solution; observation tables with distinct integer rows, obs_slice / slice_solution
combinations, observed theta given as (n,1) or (n,), hand-built batches and batches drawn by the real
DataGeneratorObservations; real SPINNs (polynomial per-coordinate features) for the normalisation term
(stationary / non-stationary, 1..3 outputs, sample count 1x, 2x, 3x the temporal batch size) and the PDE
initial-condition term.  The loss-case machinery is shared with C03 (harness/c03.py).
"""
from __future__ import annotations

import itertools
from fractions import Fraction as Fr

from harness import core
from harness import c03 as K

PROP = "C05"
TECHNIQUE = ("Lean 4 proof (list induction, List.Perm, ring/field_simp) + exact differential correspondence "
             "with user functions as value tables")
LEVEL_TEXT = ("Lean 4 theorems, for all networks, initial states / functions, sample sets, volumes, tables, slices and "
              "weights: icODE = w sum_c (u(t0) - u0)_c^2; icPDE = mean over the spatial points of the batch of "
              "sum_c w_c (u0(x) - u(0,x))_c^2 (the time column of the batch is not read); normStatio = w (L mean_s u(s) - 1)^2 "
              "and normNonStatio = w mean_t (L mean_s u(t,s) - 1)^2 for a scalar solution selected by slice_solution, "
              "with the lemma that the squared deviation of the mean differs from the mean of the squared deviations as "
              "soon as u is not constant on the samples; the observation term is the mean over rows of "
              "sum_c w_c (u(in_i; params_i)[slice_solution][obs_slice] - val_i)_c^2 where params_i holds row i of every "
              "observed parameter and the caller's value of every other key, and depends on u at those (input, "
              "parameter) pairs only.  The model is tied to /repo on every run by exact differential execution; "
              "Holds.C05 is evaluated on the implementation's own values against solution-level tables computed "
              "independently by the harness."
              "  Holds.C05 itself is proved of the model's value of every term, loss by loss (holdsC05_model_*).")
LEVEL_NOTE = ("Trusted: Lean kernel + {propext, Classical.choice, Quot.sound}; the network is an oracle table (whole "
              "outputs; the model slices, aligns rows and aggregates); the tie of the hand-written model to the code is "
              "differential; a parameter batch is covered for the observation term (observed rows win over generated rows of "
              "the same key) and the initial-condition term; separable networks (SPINN) are covered for the normalisation "
              "and PDE initial-condition terms: they are evaluated on the tensor grid of the coordinate columns (samples, "
              "resp. spatial points of the batch; batch times repeated n_samples/n_times times), which the model states; "
              "a vector-valued u is averaged over all its output components as well as over the samples (what the code "
              "computes; for PINNs the generated normalisation cases select one component with slice_solution); the "
              "observation term is not implemented for SPINNs in jinns.")
THEOREMS = [
    "Jinns.LossTerms.icODE_single",
    "Jinns.LossTerms.icPDE_closed_form",
    "Jinns.LossTerms.lossNonStatio_ic_ignores_times",
    "Jinns.LossTerms.normStatio_scalar",
    "Jinns.LossTerms.normNonStatio_scalar",
    "Jinns.LossTerms.holds_dev_eq",
    "Jinns.LossTerms.mean_sq_dev_sub_sq_dev_mean",
    "Jinns.LossTerms.normStatio_ne_mean_of_sq_dev",
    "Jinns.LossTerms.meanAll_map_eq_mean_of_means",
    "Jinns.LossTerms.normStatioSpinn_closed_form",
    "Jinns.LossTerms.mean_repTimes",
    "Jinns.LossTerms.normNonStatioSpinn_closed_form",
    "Jinns.LossTerms.icSpinn_closed_form",
    "Jinns.LossTerms.rowParams_observed",
    "Jinns.LossTerms.rowParams_other",
    "Jinns.LossTerms.obsRowParams_observed_wins",
    "Jinns.LossTerms.obsRowParams_generated_only",
    "Jinns.LossTerms.obsRowParams_other",
    "Jinns.LossTerms.obsRowParams_no_pbatch",
    "Jinns.LossTerms.obsTerm_closed_form",
    "Jinns.LossTerms.obsTerm_row_alignment",
    "Jinns.LossTerms.slice_apply_apply",
    "Jinns.LossTerms.holdsC05_model_icODE",
    "Jinns.LossTerms.holdsC05_model_icODE_pbatch",
    "Jinns.LossTerms.holdsC05_model_icPDE",
    "Jinns.LossTerms.holdsC05_model_normStatio",
    "Jinns.LossTerms.holdsC05_model_normNonStatio",
    "Jinns.LossTerms.holdsC05_model_obs",
    "Jinns.LossTerms.holdsC05_model_ode",
    "Jinns.LossTerms.holdsC05_model_ode_pbatch",
    "Jinns.LossTerms.holdsC05_model_statio",
    "Jinns.LossTerms.holdsC05_model_nonstatio",
    "Jinns.LossTerms.holdsC05_model_statio_spinn",
    "Jinns.LossTerms.holdsC05_model_nonstatio_spinn",
]
LEAN_MODULES = ["JinnsProofs.C05", "JinnsProofs.C03C05Holds"]
RULE = ("cases = (loss kind, dimension, network with 1..3 outputs reading theta, slice_solution, which of the three "
        "terms are configured and how, batch); non-trivial = at least one of the three terms is configured with a "
        "non-zero value and: for a normalisation term u is not constant on the samples (mean of squared deviations "
        "differs from squared deviation of the mean); for observations with observed parameters the rows of the "
        "parameter table are not all equal and differ from the caller's value; for a PDE initial condition the first "
        "batch time is not 0; distinct = distinct case dicts")
ASSUMPTIONS = [
    "the network is a function of (input, parameters) (oracle table computed with exact polynomial arithmetic)",
    "float64 arithmetic is exact on the generated inputs; row counts that are not powers of two are compared within "
    "4 ulp and counted in the tags",
    "the normalised quantity is scalar: slice_solution selects one output component in normalisation cases",
    "observed equation parameters are scalar per row (shape (n,1) or (n,))",
]


def pick_slice_solution(rng, m, scalar=False):
    if m == 1:
        return None if rng.random() < 0.7 else [0, 1]
    if scalar:
        a = rng.randrange(m)
        return [a, a + 1]
    a = rng.randrange(m)
    b = rng.randint(a + 1, m)
    return rng.choice([None, [a, b]])


def gen_case(rng, kind, d, m, n, want):
    case = K.base_case(rng, kind, d, m, n)
    d = case["d"]
    case["slice_solution"] = pick_slice_solution(rng, m, scalar=("norm" in want))
    if kind == "nonstatio":
        # batch times away from 0, so that evaluating the initial condition at a batch time shows
        rows = case["batch"]["inside"]
        case["batch"]["inside"] = [[K.q(K.F(r[0]) + 1)] + r[1:] for r in rows]
    if "ic" in want and kind != "statio":
        case["ic"] = K.gen_ic(rng, case)
    if "norm" in want and kind != "ode":
        case["norm"] = K.gen_norm(rng, case, rng.choice([2, 4, 4, 8] if rng.random() < 0.9 else [3, 5]))
    if "obs" in want:
        nobs = rng.choice([2, 4, 4, 8] if rng.random() < 0.9 else [3, 5, 6])
        loader = rng.random() < 0.3
        N = nobs + rng.choice([0, 1, 3]) if loader else nobs
        case["obs"] = K.gen_obs(rng, case, N, with_theta=rng.random() < 0.7)
        if loader:
            case["obs"]["loader"] = {"seed": rng.randrange(1 << 30), "n": nobs, "draws": rng.choice([1, 2])}
    if "dyn" in want:
        case["dyn"] = {"eq": K.gen_eq(rng, case, 1), "w": {"scalar": "1"}}
    return case


def gen_pbatch_case(rng, kind, d, m, n, combo, with_ic):
    """the batch carries a parameter batch AND observed equation parameters (equal batch sizes).
    combo: which keys are generated / observed, e.g. ("theta", "theta") = the same key in both (the observed
    rows must win in the observation term), ("kappa", "theta") = disjoint keys, ("theta+kappa", "theta") …"""
    gen_keys, obs_keys = combo[0].split("+"), combo[1].split("+")
    case = K.base_case(rng, kind, d, m, n)
    case["kappa"] = K.q(Fr(rng.choice([-3, -1, 1, 3]), 2))
    case["slice_solution"] = pick_slice_solution(rng, m)
    if kind == "nonstatio":
        # distinct spatial points (row i of the inside batch goes with row i of the parameter batch), times != 0
        xs = K.gen_inside(rng, "statio", max(d, 1), n)
        case["batch"]["inside"] = [[K.q(Fr(rng.randint(2, 8), 2))] + K.qrow(x) for x in xs]
    pool = [Fr(x, 2) for x in range(-8, 9) if Fr(x, 2) not in (K.F(case["theta"]), K.F(case["kappa"]))]
    cols = rng.sample(pool, 4 * n) if 4 * n <= len(pool) else [rng.choice(pool) for _ in range(4 * n)]
    case["pbatch"] = {}
    for j, k in enumerate(gen_keys):
        case["pbatch"][k] = K.qrow(cols[j * n:(j + 1) * n])
    case["obs"] = K.gen_obs(rng, case, n, with_theta=False)
    for j, k in enumerate(obs_keys):
        case["obs"]["observed_" + k] = K.qrow(cols[(2 + j) * n:(3 + j) * n])
    case["obs"]["theta_1d"] = False
    if with_ic and kind != "statio":
        case["ic"] = K.gen_ic(rng, case)
    case["combo"] = "gen=" + combo[0] + ";obs=" + combo[1]
    return case


def gen_spinn_case(rng, kind, d, m, n, ratio, want, bad_ratio=False):
    """normalisation / initial-condition terms of a separable network.  `n` rows in the inside batch (= number
    of batch times), `ratio * n` normalisation samples (the SPINN branch repeats the times `ratio` times)."""
    case = K.base_case(rng, kind, d, m, n)
    case["spinn"], case["u"] = K.gen_spinn(rng, kind, d, m, R=rng.choice([1, 2]))
    if kind == "nonstatio":
        case["batch"]["inside"] = [[K.q(K.F(r[0]) + 1)] + r[1:] for r in case["batch"]["inside"]]
    if "norm" in want:
        ns = ratio * n if kind == "nonstatio" else rng.choice([1, 2, 2, 4])
        if bad_ratio:
            ns = ratio * n + 1
        case["norm"] = K.gen_norm(rng, case, ns)
    if "ic" in want and kind == "nonstatio":
        case["ic"] = K.gen_ic(rng, case)
        if len(case["ic"]["u0"]) != m or m > 1:
            case["ic"]["ret"] = "vec"
        if len(case["ic"]["u0"]) != m:
            case["ic"]["u0"] = (case["ic"]["u0"] * m)[:m]
    if bad_ratio:
        case["malformed"] = True
    return case


PB_COMBOS = [("theta", "theta"), ("kappa", "kappa"), ("theta", "kappa"), ("kappa", "theta"),
             ("theta+kappa", "theta"), ("theta", "theta+kappa"), ("theta+kappa", "kappa+theta")]


def gen_cases(rng, tier):
    cases = []
    # separable networks: normalisation (stationary / non-stationary, 1 and >= 2 outputs, sample count 1x, 2x, 3x
    # the temporal batch size) and PDE initial condition
    for rep in range(1 if tier == "quick" else 6):
        for d in (1, 2):
            for m in (1, 2) if tier == "quick" else (1, 2, 3):
                cases.append(gen_spinn_case(rng, "statio", d, m, 2, 1, {"norm"}))
                for ratio in (1, 2, 3):
                    n = rng.choice([1, 2]) if d == 2 else rng.choice([1, 2, 2, 4])
                    if d == 2 and ratio == 3:
                        n = 1
                    cases.append(gen_spinn_case(rng, "nonstatio", d, m, n, ratio,
                                                {"norm", "ic"} if ratio == 1 else {"norm"}))
                cases.append(gen_spinn_case(rng, "nonstatio", d, m, rng.choice([1, 2, 4] if d == 1 else [1, 2]), 1, {"ic"}))
    cases.append(gen_spinn_case(rng, "nonstatio", 1, 2, 2, 1, {"norm"}, bad_ratio=True))
    for kind, d in (("ode", 0), ("statio", 1), ("statio", 2), ("nonstatio", 1), ("nonstatio", 2)):
        combos = PB_COMBOS if tier == "thorough" else PB_COMBOS[:1] + rng.sample(PB_COMBOS[1:], 2)
        for rep in range(1 if tier == "quick" else 4):
            for combo in combos:
                m_, n_ = rng.choice([1, 2, 2, 3]), rng.choice([2, 4, 4] + ([3, 8] if tier == "thorough" else []))
                if kind == "ode":
                    # ODE initial condition under a parameter batch: the number of rows differs from the number of
                    # components (a sum over the wrong axis shows), and the term is configured, in every run
                    n_ = 4 if m_ == n_ else n_
                cases.append(gen_pbatch_case(rng, kind, d, m_, n_, combo, with_ic=(kind == "ode") or rng.random() < 0.6))
    reps = 6 if tier == "quick" else 60
    plan = {"ode": [{"ic"}, {"obs"}, {"ic", "obs"}, {"ic", "obs", "dyn"}],
            "statio": [{"norm"}, {"obs"}, {"norm", "obs"}],
            "nonstatio": [{"ic"}, {"norm"}, {"obs"}, {"ic", "norm", "obs"}]}
    for kind, d in (("ode", 0), ("statio", 1), ("statio", 2), ("nonstatio", 1), ("nonstatio", 2)):
        for r in range(reps):
            for want in plan[kind]:
                m = rng.choice([1, 2, 2, 3])
                n = rng.choice([1, 2, 4, 4] if rng.random() < 0.9 else [3, 5])
                if tier == "thorough":
                    n = rng.choice([1, 2, 4, 8, 16] if rng.random() < 0.85 else [3, 5, 6, 7])
                cases.append(gen_case(rng, kind, d, m, n, want))
    return cases


def holds_obs(case, arrays, base, tol):
    """solution-level tables for Holds.C05, computed with exact polynomials only"""
    ex = K.Exact(case)
    kind, m = case["kind"], case["m"]
    lo, hi = K.sol_slice(case)
    terms = base["terms"]
    o = {"tol": K.q(tol)}
    spinn = bool(case.get("spinn"))

    def grid_of(rows):
        # a separable network is evaluated on the tensor grid of the coordinate columns of the rows: these are
        # its normalisation samples / initial-condition points
        if not spinn:
            return rows
        cols = [[r[j] for r in rows] for j in range(len(rows[0]))]
        return [list(p) for p in itertools.product(*cols)]
    if case.get("ic"):
        c = case["ic"]
        if kind == "ode":
            u0 = [K.F(x) for x in c["u0"]]
            if len(u0) == 1:
                u0 = u0 * m
            if not case.get("pbatch"):
                o["ic_ode"] = {"value": terms["initial_condition"], "w": c["w"],
                               "ut0": K.qrow(ex.uval([K.F(c["t0"])])), "u0": K.qrow(u0)}
            else:
                # one row per row of the parameter batch: the term is the mean of the per-row terms, i.e. the
                # PDE-style mean over rows of w * sum_c (u(t0; params_j) - u0)_c^2
                o["ic_pde"] = {"value": terms["initial_condition"], "w": {"scalar": c["w"]},
                               "rows": [[K.qrow(u0), K.qrow(ex.uval([K.F(c["t0"])], **pr))] for pr in K.pb_rows(case)]}
        else:
            rows = []
            prs = K.pb_rows(case)
            pts = [[Fr(0)] + x for x in grid_of([r[1:] for r in arrays["inside"]])] if spinn else arrays["inside"]
            for i, r in enumerate(pts):
                x = r[1:]
                v = ex.fn(c["u0"], [Fr(0)] + x)
                if len(v) == 1:
                    v = v * m
                rows.append([K.qrow(v), K.qrow(ex.uval([Fr(0)] + x, **(prs[i] if case.get("pbatch") else {})))])
            o["ic_pde"] = {"value": terms["initial_condition"], "w": c["w"], "rows": rows}
    if case.get("norm"):
        c = case["norm"]
        samples = grid_of([[K.F(x) for x in s] for s in c["samples"]])
        sol = lambda p: [v for v in ex.uval(p)[lo:hi]]  # (vector-valued u: all its components are averaged)
        if kind == "statio":
            o["norm_statio"] = {"value": terms["norm_loss"], "w": c["w"], "L": c["L"],
                                "us": K.qrow([v for s in samples for v in sol(s)])}
        else:
            o["norm_nonstatio"] = {"value": terms["norm_loss"], "w": c["w"], "L": c["L"],
                                   "tbl": [K.qrow([v for s in samples for v in sol(r[:1] + s)]) for r in arrays["inside"]]}
    if case.get("obs"):
        c, ao = case["obs"], arrays["obs"]
        rows = []
        for i, inp in enumerate(ao["ins"]):
            pred = ex.uval(inp, **K.obs_row_kwargs(case, arrays, i))[lo:hi]
            if c.get("obs_slice") is not None:
                pred = pred[c["obs_slice"][0]:c["obs_slice"][1]]
            rows.append([K.qrow(pred), K.qrow(ao["vals"][i])])
        o["obs"] = {"value": terms["observations"], "w": c["w"], "rows": rows}
    return o


def run_impl(case):
    arrays = K.make_arrays(case)
    base = K.evaluate(case, arrays)
    obs = {"base": base}
    if "error" in base:
        obs["req"] = None
        return obs
    tol = K.tol_of(case, arrays, [base["total"], *base["terms"].values()])
    obs["tol"] = K.q(tol)
    a2 = {k: v for k, v in arrays.items() if not k.startswith("_")}
    obs["req"] = {"op": "c05", "case": K.lean_case(case, a2), "obs": holds_obs(case, arrays, base, tol)}
    # facts used by `nontrivial`
    ex = K.Exact(case)
    lo, hi = K.sol_slice(case)
    facts = {}
    if case.get("norm"):
        samples = [[K.F(x) for x in s] for s in case["norm"]["samples"]]
        t0 = arrays["inside"][0][:1] if case["kind"] == "nonstatio" else []
        facts["norm_nonconstant"] = len({tuple(ex.uval(t0 + s)[lo:hi]) for s in samples}) > 1
    if case.get("obs"):
        ths = arrays["obs"]["thetas"]
        if ths is None and arrays["obs"].get("kappas") is not None:
            ths = arrays["obs"]["kappas"]
        facts["obs_theta_distinct"] = ths is not None and len(set(ths)) > 1 and any(t != ex.theta for t in ths)
        facts["nobs"] = len(arrays["obs"]["ins"])
    if case.get("ic") and case["kind"] == "nonstatio":
        facts["t_first_nonzero"] = arrays["inside"][0][0] != 0
    obs["facts"] = facts
    return obs


def lean_request(case, obs):
    return obs["req"]


CHECKED = ["initial_condition", "norm_loss", "observations"]


def judge(case, obs, answer):
    base = obs["base"]
    if "error" in base:
        if case.get("malformed") and base["error"] == "assertion_error":
            return {"status": "ok", "clause": None, "rejected": base["error"]}
        return {"status": "violation", "clause": "evaluate-raised:" + base["error"], "detail": base.get("msg")}
    if answer.get("model_rejected"):
        return {"status": "disagree", "clause": "model-rejects-implementation-accepts"}
    if not answer["holds"]:
        return {"status": "violation", "clause": answer["clause"],
                "detail": f"impl {base['terms']} model {answer.get('model_terms')}"}
    d = K.compare_model(obs, answer, keys=CHECKED)
    if d:
        return {"status": "disagree", "clause": "model-differs", "detail": d}
    return {"status": "ok", "clause": None}


def nontrivial(case, obs):
    if "error" in obs["base"]:
        return False
    t, f = obs["base"]["terms"], obs["facts"]
    good = False
    if case.get("ic") and K.F(t["initial_condition"]) != 0 and f.get("t_first_nonzero", True):
        good = True
    if case.get("norm") and K.F(t["norm_loss"]) != 0 and f.get("norm_nonconstant"):
        good = True
    if case.get("obs") and K.F(t["observations"]) != 0 and (
            (case["obs"].get("observed_theta") is None and case["obs"].get("observed_kappa") is None)
            or f.get("obs_theta_distinct")):
        good = True
    return good


def tags(case, obs):
    out = [f"kind={case['kind']}", f"d={case['d']}", f"m={case['m']}",
           "slice_solution=" + ("none" if case.get("slice_solution") is None else "slice")]
    for k in ("ic", "norm", "obs", "dyn"):
        if case.get(k):
            out.append("term=" + k)
    if case.get("obs"):
        o = case["obs"]
        out.append("obs_slice=" + ("none" if o.get("obs_slice") is None else "slice"))
        out.append("observed_theta=" + ("no" if o.get("observed_theta") is None else "1d" if o.get("theta_1d") else "n1"))
        out.append("obs_batch=" + ("loader" if o.get("loader") else "hand"))
    if case.get("pbatch"):
        out.append("param_batch:" + case["combo"])
    if case.get("spinn"):
        out.append("net=spinn")
        if case.get("norm"):
            out.append(f"spinn_norm:{case['kind']}:m={case['m']}:samples/times="
                       + (str(len(case['norm']['samples']) // max(1, len(case['batch']['inside'])))
                          if case['kind'] == 'nonstatio' else "-"))
        if case.get("ic"):
            out.append("spinn_ic")
    if "error" in obs["base"]:
        out.append("error=" + obs["base"]["error"])
        return out
    if obs["facts"].get("norm_nonconstant"):
        out.append("norm_u_nonconstant")
    out.append("ulp_rule" if K.F(obs["tol"]) != 0 else "exact")
    return out


def shrink_candidates(case):
    for k in ("dyn", "obs", "norm", "ic"):
        if case.get(k) and sum(1 for j in ("obs", "norm", "ic") if case.get(j)) > (0 if k == "dyn" else 1):
            c = dict(case)
            c[k] = None
            yield c
    if case.get("pbatch") and not case.get("obs"):
        return  # (a shrink step dropped the observation part: nothing smaller to try with a parameter batch)
    if case.get("pbatch"):
        # the parameter batch, the inside batch and the observation batch keep equal sizes
        n = len(case["obs"]["ins"])
        if n > 1:
            k = n // 2
            c = dict(case)
            o = case["obs"]
            c["batch"] = {**case["batch"], "inside": case["batch"]["inside"][:k]}
            c["pbatch"] = {kk: col[:k] for kk, col in case["pbatch"].items()}
            c["obs"] = {**o, "ins": o["ins"][:k], "vals": o["vals"][:k],
                        **{kk: o[kk][:k] for kk in ("observed_theta", "observed_kappa") if o.get(kk) is not None}}
            yield c
        return
    b = case["batch"]
    if len(b["inside"]) > 1:
        c = dict(case)
        c["batch"] = {**b, "inside": b["inside"][: len(b["inside"]) // 2]}
        yield c
    o = case.get("obs")
    if o and not o.get("loader") and len(o["ins"]) > 1:
        k = len(o["ins"]) // 2
        c = dict(case)
        c["obs"] = {**o, "ins": o["ins"][:k], "vals": o["vals"][:k],
                    "observed_theta": None if o.get("observed_theta") is None else o["observed_theta"][:k]}
        yield c


def widen(rng, bad_cases):
    out = []
    for c in bad_cases[:3]:
        want = {k for k in ("ic", "norm", "obs") if c.get(k)}
        for n in (1, 2, 3, 4):
            for m in (1, 2, 3):
                out.append(gen_case(rng, c["kind"], c["d"], m, n, want))
    return out
